//! Compile-time witnesses: every `const _: () = {...}` block is evaluated by rustc's constant
//! evaluator when this crate is type-checked. A falsified assertion makes `cargo check` fail with
//! error[E0080] naming the assertion. Loops are exhaustive over the finite value types.
#![allow(long_running_const_eval, clippy::all)]

use owlchess_base::bitboard::Bitboard;
use owlchess_base::bitboard_consts::{self, ANTIDIAG, DARK_SQUARES, DIAG, LIGHT_SQUARES};
use owlchess_base::geometry as geo;
use owlchess_base::types::{CastlingRights, CastlingSide, Cell, Color, Coord, File, Piece, Rank};

const fn color_eq(a: Color, b: Color) -> bool { a as u8 == b as u8 }
const fn opt_color_eq(a: Option<Color>, b: Option<Color>) -> bool {
    match (a, b) { (None, None) => true, (Some(x), Some(y)) => x as u8 == y as u8, _ => false }
}
const fn opt_piece_eq(a: Option<Piece>, b: Option<Piece>) -> bool {
    match (a, b) { (None, None) => true, (Some(x), Some(y)) => x as u8 == y as u8, _ => false }
}
const fn colors() -> [Color; 2] { [Color::White, Color::Black] }
const fn sides() -> [CastlingSide; 2] { [CastlingSide::Queen, CastlingSide::King] }

// ---- C20: index round trips of the value types
const _: () = {
    let mut i = 0;
    while i < 8 {
        assert!(File::from_index(i).index() == i, "C20/File::from_index/index round trip");
        assert!(Rank::from_index(i).index() == i, "C20/Rank::from_index/index round trip");
        i += 1;
    }
    let mut i = 0;
    while i < 64 {
        assert!(Coord::from_index(i).index() == i, "C20/Coord::from_index/index round trip");
        i += 1;
    }
    let mut i = 0;
    while i < Piece::COUNT {
        assert!(Piece::from_index(i).index() == i, "C20/Piece::from_index/index round trip");
        i += 1;
    }
    assert!(Piece::COUNT == 6, "C20/Piece::COUNT");
    let mut i = 0;
    while i < Cell::COUNT {
        assert!(Cell::from_index(i).index() == i, "C20/Cell::from_index/index round trip");
        i += 1;
    }
    assert!(Cell::COUNT == 13, "C20/Cell::COUNT");
    let mut i = 0;
    while i < 16 {
        assert!(CastlingRights::from_index(i).index() == i, "C20/CastlingRights::from_index/index round trip");
        i += 1;
    }
    assert!(CastlingRights::EMPTY.index() == 0 && CastlingRights::FULL.index() == 15, "C20/CastlingRights EMPTY/FULL");
};

// ---- C20: squares, files, ranks, flips, diagonals
const _: () = {
    let mut r = 0;
    while r < 8 {
        let mut f = 0;
        while f < 8 {
            let c = Coord::from_parts(File::from_index(f), Rank::from_index(r));
            assert!(c.index() == r * 8 + f, "C20/Coord::from_parts index = 8*rank+file");
            assert!(c.file().index() == f, "C20/Coord::file");
            assert!(c.rank().index() == r, "C20/Coord::rank");
            assert!(c.flipped_rank().file().index() == f && c.flipped_rank().rank().index() == 7 - r, "C20/Coord::flipped_rank");
            assert!(c.flipped_file().file().index() == 7 - f && c.flipped_file().rank().index() == r, "C20/Coord::flipped_file");
            assert!(c.diag() == f + r, "C20/Coord::diag");
            assert!(c.antidiag() == 7 - r + f, "C20/Coord::antidiag");
            let mut d = 0;
            while d < 15 {
                assert!(DIAG[d].has(c) == (f + r == d), "C20/DIAG[d] contains exactly the squares with file+rank == d");
                assert!(ANTIDIAG[d].has(c) == (7 - r + f == d), "C20/ANTIDIAG[d] contains exactly the squares with 7-rank+file == d");
                d += 1;
            }
            let mut k = 0;
            while k < 8 {
                assert!(bitboard_consts::rank(Rank::from_index(k)).has(c) == (k == r), "C20/bitboard_consts::rank");
                assert!(bitboard_consts::file(File::from_index(k)).has(c) == (k == f), "C20/bitboard_consts::file");
                k += 1;
            }
            assert!(LIGHT_SQUARES.has(c) == ((f + r) % 2 == 0), "C20/LIGHT_SQUARES = squares with even file+rank (a8 is light)");
            assert!(DARK_SQUARES.has(c) == ((f + r) % 2 == 1), "C20/DARK_SQUARES is the complement of LIGHT_SQUARES");
            f += 1;
        }
        r += 1;
    }
    assert!(LIGHT_SQUARES.as_raw() ^ DARK_SQUARES.as_raw() == u64::MAX, "C20/LIGHT and DARK are complementary");
};

// ---- C20: Coord::add inside the board
const _: () = {
    let deltas: [isize; 8] = [1, -1, 8, -8, 7, -7, 9, -9];
    let mut i = 0;
    while i < 64 {
        let mut k = 0;
        while k < 8 {
            let t = i as isize + deltas[k];
            if t >= 0 && t < 64 {
                assert!(Coord::from_index(i).add(deltas[k]).index() == t as usize, "C20/Coord::add");
            }
            k += 1;
        }
        i += 1;
    }
};

// ---- C20: cells
const _: () = {
    assert!(Cell::EMPTY.index() == 0 && Cell::EMPTY.is_free() && !Cell::EMPTY.is_occupied(), "C20/Cell::EMPTY");
    assert!(opt_color_eq(Cell::EMPTY.color(), None) && opt_piece_eq(Cell::EMPTY.piece(), None), "C20/Cell::EMPTY has no colour and no piece");
    let cs = colors();
    let mut ci = 0;
    while ci < 2 {
        let mut p = 0;
        while p < 6 {
            let cell = Cell::from_parts(cs[ci], Piece::from_index(p));
            assert!(cell.index() == 1 + 6 * ci + p, "C20/Cell::from_parts index = 1 + 6*colour + piece");
            assert!(opt_color_eq(cell.color(), Some(cs[ci])), "C20/Cell::color inverts from_parts");
            assert!(opt_piece_eq(cell.piece(), Some(Piece::from_index(p))), "C20/Cell::piece inverts from_parts");
            assert!(cell.is_occupied() && !cell.is_free(), "C20/Cell::is_occupied");
            p += 1;
        }
        ci += 1;
    }
    assert!(color_eq(Color::White.inv(), Color::Black) && color_eq(Color::Black.inv(), Color::White), "C20/Color::inv");
    assert!(color_eq(Color::White.inv().inv(), Color::White), "C20/Color::inv is an involution");
};

// ---- C20: castling rights as a set of 4 flags
const _: () = {
    let cs = colors();
    let ss = sides();
    let mut v = 0;
    while v < 16 {
        let r = CastlingRights::from_index(v);
        let mut ci = 0;
        while ci < 2 {
            let mut si = 0;
            while si < 2 {
                let bit = 1usize << (2 * ci + si);
                assert!(r.has(cs[ci], ss[si]) == (v & bit != 0), "C20/CastlingRights::has = bit 2*colour+side");
                assert!(r.with(cs[ci], ss[si]).index() == (v | bit), "C20/CastlingRights::with sets exactly one flag");
                assert!(r.without(cs[ci], ss[si]).index() == (v & !bit), "C20/CastlingRights::without clears exactly one flag");
                si += 1;
            }
            assert!(r.has_color(cs[ci]) == (v & (3 << (2 * ci)) != 0), "C20/CastlingRights::has_color");
            ci += 1;
        }
        v += 1;
    }
};

// ---- C20: bitboards as sets of squares (all one- and two-square sets)
const _: () = {
    assert!(Bitboard::EMPTY.is_empty() && Bitboard::EMPTY.len() == 0, "C20/Bitboard::EMPTY");
    assert!(Bitboard::FULL.len() == 64 && Bitboard::FULL.is_nonempty(), "C20/Bitboard::FULL");
    let mut i = 0;
    while i < 64 {
        let a = Coord::from_index(i);
        let one = Bitboard::from_coord(a);
        assert!(one.as_raw() == 1u64 << i, "C20/Bitboard::from_coord = 1 << index");
        assert!(one.len() == 1 && one.has(a) && !one.is_empty(), "C20/Bitboard singleton");
        assert!(Bitboard::EMPTY.with(a).as_raw() == one.as_raw(), "C20/Bitboard::with on the empty set");
        assert!(one.without(a).is_empty(), "C20/Bitboard::without removes the square");
        assert!(one.flipped_rank().as_raw() == Bitboard::from_coord(a.flipped_rank()).as_raw(), "C20/Bitboard::flipped_rank = image under Coord::flipped_rank");
        assert!(one.flipped_file().as_raw() == Bitboard::from_coord(a.flipped_file()).as_raw(), "C20/Bitboard::flipped_file = image under Coord::flipped_file");
        let mut j = 0;
        while j < 64 {
            let b = Coord::from_index(j);
            let two = one.with(b);
            assert!(two.has(a) && two.has(b), "C20/Bitboard::with inserts");
            assert!(two.len() == if i == j { 1 } else { 2 }, "C20/Bitboard::len counts squares");
            assert!(one.has(b) == (i == j), "C20/Bitboard::has");
            assert!(two.without(b).has(a) == (i != j), "C20/Bitboard::without removes only that square");
            assert!(two.flipped_rank().as_raw() == Bitboard::from_coord(a.flipped_rank()).with(b.flipped_rank()).as_raw(), "C20/flipped_rank on two squares");
            assert!(two.flipped_file().as_raw() == Bitboard::from_coord(a.flipped_file()).with(b.flipped_file()).as_raw(), "C20/flipped_file on two squares");
            j += 1;
        }
        let mut k = 0;
        while k < 64 {
            assert!(one.shl(k).as_raw() == (1u64 << i) << k, "C20/Bitboard::shl");
            assert!(one.shr(k).as_raw() == (1u64 << i) >> k, "C20/Bitboard::shr");
            k += 1;
        }
        i += 1;
    }
};

// ---- C18/Y1: every per-colour geometry constant of Black is the mirror image of White's
const _: () = {
    let w = Color::White;
    let b = Color::Black;
    assert!(geo::castling_rank(b).index() == 7 - geo::castling_rank(w).index(), "C18/castling_rank mirrored");
    assert!(geo::double_move_src_rank(b).index() == 7 - geo::double_move_src_rank(w).index(), "C18/double_move_src_rank mirrored");
    assert!(geo::double_move_dst_rank(b).index() == 7 - geo::double_move_dst_rank(w).index(), "C18/double_move_dst_rank mirrored");
    assert!(geo::promote_src_rank(b).index() == 7 - geo::promote_src_rank(w).index(), "C18/promote_src_rank mirrored");
    assert!(geo::promote_dst_rank(b).index() == 7 - geo::promote_dst_rank(w).index(), "C18/promote_dst_rank mirrored");
    assert!(geo::enpassant_src_rank(b).index() == 7 - geo::enpassant_src_rank(w).index(), "C18/enpassant_src_rank mirrored");
    assert!(geo::enpassant_dst_rank(b).index() == 7 - geo::enpassant_dst_rank(w).index(), "C18/enpassant_dst_rank mirrored");
    // a square delta 8*dr + df mirrors to -8*dr + df
    assert!(geo::pawn_forward_delta(w) == -8 && geo::pawn_forward_delta(b) == 8, "C18/pawn_forward_delta: White moves towards rank 8 (index -8)");
    assert!(geo::pawn_left_delta(w) == -8 - 1 && geo::pawn_left_delta(b) == 8 - 1, "C18/pawn_left_delta mirrored");
    assert!(geo::pawn_right_delta(w) == -8 + 1 && geo::pawn_right_delta(b) == 8 + 1, "C18/pawn_right_delta mirrored");
    // absolute anchoring of White's constants to the rules
    assert!(geo::castling_rank(w).index() == 7, "C18/White castles on rank 1");
    assert!(geo::double_move_src_rank(w).index() == 6 && geo::double_move_dst_rank(w).index() == 4, "C18/White double step 2->4");
    assert!(geo::promote_src_rank(w).index() == 1 && geo::promote_dst_rank(w).index() == 0, "C18/White promotes 7->8");
    assert!(geo::enpassant_src_rank(w).index() == 3 && geo::enpassant_dst_rank(w).index() == 2, "C18/White captures en passant 5->6");
};
