// owlscan: rustc_private driver used as RUSTC_WRAPPER.
//
// It behaves as plain rustc for every crate. In the session that compiles the
// crate named by $OWLSCAN_ROOTS (default `verif_roots`) it additionally walks
// every function instance reachable from that crate's functions into the crates
// listed in $OWLSCAN_CRATES (default `owlchess,owlchess_base`), and writes one
// JSON fact file ($OWLSCAN_OUT): instantiated MIR, evaluated constants, ADT
// layouts (variants/fields/visibility), const/static tables and fn signatures.
#![feature(rustc_private)]
#![allow(clippy::too_many_arguments)]

extern crate rustc_abi;
extern crate rustc_const_eval;
extern crate rustc_driver;
extern crate rustc_hir;
extern crate rustc_interface;
extern crate rustc_middle;
extern crate rustc_session;
extern crate rustc_span;

use std::collections::{BTreeMap, HashMap, HashSet, VecDeque};
use std::fmt::Write as _;

use rustc_driver::Compilation;
use rustc_hir::def::DefKind;
use rustc_hir::def_id::{DefId, LOCAL_CRATE};
use rustc_interface::interface::Compiler;
use rustc_middle::mir::interpret::{AllocId, GlobalAlloc, Scalar};
use rustc_middle::mir::{
    self, AggregateKind, AssertKind, BasicBlockData, Body, Const, ConstValue, Operand, Place,
    ProjectionElem, Rvalue, StatementKind, TerminatorKind, UnwindAction,
};
use rustc_middle::ty::{self, GenericArgsRef, Instance, InstanceKind, Ty, TyCtxt, TypeVisitableExt, TypingEnv};
use rustc_span::{Span, DUMMY_SP};

struct Cb;

impl rustc_driver::Callbacks for Cb {
    fn after_analysis<'tcx>(&mut self, _c: &Compiler, tcx: TyCtxt<'tcx>) -> Compilation {
        let roots = std::env::var("OWLSCAN_ROOTS").unwrap_or_else(|_| "verif_roots".to_string());
        if tcx.crate_name(LOCAL_CRATE).as_str() == roots {
            let out = std::env::var("OWLSCAN_OUT").expect("OWLSCAN_OUT not set");
            let crates = std::env::var("OWLSCAN_CRATES")
                .unwrap_or_else(|_| "owlchess,owlchess_base".to_string());
            let mut s = Scan::new(tcx, &roots, &crates);
            s.run();
            let text = s.finish();
            std::fs::write(&out, text).expect("cannot write OWLSCAN_OUT");
        }
        Compilation::Continue
    }
}

fn main() {
    let mut args: Vec<String> = std::env::args().collect();
    // RUSTC_WRAPPER: argv[1] is the path of the real rustc.
    if args.len() > 1 && (args[1].ends_with("rustc") || args[1].contains("/rustc")) {
        args.remove(1);
    }
    rustc_driver::run_compiler(&args, &mut Cb);
}

// ---------------------------------------------------------------- JSON helpers

fn js(s: &str) -> String {
    let mut o = String::with_capacity(s.len() + 2);
    o.push('"');
    for c in s.chars() {
        match c {
            '"' => o.push_str("\\\""),
            '\\' => o.push_str("\\\\"),
            '\n' => o.push_str("\\n"),
            '\r' => o.push_str("\\r"),
            '\t' => o.push_str("\\t"),
            c if (c as u32) < 0x20 => {
                let _ = write!(o, "\\u{:04x}", c as u32);
            }
            c => o.push(c),
        }
    }
    o.push('"');
    o
}

fn jarr(items: &[String]) -> String {
    let mut o = String::from("[");
    for (i, it) in items.iter().enumerate() {
        if i > 0 {
            o.push(',');
        }
        o.push_str(it);
    }
    o.push(']');
    o
}

fn jobj(items: &[(&str, String)]) -> String {
    let mut o = String::from("{");
    for (i, (k, v)) in items.iter().enumerate() {
        if i > 0 {
            o.push(',');
        }
        o.push_str(&js(k));
        o.push(':');
        o.push_str(v);
    }
    o.push('}');
    o
}

fn hex(bytes: &[u8]) -> String {
    let mut o = String::with_capacity(bytes.len() * 2 + 2);
    o.push('"');
    for b in bytes {
        let _ = write!(o, "{:02x}", b);
    }
    o.push('"');
    o
}

// ---------------------------------------------------------------- scanner

struct Scan<'tcx> {
    tcx: TyCtxt<'tcx>,
    env: TypingEnv<'tcx>,
    roots_crate: String,
    crates: Vec<String>,
    queue: VecDeque<Instance<'tcx>>,
    seen: HashMap<Instance<'tcx>, String>,
    fns: Vec<(String, String)>,
    types: Vec<String>,
    type_ix: HashMap<Ty<'tcx>, usize>,
    adts: BTreeMap<String, String>,
    allocs: BTreeMap<u64, String>,
    alloc_seen: HashSet<AllocId>,
    statics: BTreeMap<String, String>,
    static_seen: HashSet<DefId>,
    consts: BTreeMap<String, String>,
    sigs: BTreeMap<String, String>,
    ext: BTreeMap<String, usize>,
    unresolved: Vec<String>,
    files: Vec<String>,
    file_ix: HashMap<String, usize>,
}

impl<'tcx> Scan<'tcx> {
    fn new(tcx: TyCtxt<'tcx>, roots: &str, crates: &str) -> Self {
        Scan {
            tcx,
            env: TypingEnv::fully_monomorphized(),
            roots_crate: roots.to_string(),
            crates: crates.split(',').map(|s| s.trim().to_string()).collect(),
            queue: VecDeque::new(),
            seen: HashMap::new(),
            fns: Vec::new(),
            types: Vec::new(),
            type_ix: HashMap::new(),
            adts: BTreeMap::new(),
            allocs: BTreeMap::new(),
            alloc_seen: HashSet::new(),
            statics: BTreeMap::new(),
            static_seen: HashSet::new(),
            consts: BTreeMap::new(),
            sigs: BTreeMap::new(),
            ext: BTreeMap::new(),
            unresolved: Vec::new(),
            files: Vec::new(),
            file_ix: HashMap::new(),
        }
    }

    fn dps(&self, did: DefId) -> String {
        ty::print::with_no_visible_paths!(ty::print::with_no_trimmed_paths!(
            self.tcx.def_path_str(did)
        ))
    }

    fn dpsa(&self, did: DefId, args: GenericArgsRef<'tcx>) -> String {
        ty::print::with_no_visible_paths!(ty::print::with_no_trimmed_paths!(
            self.tcx.def_path_str_with_args(did, args)
        ))
    }

    fn tys(&self, t: Ty<'tcx>) -> String {
        ty::print::with_no_visible_paths!(ty::print::with_no_trimmed_paths!(format!("{}", t)))
    }

    fn crate_name(&self, did: DefId) -> String {
        self.tcx.crate_name(did.krate).as_str().to_string()
    }

    fn is_target(&self, did: DefId) -> bool {
        let n = self.crate_name(did);
        self.crates.iter().any(|c| *c == n)
    }

    fn is_ours(&self, did: DefId) -> bool {
        self.is_target(did) || self.crate_name(did) == self.roots_crate
    }

    fn run(&mut self) {
        let tcx = self.tcx;
        // roots: every non-generic fn of the local crate
        for ldid in tcx.hir_crate_items(()).definitions() {
            let did = ldid.to_def_id();
            if matches!(tcx.def_kind(did), DefKind::Fn) && tcx.generics_of(did).count() == 0 {
                let inst = Instance::mono(tcx, did);
                self.enqueue(inst);
            }
        }
        while let Some(inst) = self.queue.pop_front() {
            self.process(inst);
        }
        // items of the target crates: signatures, consts, statics, adts
        let cnums: Vec<_> = tcx.crates(()).iter().copied().collect();
        for cnum in cnums {
            let name = tcx.crate_name(cnum).as_str().to_string();
            if self.crates.iter().any(|c| *c == name) {
                let root = cnum.as_def_id();
                let mut seen = HashSet::new();
                self.walk_module(root, &mut seen);
            }
        }
    }

    fn walk_module(&mut self, m: DefId, seen: &mut HashSet<DefId>) {
        if !seen.insert(m) {
            return;
        }
        let tcx = self.tcx;
        let children: Vec<DefId> =
            tcx.module_children(m).iter().filter_map(|ch| ch.res.opt_def_id()).collect();
        for did in children {
            if did.krate != m.krate {
                continue;
            }
            self.visit_item(did, seen);
        }
    }

    fn visit_item(&mut self, did: DefId, seen: &mut HashSet<DefId>) {
        let tcx = self.tcx;
        match tcx.def_kind(did) {
            DefKind::Mod => self.walk_module(did, seen),
            DefKind::Fn | DefKind::AssocFn => {
                self.sig(did);
            }
            DefKind::Const { .. } | DefKind::AssocConst { .. } => {
                if seen.insert(did) {
                    self.const_item(did);
                }
            }
            DefKind::Static { .. } => {
                self.static_item(did);
            }
            DefKind::Struct | DefKind::Enum | DefKind::Union => {
                if seen.insert(did) {
                    let t = tcx.type_of(did).instantiate_identity().skip_norm_wip();
                    if tcx.generics_of(did).count() == 0 {
                        self.ty(t);
                    } else {
                        self.adt_generic(did);
                    }
                    // inherent impls
                    let impls: Vec<_> = tcx.inherent_impls(did).to_vec();
                    for im in impls {
                        let items: Vec<_> =
                            tcx.associated_item_def_ids(im).iter().copied().collect();
                        for it in items {
                            self.visit_item(it, seen);
                        }
                    }
                }
            }
            DefKind::Trait => {
                if seen.insert(did) {
                    let items: Vec<_> = tcx.associated_item_def_ids(did).iter().copied().collect();
                    for it in items {
                        self.visit_item(it, seen);
                    }
                    let safety = format!("{:?}", tcx.trait_def(did).safety);
                    self.sigs.insert(
                        self.dps(did),
                        jobj(&[("kind", js("trait")), ("safety", js(&safety))]),
                    );
                }
            }
            _ => {}
        }
    }

    fn vis_str(&self, did: DefId) -> String {
        match self.tcx.def_kind(did) {
            DefKind::Fn
            | DefKind::AssocFn
            | DefKind::Const { .. }
            | DefKind::AssocConst { .. }
            | DefKind::Static { .. }
            | DefKind::Struct
            | DefKind::Enum
            | DefKind::Union
            | DefKind::Mod
            | DefKind::Field
            | DefKind::Trait => {}
            _ => return "n/a".to_string(),
        }
        match self.tcx.visibility(did) {
            ty::Visibility::Public => "pub".to_string(),
            ty::Visibility::Restricted(m) => {
                if m.is_crate_root() {
                    "crate".to_string()
                } else {
                    format!("in:{}", self.dps(m))
                }
            }
        }
    }

    fn sig(&mut self, did: DefId) {
        let tcx = self.tcx;
        let key = self.dps(did);
        if self.sigs.contains_key(&key) {
            return;
        }
        let sig = tcx.fn_sig(did).skip_binder();
        let safety = format!("{:?}", sig.safety());
        let (file, line) = self.span_loc(tcx.def_span(did));
        let is_const = tcx.is_const_fn(did);
        let v = jobj(&[
            ("kind", js("fn")),
            ("safety", js(&safety)),
            ("vis", js(&self.vis_str(did))),
            ("const", is_const.to_string()),
            ("generics", tcx.generics_of(did).count().to_string()),
            ("file", file.to_string()),
            ("line", line.to_string()),
            ("sig", js(&format!("{:?}", sig))),
        ]);
        self.sigs.insert(key, v);
    }

    fn const_item(&mut self, did: DefId) {
        let tcx = self.tcx;
        if tcx.generics_of(did).count() != 0 {
            return;
        }
        let key = self.dps(did);
        let t = tcx.type_of(did).instantiate_identity().skip_norm_wip();
        let tix = self.ty(t);
        let val = match tcx.const_eval_poly(did) {
            Ok(v) => self.constval(v, t),
            Err(_) => jobj(&[("err", js("eval"))]),
        };
        let v = jobj(&[("ty", tix.to_string()), ("vis", js(&self.vis_str(did))), ("v", val)]);
        self.consts.insert(key, v);
    }

    fn static_item(&mut self, did: DefId) {
        let tcx = self.tcx;
        if !self.static_seen.insert(did) {
            return;
        }
        let key = self.dps(did);
        let t = tcx.type_of(did).instantiate_identity().skip_norm_wip();
        let tix = self.ty(t);
        let body = match tcx.eval_static_initializer(did) {
            Ok(alloc) => self.alloc_body(alloc.inner()),
            Err(_) => jobj(&[("err", js("eval"))]),
        };
        let v = jobj(&[("ty", tix.to_string()), ("vis", js(&self.vis_str(did))), ("mem", body)]);
        self.statics.insert(key, v);
    }

    fn enqueue(&mut self, inst: Instance<'tcx>) -> String {
        if let Some(id) = self.seen.get(&inst) {
            return id.clone();
        }
        let id = self.inst_id(inst);
        self.seen.insert(inst, id.clone());
        self.queue.push_back(inst);
        id
    }

    fn inst_id(&self, inst: Instance<'tcx>) -> String {
        self.dpsa(inst.def_id(), inst.args)
    }

    fn file_index(&mut self, name: String) -> usize {
        if let Some(i) = self.file_ix.get(&name) {
            return *i;
        }
        let i = self.files.len();
        self.files.push(name.clone());
        self.file_ix.insert(name, i);
        i
    }

    fn span_loc(&mut self, sp: Span) -> (usize, usize) {
        if sp.is_dummy() {
            let i = self.file_index("<none>".to_string());
            return (i, 0);
        }
        let loc = self.tcx.sess.source_map().lookup_char_pos(sp.lo());
        let name = format!("{}", loc.file.name.prefer_local_unconditionally());
        let i = self.file_index(name);
        (i, loc.line)
    }

    // ------------------------------------------------------------ types

    fn ty(&mut self, t: Ty<'tcx>) -> usize {
        if let Some(i) = self.type_ix.get(&t) {
            return *i;
        }
        let i = self.types.len();
        self.types.push(String::new());
        self.type_ix.insert(t, i);
        let tcx = self.tcx;
        let s = self.tys(t);
        let j = match t.kind() {
            ty::Bool => jobj(&[("k", js("bool"))]),
            ty::Char => jobj(&[("k", js("char"))]),
            ty::Int(it) => {
                let w = it.bit_width().unwrap_or(64);
                jobj(&[("k", js("int")), ("w", w.to_string()), ("s", "true".into()), ("n", js(&s))])
            }
            ty::Uint(ut) => {
                let w = ut.bit_width().unwrap_or(64);
                jobj(&[("k", js("int")), ("w", w.to_string()), ("s", "false".into()), ("n", js(&s))])
            }
            ty::Adt(def, args) => {
                let key = self.adt(*def, args);
                let targs: Vec<String> =
                    args.types().map(|a| self.ty(a).to_string()).collect();
                jobj(&[
                    ("k", js("adt")),
                    ("path", js(&self.dps(def.did()))),
                    ("key", js(&key)),
                    ("targs", jarr(&targs)),
                    ("n", js(&s)),
                ])
            }
            ty::Ref(_, inner, m) => {
                let ii = self.ty(*inner);
                jobj(&[("k", js("ref")), ("mut", m.is_mut().to_string()), ("to", ii.to_string())])
            }
            ty::RawPtr(inner, m) => {
                let ii = self.ty(*inner);
                jobj(&[("k", js("ptr")), ("mut", m.is_mut().to_string()), ("to", ii.to_string())])
            }
            ty::Array(inner, len) => {
                let ii = self.ty(*inner);
                let n = len.try_to_target_usize(tcx).map(|x| x.to_string()).unwrap_or("null".into());
                jobj(&[("k", js("array")), ("of", ii.to_string()), ("len", n)])
            }
            ty::Slice(inner) => {
                let ii = self.ty(*inner);
                jobj(&[("k", js("slice")), ("of", ii.to_string())])
            }
            ty::Str => jobj(&[("k", js("str"))]),
            ty::Tuple(ts) => {
                let items: Vec<String> = ts.iter().map(|a| self.ty(a).to_string()).collect();
                // memory layout (field offsets, size), needed to decode constant tables of tuples
                let mut offsets = String::from("null");
                let mut size = String::from("null");
                if !t.has_non_region_param() && !t.has_escaping_bound_vars() {
                    if let Ok(l) = tcx.layout_of(self.env.as_query_input(t)) {
                        size = l.size.bytes().to_string();
                        let offs: Vec<String> =
                            (0..ts.len()).map(|i| l.fields.offset(i).bytes().to_string()).collect();
                        offsets = jarr(&offs);
                    }
                }
                jobj(&[("k", js("tuple")), ("of", jarr(&items)), ("offsets", offsets), ("size", size)])
            }
            ty::FnDef(did, args) => jobj(&[
                ("k", js("fndef")),
                ("path", js(&self.dpsa(*did, args))),
            ]),
            ty::FnPtr(..) => jobj(&[("k", js("fnptr")), ("n", js(&s))]),
            ty::Closure(did, _) => {
                jobj(&[("k", js("closure")), ("path", js(&self.dps(*did)))])
            }
            ty::Never => jobj(&[("k", js("never"))]),
            _ => jobj(&[("k", js("other")), ("n", js(&s))]),
        };
        self.types[i] = j;
        i
    }

    fn adt_generic(&mut self, did: DefId) {
        // generic ADT of a target crate: record variants/fields (names + visibility only)
        let tcx = self.tcx;
        let def = tcx.adt_def(did);
        let key = self.dps(did);
        if self.adts.contains_key(&key) {
            return;
        }
        let j = self.adt_json(def, None);
        self.adts.insert(key, j);
    }

    fn adt(&mut self, def: ty::AdtDef<'tcx>, args: GenericArgsRef<'tcx>) -> String {
        let key = self.dpsa(def.did(), args);
        if self.adts.contains_key(&key) {
            return key;
        }
        self.adts.insert(key.clone(), String::from("null"));
        let j = self.adt_json(def, Some(args));
        self.adts.insert(key.clone(), j);
        key
    }

    fn adt_json(&mut self, def: ty::AdtDef<'tcx>, args: Option<GenericArgsRef<'tcx>>) -> String {
        let tcx = self.tcx;
        let ours = self.is_ours(def.did());
        let path = self.dps(def.did());
        let want_field_types = ours
            || path == "std::option::Option"
            || path == "std::result::Result"
            || path == "core::option::Option"
            || path == "core::result::Result"
            || path.starts_with("std::ops::ControlFlow")
            || path.starts_with("core::ops::ControlFlow")
            || path.starts_with("std::ops::Range")
            || path.starts_with("core::ops::Range");
        let kind = if def.is_enum() {
            "enum"
        } else if def.is_union() {
            "union"
        } else {
            "struct"
        };
        let mut discrs: HashMap<usize, u128> = HashMap::new();
        if def.is_enum() {
            for (vi, d) in def.discriminants(tcx) {
                discrs.insert(vi.as_usize(), d.val);
            }
        }
        let mut variants = Vec::new();
        for (vi, v) in def.variants().iter_enumerated() {
            let mut fields = Vec::new();
            for f in v.fields.iter() {
                let fty = match (want_field_types, args) {
                    (true, Some(a)) => {
                        let t = f.ty(tcx, a);
                        let t = tcx.normalize_erasing_regions(self.env, ty::Unnormalized::new_wip(t));
                        self.ty(t).to_string()
                    }
                    _ => "null".to_string(),
                };
                fields.push(jobj(&[
                    ("name", js(f.name.as_str())),
                    ("vis", js(&self.vis_str(f.did))),
                    ("ty", fty),
                ]));
            }
            let d = discrs.get(&vi.as_usize()).map(|x| x.to_string()).unwrap_or("null".into());
            variants.push(jobj(&[
                ("name", js(v.name.as_str())),
                ("discr", d),
                ("fields", jarr(&fields)),
            ]));
        }
        let (file, line) = self.span_loc(tcx.def_span(def.did()));
        // memory layout (field offsets of structs / enum size), needed to decode constant tables
        let mut offsets = String::from("null");
        let mut size = String::from("null");
        if let (true, Some(a)) = (want_field_types, args) {
            let t = Ty::new_adt(tcx, def, a);
            if let Ok(l) = tcx.layout_of(self.env.as_query_input(t)) {
                size = l.size.bytes().to_string();
                if def.is_struct() {
                    let n = def.non_enum_variant().fields.len();
                    let offs: Vec<String> =
                        (0..n).map(|i| l.fields.offset(i).bytes().to_string()).collect();
                    offsets = jarr(&offs);
                }
            }
        }
        jobj(&[
            ("size", size),
            ("offsets", offsets),
            ("kind", js(kind)),
            ("path", js(&path)),
            ("krate", js(&self.crate_name(def.did()))),
            ("vis", js(&self.vis_str(def.did()))),
            ("file", file.to_string()),
            ("line", line.to_string()),
            ("variants", jarr(&variants)),
        ])
    }

    // ------------------------------------------------------------ constants

    fn alloc_body(&mut self, alloc: &rustc_middle::mir::interpret::Allocation) -> String {
        let n = alloc.len();
        let bytes = alloc.inspect_with_uninit_and_ptr_outside_interpreter(0..n).to_vec();
        let mut relocs = Vec::new();
        let ptrs: Vec<_> = alloc.provenance().ptrs().iter().map(|(o, p)| (*o, *p)).collect();
        for (off, prov) in ptrs {
            let o = off.bytes() as usize;
            let mut raw = [0u8; 8];
            raw.copy_from_slice(&bytes[o..o + 8]);
            let inner_off = u64::from_le_bytes(raw);
            let target = self.alloc_ref(prov.alloc_id(), inner_off);
            relocs.push(jarr(&[o.to_string(), target]));
        }
        jobj(&[("len", n.to_string()), ("bytes", hex(&bytes)), ("relocs", jarr(&relocs))])
    }

    fn alloc_ref(&mut self, id: AllocId, off: u64) -> String {
        let tcx = self.tcx;
        match tcx.global_alloc(id) {
            GlobalAlloc::Static(did) => {
                if self.is_ours(did) {
                    self.static_item(did);
                }
                jobj(&[("static", js(&self.dps(did))), ("off", off.to_string())])
            }
            GlobalAlloc::Memory(alloc) => {
                if self.alloc_seen.insert(id) {
                    let body = self.alloc_body(alloc.inner());
                    self.allocs.insert(id.0.get(), body);
                }
                jobj(&[("alloc", id.0.get().to_string()), ("off", off.to_string())])
            }
            GlobalAlloc::Function { instance } => {
                let c = self.callee_json(instance);
                jobj(&[("fnptr", c)])
            }
            other => jobj(&[("otheralloc", js(&format!("{:?}", other)))]),
        }
    }

    fn constval(&mut self, v: ConstValue, t: Ty<'tcx>) -> String {
        let tcx = self.tcx;
        match v {
            ConstValue::Scalar(Scalar::Int(i)) => {
                let size = i.size();
                let bits = i.to_bits(size);
                let signed = matches!(t.kind(), ty::Int(_));
                let mut items = vec![("bits", bits.to_string()), ("size", size.bytes().to_string())];
                if signed {
                    items.push(("int", i.to_int(size).to_string()));
                }
                jobj(&items)
            }
            ConstValue::Scalar(Scalar::Ptr(p, _)) => {
                let (prov, off) = p.prov_and_relative_offset();
                let r = self.alloc_ref(prov.alloc_id(), off.bytes());
                jobj(&[("ptr", r)])
            }
            ConstValue::ZeroSized => match t.kind() {
                ty::FnDef(did, args) => {
                    let c = match Instance::try_resolve(tcx, self.env, *did, args) {
                        Ok(Some(inst)) => self.callee_json(inst),
                        _ => jobj(&[("unresolved", js(&self.dpsa(*did, args)))]),
                    };
                    jobj(&[("fn", c)])
                }
                _ => jobj(&[("zst", "true".to_string())]),
            },
            ConstValue::Slice { alloc_id, meta } => {
                let alloc = tcx.global_alloc(alloc_id).unwrap_memory();
                let n = meta as usize;
                let elem_str = matches!(t.kind(), ty::Ref(_, inner, _) if inner.is_str());
                let total = alloc.inner().len();
                if elem_str || n <= total {
                    let take = n.min(total);
                    let bytes =
                        alloc.inner().inspect_with_uninit_and_ptr_outside_interpreter(0..take);
                    if elem_str {
                        jobj(&[("str", js(&String::from_utf8_lossy(bytes)))])
                    } else {
                        jobj(&[("slice", hex(bytes)), ("n", n.to_string())])
                    }
                } else {
                    let r = self.alloc_ref(alloc_id, 0);
                    jobj(&[("sliceptr", r), ("n", n.to_string())])
                }
            }
            ConstValue::Indirect { alloc_id, offset } => {
                let size = tcx
                    .layout_of(self.env.as_query_input(t))
                    .map(|l| l.size.bytes())
                    .unwrap_or(0);
                let r = self.alloc_ref(alloc_id, offset.bytes());
                jobj(&[("mem", r), ("size", size.to_string())])
            }
        }
    }

    fn konst(&mut self, c: &mir::ConstOperand<'tcx>) -> String {
        let tcx = self.tcx;
        let t = c.const_.ty();
        let tix = self.ty(t);
        let mut items: Vec<(&str, String)> = vec![("ty", tix.to_string())];
        if let Const::Unevaluated(u, _) = c.const_ {
            items.push(("name", js(&self.dps(u.def))));
            if let Some(p) = u.promoted {
                items.push(("promoted", p.as_usize().to_string()));
            }
        }
        match c.const_.eval(tcx, self.env, DUMMY_SP) {
            Ok(v) => items.push(("v", self.constval(v, t))),
            Err(_) => items.push(("v", jobj(&[("err", js("eval"))]))),
        }
        jobj(&items)
    }

    // ------------------------------------------------------------ callees

    fn callee_json(&mut self, inst: Instance<'tcx>) -> String {
        let tcx = self.tcx;
        let did = inst.def_id();
        let is_item = matches!(inst.def, InstanceKind::Item(_));
        if is_item && self.is_ours(did) && tcx.is_mir_available(did) {
            let id = self.enqueue(inst);
            return jobj(&[("inst", js(&id))]);
        }
        let path = self.dpsa(did, inst.args);
        let base = self.dps(did);
        *self.ext.entry(base.clone()).or_insert(0) += 1;
        // closures / fn items of ours hidden in the generic arguments
        let mut hidden = Vec::new();
        for ga in inst.args.iter() {
            if let Some(t) = ga.as_type() {
                for inner in t.walk() {
                    if let Some(it) = inner.as_type() {
                        match it.kind() {
                            ty::Closure(cd, cargs) if self.is_ours(*cd) => {
                                let ci = Instance::resolve_closure(
                                    tcx,
                                    *cd,
                                    cargs,
                                    cargs.as_closure().kind(),
                                );
                                let id = self.enqueue(ci);
                                hidden.push(js(&id));
                            }
                            ty::FnDef(fd, fargs) if self.is_ours(*fd) => {
                                if let Ok(Some(fi)) =
                                    Instance::try_resolve(tcx, self.env, *fd, fargs)
                                {
                                    if matches!(fi.def, InstanceKind::Item(_))
                                        && tcx.is_mir_available(fi.def_id())
                                    {
                                        let id = self.enqueue(fi);
                                        hidden.push(js(&id));
                                    }
                                }
                            }
                            _ => {}
                        }
                    }
                }
            }
        }
        if base.contains("fmt::rt::Argument") && (base.ends_with("new_display") || base.ends_with("new_debug")) {
            let which = if base.ends_with("new_display") { rustc_span::sym::Display } else { rustc_span::sym::Debug };
            if let (Some(tr), Some(t0)) =
                (tcx.get_diagnostic_item(which), inst.args.iter().find_map(|a| a.as_type()))
            {
                let is_local_ty = match t0.peel_refs().kind() {
                    ty::Adt(def, _) => self.is_ours(def.did()),
                    _ => false,
                };
                if is_local_ty {
                    if let Some(m) = tcx.associated_item_def_ids(tr).first().copied() {
                        let margs = tcx.mk_args(&[t0.into()]);
                        if let Ok(Some(fi)) = Instance::try_resolve(tcx, self.env, m, margs) {
                            if matches!(fi.def, InstanceKind::Item(_))
                                && self.is_ours(fi.def_id())
                                && tcx.is_mir_available(fi.def_id())
                            {
                                let id = self.enqueue(fi);
                                hidden.push(js(&id));
                            }
                        }
                    }
                }
            }
        }
        // blanket conversions of core: `<T as Into<U>>::into` is `<U as From<T>>::from`, same for TryInto;
        // the target impl lives in our crates and is only reachable through the blanket impl.
        let mut via = String::from("null");
        let conv = if base == "<T as core::convert::Into<U>>::into" {
            Some(rustc_span::sym::From)
        } else if base == "<T as core::convert::TryInto<U>>::try_into" {
            Some(rustc_span::sym::TryFrom)
        } else {
            None
        };
        if let Some(trsym) = conv {
            let tys: Vec<Ty<'tcx>> = inst.args.iter().filter_map(|a| a.as_type()).collect();
            if let (Some(tr), true) = (tcx.get_diagnostic_item(trsym), tys.len() == 2) {
                let m = tcx
                    .associated_item_def_ids(tr)
                    .iter()
                    .copied()
                    .find(|d| matches!(tcx.def_kind(*d), DefKind::AssocFn));
                if let Some(m) = m {
                    let margs = tcx.mk_args(&[tys[1].into(), tys[0].into()]);
                    if let Ok(Some(fi)) = Instance::try_resolve(tcx, self.env, m, margs) {
                        if matches!(fi.def, InstanceKind::Item(_))
                            && self.is_ours(fi.def_id())
                            && tcx.is_mir_available(fi.def_id())
                        {
                            let id = self.enqueue(fi);
                            via = js(&id);
                        }
                    }
                }
            }
        }
        let targs: Vec<String> = inst
            .args
            .iter()
            .filter_map(|a| a.as_type())
            .map(|t| self.ty(t).to_string())
            .collect();
        let kind = match inst.def {
            InstanceKind::Item(_) => "item".to_string(),
            InstanceKind::Intrinsic(_) => "intrinsic".to_string(),
            InstanceKind::Virtual(..) => "virtual".to_string(),
            other => format!("{:?}", other).split('(').next().unwrap_or("shim").to_string(),
        };
        jobj(&[
            ("ext", js(&path)),
            ("base", js(&base)),
            ("krate", js(&self.crate_name(did))),
            ("targs", jarr(&targs)),
            ("hidden", jarr(&hidden)),
            ("via", via),
            ("kind", js(&kind)),
        ])
    }

    // ------------------------------------------------------------ bodies

    fn process(&mut self, inst: Instance<'tcx>) {
        let tcx = self.tcx;
        let did = inst.def_id();
        let id = self.seen.get(&inst).cloned().unwrap();
        let body = tcx.instance_mir(inst.def);
        let body: Body<'tcx> = inst.instantiate_mir_and_normalize_erasing_regions(
            tcx,
            self.env,
            ty::EarlyBinder::bind(body.clone()),
        );
        let body_json = self.body_json(&body);
        // promoted constants of this function
        let mut promoted = Vec::new();
        if matches!(inst.def, InstanceKind::Item(_)) {
            let proms = tcx.promoted_mir(did);
            for p in proms.iter() {
                let pb: Body<'tcx> = inst.instantiate_mir_and_normalize_erasing_regions(
                    tcx,
                    self.env,
                    ty::EarlyBinder::bind(p.clone()),
                );
                promoted.push(self.body_json(&pb));
            }
        }
        let (file, line) = self.span_loc(tcx.def_span(did));
        let kind = tcx.def_kind(did);
        let (safety, vis) = match kind {
            DefKind::Fn | DefKind::AssocFn => (
                format!("{:?}", tcx.fn_sig(did).skip_binder().safety()),
                self.vis_str(did),
            ),
            _ => ("Safe".to_string(), "n/a".to_string()),
        };
        let targs: Vec<String> = inst
            .args
            .iter()
            .map(|a| js(&ty::print::with_no_visible_paths!(ty::print::with_no_trimmed_paths!(format!("{}", a)))))
            .collect();
        let j = jobj(&[
            ("def_path", js(&self.dps(did))),
            ("krate", js(&self.crate_name(did))),
            ("kind", js(&format!("{:?}", kind))),
            ("args", jarr(&targs)),
            ("file", file.to_string()),
            ("line", line.to_string()),
            ("safety", js(&safety)),
            ("vis", js(&vis)),
            ("body", body_json),
            ("promoted", jarr(&promoted)),
        ]);
        self.fns.push((id, j));
    }

    fn body_json(&mut self, body: &Body<'tcx>) -> String {
        let mut locals = Vec::new();
        for (_l, decl) in body.local_decls.iter_enumerated() {
            locals.push(self.ty(decl.ty).to_string());
        }
        let mut names = Vec::new();
        for vdi in body.var_debug_info.iter() {
            if let mir::VarDebugInfoContents::Place(p) = &vdi.value {
                let pj = self.place(body, p);
                names.push(jarr(&[js(vdi.name.as_str()), pj]));
            }
        }
        let mut blocks = Vec::new();
        for (_bb, data) in body.basic_blocks.iter_enumerated() {
            blocks.push(self.block(body, data));
        }
        jobj(&[
            ("argc", body.arg_count.to_string()),
            ("locals", jarr(&locals)),
            ("names", jarr(&names)),
            ("blocks", jarr(&blocks)),
        ])
    }

    fn place(&mut self, body: &Body<'tcx>, p: &Place<'tcx>) -> String {
        let tcx = self.tcx;
        let mut proj = Vec::new();
        for (base, elem) in p.iter_projections() {
            let bty = base.ty(body, tcx);
            let e = match elem {
                ProjectionElem::Deref => jarr(&[js("deref")]),
                ProjectionElem::Field(f, fty) => {
                    let name = match bty.ty.kind() {
                        ty::Adt(def, _) => {
                            let vi = bty.variant_index.unwrap_or(rustc_abi::FIRST_VARIANT);
                            def.variant(vi).fields[f].name.as_str().to_string()
                        }
                        _ => f.as_usize().to_string(),
                    };
                    let owner = match bty.ty.kind() {
                        ty::Adt(def, _) => self.dps(def.did()),
                        ty::Tuple(_) => "tuple".to_string(),
                        ty::Closure(..) => "closure".to_string(),
                        _ => "?".to_string(),
                    };
                    let ft = self.ty(fty);
                    jarr(&[
                        js("field"),
                        f.as_usize().to_string(),
                        js(&name),
                        js(&owner),
                        ft.to_string(),
                    ])
                }
                ProjectionElem::Index(l) => jarr(&[js("index"), l.as_usize().to_string()]),
                ProjectionElem::ConstantIndex { offset, min_length, from_end } => jarr(&[
                    js("cindex"),
                    offset.to_string(),
                    min_length.to_string(),
                    from_end.to_string(),
                ]),
                ProjectionElem::Subslice { from, to, from_end } => {
                    jarr(&[js("subslice"), from.to_string(), to.to_string(), from_end.to_string()])
                }
                ProjectionElem::Downcast(name, vi) => jarr(&[
                    js("downcast"),
                    vi.as_usize().to_string(),
                    js(&name.map(|s| s.as_str().to_string()).unwrap_or_default()),
                ]),
                other => jarr(&[js("other"), js(&format!("{:?}", other))]),
            };
            proj.push(e);
        }
        jobj(&[("l", p.local.as_usize().to_string()), ("p", jarr(&proj))])
    }

    fn operand(&mut self, body: &Body<'tcx>, o: &Operand<'tcx>) -> String {
        match o {
            Operand::Copy(p) => jobj(&[("c", self.place(body, p))]),
            Operand::Move(p) => jobj(&[("m", self.place(body, p))]),
            Operand::Constant(c) => jobj(&[("k", self.konst(c))]),
            other => {
                // RuntimeChecks(..): value depends on the session flags
                let s = format!("{:?}", other);
                let val = match other {
                    Operand::RuntimeChecks(rc) => rc.value(self.tcx.sess).to_string(),
                    _ => "null".to_string(),
                };
                jobj(&[("rt", js(&s)), ("val", val)])
            }
        }
    }

    fn rvalue(&mut self, body: &Body<'tcx>, rv: &Rvalue<'tcx>) -> String {
        let tcx = self.tcx;
        match rv {
            Rvalue::Use(o, ..) => jarr(&[js("use"), self.operand(body, o)]),
            Rvalue::Repeat(o, n) => {
                let n = n.try_to_target_usize(tcx).map(|x| x.to_string()).unwrap_or("null".into());
                jarr(&[js("repeat"), self.operand(body, o), n])
            }
            Rvalue::Ref(_, bk, p) => {
                let m = matches!(bk, mir::BorrowKind::Mut { .. });
                jarr(&[js("ref"), m.to_string(), self.place(body, p)])
            }
            Rvalue::RawPtr(k, p) => {
                jarr(&[js("rawptr"), js(&format!("{:?}", k)), self.place(body, p)])
            }
            Rvalue::Cast(kind, o, t) => {
                let ti = self.ty(*t);
                jarr(&[
                    js("cast"),
                    js(&format!("{:?}", kind)),
                    self.operand(body, o),
                    ti.to_string(),
                ])
            }
            Rvalue::BinaryOp(op, ab) => {
                let (a, b) = &**ab;
                jarr(&[
                    js("bin"),
                    js(&format!("{:?}", op)),
                    self.operand(body, a),
                    self.operand(body, b),
                ])
            }
            Rvalue::UnaryOp(op, a) => {
                jarr(&[js("un"), js(&format!("{:?}", op)), self.operand(body, a)])
            }
            Rvalue::Discriminant(p) => jarr(&[js("discr"), self.place(body, p)]),
            Rvalue::Aggregate(kind, ops) => {
                let k = match &**kind {
                    AggregateKind::Array(_) => jobj(&[("k", js("array"))]),
                    AggregateKind::Tuple => jobj(&[("k", js("tuple"))]),
                    AggregateKind::Adt(did, vi, _args, _, active) => {
                        let def = tcx.adt_def(*did);
                        let v = def.variant(*vi);
                        let fields: Vec<String> =
                            v.fields.iter().map(|f| js(f.name.as_str())).collect();
                        jobj(&[
                            ("k", js("adt")),
                            ("path", js(&self.dps(*did))),
                            ("variant", vi.as_usize().to_string()),
                            ("vname", js(v.name.as_str())),
                            ("fields", jarr(&fields)),
                            (
                                "active",
                                active.map(|f| f.as_usize().to_string()).unwrap_or("null".into()),
                            ),
                        ])
                    }
                    AggregateKind::Closure(did, _) => {
                        jobj(&[("k", js("closure")), ("path", js(&self.dps(*did)))])
                    }
                    AggregateKind::RawPtr(..) => jobj(&[("k", js("rawptr"))]),
                    other => jobj(&[("k", js("other")), ("n", js(&format!("{:?}", other)))]),
                };
                let ops: Vec<String> = ops.iter().map(|o| self.operand(body, o)).collect();
                jarr(&[js("agg"), k, jarr(&ops)])
            }
            Rvalue::CopyForDeref(p) => jarr(&[js("copyderef"), self.place(body, p)]),
            other => jarr(&[js("other"), js(&format!("{:?}", other))]),
        }
    }

    fn loc(&mut self, sp: Span) -> String {
        let (f, l) = self.span_loc(sp);
        let exp = sp.from_expansion();
        let (cf, cl) = if exp { self.span_loc(sp.source_callsite()) } else { (f, l) };
        jarr(&[f.to_string(), l.to_string(), exp.to_string(), cf.to_string(), cl.to_string()])
    }

    fn snippet(&self, sp: Span) -> String {
        self.tcx
            .sess
            .source_map()
            .span_to_snippet(sp)
            .map(|s| s.split_whitespace().collect::<Vec<_>>().join(" "))
            .unwrap_or_default()
    }

    fn block(&mut self, body: &Body<'tcx>, data: &BasicBlockData<'tcx>) -> String {
        let tcx = self.tcx;
        let mut stmts = Vec::new();
        for st in data.statements.iter() {
            let loc = self.loc(st.source_info.span);
            let j = match &st.kind {
                StatementKind::Assign(b) => {
                    let (p, rv) = &**b;
                    jarr(&[js("assign"), self.place(body, p), self.rvalue(body, rv), loc])
                }
                StatementKind::SetDiscriminant { place, variant_index } => jarr(&[
                    js("setdiscr"),
                    self.place(body, place),
                    variant_index.as_usize().to_string(),
                    loc,
                ]),
                StatementKind::Intrinsic(i) => jarr(&[js("intrinsic"), js(&format!("{:?}", i)), loc]),
                StatementKind::StorageLive(_)
                | StatementKind::StorageDead(_)
                | StatementKind::FakeRead(..)
                | StatementKind::PlaceMention(..)
                | StatementKind::AscribeUserType(..)
                | StatementKind::Coverage(..)
                | StatementKind::ConstEvalCounter
                | StatementKind::Nop
                | StatementKind::BackwardIncompatibleDropHint { .. } => continue,
                #[allow(unreachable_patterns)]
                other => jarr(&[js("otherstmt"), js(&format!("{:?}", other)), loc]),
            };
            stmts.push(j);
        }
        let term = data.terminator();
        let loc = self.loc(term.source_info.span);
        let unwind_json = |u: &UnwindAction| -> String {
            match u {
                UnwindAction::Cleanup(bb) => bb.as_usize().to_string(),
                _ => "null".to_string(),
            }
        };
        let t = match &term.kind {
            TerminatorKind::Goto { target } => {
                jobj(&[("k", js("goto")), ("t", target.as_usize().to_string())])
            }
            TerminatorKind::SwitchInt { discr, targets } => {
                let dty = discr.ty(body, tcx);
                let dti = self.ty(dty);
                let mut cases = Vec::new();
                for (v, bb) in targets.iter() {
                    cases.push(jarr(&[v.to_string(), bb.as_usize().to_string()]));
                }
                jobj(&[
                    ("k", js("switch")),
                    ("d", self.operand(body, discr)),
                    ("dty", dti.to_string()),
                    ("cases", jarr(&cases)),
                    ("else", targets.otherwise().as_usize().to_string()),
                ])
            }
            TerminatorKind::Return => jobj(&[("k", js("ret"))]),
            TerminatorKind::Unreachable => jobj(&[("k", js("unreachable"))]),
            TerminatorKind::UnwindResume => jobj(&[("k", js("resume"))]),
            TerminatorKind::UnwindTerminate(_) => jobj(&[("k", js("terminate"))]),
            TerminatorKind::Drop { place, target, unwind, .. } => jobj(&[
                ("k", js("drop")),
                ("p", self.place(body, place)),
                ("t", target.as_usize().to_string()),
                ("u", unwind_json(unwind)),
            ]),
            TerminatorKind::Call { func, args, destination, target, unwind, fn_span, .. } => {
                let fty = func.ty(body, tcx);
                let f = match fty.kind() {
                    ty::FnDef(did, gargs) => {
                        match Instance::try_resolve(tcx, self.env, *did, gargs) {
                            Ok(Some(inst)) => self.callee_json(inst),
                            _ => {
                                let p = self.dpsa(*did, gargs);
                                self.unresolved.push(p.clone());
                                jobj(&[("unresolved", js(&p))])
                            }
                        }
                    }
                    _ => jobj(&[("ind", self.operand(body, func))]),
                };
                let a: Vec<String> = args.iter().map(|x| self.operand(body, &x.node)).collect();
                jobj(&[
                    ("k", js("call")),
                    ("f", f),
                    ("args", jarr(&a)),
                    ("dest", self.place(body, destination)),
                    ("t", target.map(|b| b.as_usize().to_string()).unwrap_or("null".into())),
                    ("u", unwind_json(unwind)),
                    ("src", js(&self.snippet(*fn_span))),
                ])
            }
            TerminatorKind::Assert { cond, expected, msg, target, unwind } => {
                let m = match &**msg {
                    AssertKind::BoundsCheck { len, index } => jobj(&[
                        ("kind", js("bounds")),
                        ("len", self.operand(body, len)),
                        ("index", self.operand(body, index)),
                    ]),
                    AssertKind::Overflow(op, a, b) => jobj(&[
                        ("kind", js("overflow")),
                        ("op", js(&format!("{:?}", op))),
                        ("a", self.operand(body, a)),
                        ("b", self.operand(body, b)),
                    ]),
                    AssertKind::OverflowNeg(a) => {
                        jobj(&[("kind", js("overflow_neg")), ("a", self.operand(body, a))])
                    }
                    AssertKind::DivisionByZero(a) => {
                        jobj(&[("kind", js("div_zero")), ("a", self.operand(body, a))])
                    }
                    AssertKind::RemainderByZero(a) => {
                        jobj(&[("kind", js("rem_zero")), ("a", self.operand(body, a))])
                    }
                    AssertKind::MisalignedPointerDereference { .. } => {
                        jobj(&[("kind", js("misaligned"))])
                    }
                    AssertKind::NullPointerDereference => jobj(&[("kind", js("nullptr"))]),
                    other => jobj(&[("kind", js("other")), ("n", js(&format!("{:?}", other)))]),
                };
                jobj(&[
                    ("k", js("assert")),
                    ("c", self.operand(body, cond)),
                    ("exp", expected.to_string()),
                    ("msg", m),
                    ("t", target.as_usize().to_string()),
                    ("u", unwind_json(unwind)),
                    ("src", js(&self.snippet(term.source_info.span))),
                ])
            }
            TerminatorKind::FalseEdge { real_target, .. } => {
                jobj(&[("k", js("goto")), ("t", real_target.as_usize().to_string())])
            }
            TerminatorKind::FalseUnwind { real_target, .. } => {
                jobj(&[("k", js("goto")), ("t", real_target.as_usize().to_string())])
            }
            other => jobj(&[("k", js("other")), ("n", js(&format!("{:?}", other)))]),
        };
        jobj(&[
            ("cleanup", data.is_cleanup.to_string()),
            ("stmts", jarr(&stmts)),
            ("term", t),
            ("loc", loc),
        ])
    }

    fn finish(self) -> String {
        let mut o = String::new();
        o.push_str("{\n");
        let _ = writeln!(
            o,
            "\"meta\": {},",
            jobj(&[
                ("roots", js(&self.roots_crate)),
                ("crates", jarr(&self.crates.iter().map(|c| js(c)).collect::<Vec<_>>())),
                ("debug_assertions", self.tcx.sess.opts.debug_assertions.to_string()),
                ("overflow_checks", self.tcx.sess.overflow_checks().to_string()),
                ("ub_checks", self.tcx.sess.ub_checks().to_string()),
                ("instances", self.fns.len().to_string()),
                (
                    "unresolved",
                    jarr(&self.unresolved.iter().map(|c| js(c)).collect::<Vec<_>>())
                ),
            ])
        );
        let _ = writeln!(
            o,
            "\"files\": {},",
            jarr(&self.files.iter().map(|c| js(c)).collect::<Vec<_>>())
        );
        o.push_str("\"types\": [\n");
        for (i, t) in self.types.iter().enumerate() {
            if i > 0 {
                o.push_str(",\n");
            }
            o.push_str(t);
        }
        o.push_str("\n],\n");
        let dump_map = |o: &mut String, name: &str, m: &BTreeMap<String, String>, last: bool| {
            let _ = writeln!(o, "{}: {{", js(name));
            let mut first = true;
            for (k, v) in m.iter() {
                if !first {
                    o.push_str(",\n");
                }
                first = false;
                o.push_str(&js(k));
                o.push(':');
                o.push_str(v);
            }
            o.push_str(if last { "\n}\n" } else { "\n},\n" });
        };
        dump_map(&mut o, "adts", &self.adts, false);
        dump_map(&mut o, "sigs", &self.sigs, false);
        dump_map(&mut o, "consts", &self.consts, false);
        dump_map(&mut o, "statics", &self.statics, false);
        let allocs: BTreeMap<String, String> =
            self.allocs.iter().map(|(k, v)| (k.to_string(), v.clone())).collect();
        dump_map(&mut o, "allocs", &allocs, false);
        let ext: BTreeMap<String, String> =
            self.ext.iter().map(|(k, v)| (k.clone(), v.to_string())).collect();
        dump_map(&mut o, "ext", &ext, false);
        o.push_str("\"fns\": {\n");
        let mut first = true;
        for (id, j) in self.fns.iter() {
            if !first {
                o.push_str(",\n");
            }
            first = false;
            o.push_str(&js(id));
            o.push(':');
            o.push_str(j);
        }
        o.push_str("\n}\n}\n");
        o
    }
}
