#!/usr/bin/env python3
"""Generate MANIFEST.json from the per-property metadata below (single source of truth)."""
import json, os
V = os.path.dirname(os.path.dirname(os.path.abspath(__file__)))

TB = ("Trusted base: rustc 1.97-nightly front end / MIR construction / const evaluator (the shipped code is built by "
      "stable 1.95 from the same source), the owlscan driver's serialisation, the Python rule engine and reference "
      "geometry, the reviewed tables under /verif/tables. ")

CHECKS = {
 "C15": dict(cat="proof", ref="DESIGN.md §3 C15",
   technique="exhaustive comparison of compiler-evaluated constant tables with reference geometry + structural match of reader MIR",
   text="Decided in full by static analysis: every attack/between table of the build under test is read from the compiler's "
        "constant evaluator and compared entry by entry with an independent reference (all 64 squares, all subsets of every "
        "magic mask, all 64x64 pairs); a geometry lemma (checked) lifts the subset check to all 2^64 occupancies; the five-line "
        "readers are matched structurally against the very formula the data is checked with; every *_strict call site is shown "
        "to be on an aligned pair. Finite data + straight-line readers: exhaustive enumeration is a proof here.",
   note=TB + "Reviewed: the three call-site patterns of rule B (pinned / guarded / well-formed move)."),
 "C03": dict(cat="other", ref="DESIGN.md §3 C03",
   technique="abstract interpretation of do_make_move effect trees on a symbolic board, compared with the rules' effect table; constant tabulation of castling helpers",
   text="Static: for both colours x 10 move kinds x every sub-case the rules distinguish, the constant-folded effect tree of do_make_move is "
        "interpreted on an abstract board (symbolic squares/cells) and must end in exactly the squares, side, en-passant mark, counters "
        "and castling-rights update the rules prescribe, with saturating counters only; update_castling and the castling constants are "
        "decoded against the home squares. Decides the per-step data movement for all inputs of each abstract case; it does not decide "
        "that every concrete semilegal move falls into its case's pre-state (that is C06/C02's semilegality invariant). ADDED: "
        "update_castling is tabulated - its model evaluated on all 4,096 (side to move, rights value, set of changed home squares +/- an "
        "unrelated square) points removes exactly the rights whose king or rook home square changed, whatever the shape of its guards. ADDED 2: the "
        "incremental hash-and-sets component is re-run here (A5h/A5o): the position a move produces includes the stored hash and the "
        "occupancy sets the generators and attack queries read.",
   note=TB + "Assumes the pre-state of each abstract case (source holds mv.src_cell, castling squares hold king/rook/empty, en-passant victim behind dst)."),
 "C04": dict(cat="other", ref="DESIGN.md §3 C04",
   technique="abstract interpretation of do_unmake_move on the abstract post-state; memory-version check of the undo record; path rules on Make impls; null-move corner cases",
   text="Static: the RawUndo aggregate is built only from memory-version-0 reads (before any store) for every kind; do_unmake_move "
        "interpreted on the abstract post-state of each kind/case restores every touched square, every set membership, `all` and all "
        "scalar fields from the undo record; dispatch colour mapping; every error path of every Make::make_raw leaves the board untouched "
        "or rolls back with the same move and undo. Per-step exactness for all inputs of each abstract case; nesting follows by induction. ADDED: the null move is run with a8 empty / own / enemy, since Move::NULL names a8 as both squares. ADDED: the library's own users of undo are re-checked here (component): pop un-counts, clears the outcome and unmakes with the popped pair; the walker's loops exit only at the target index and next/prev synchronise the board to the index of the move they return.",
   note=TB + "Same abstract-case assumptions as C03."),
 "C05": dict(cat="other", ref="DESIGN.md §3 C05",
   technique="symbolic XOR-multiset comparison of hash updates with zobrist(post)^zobrist(pre); occupancy membership simulation; exhaustive key-table algebra",
   text="Static: per make arm the multiset (mod 2) of keys XOR-ed into the hash equals the key difference of the squares/side/en-passant/"
        "castling the rules change (castling deltas numerically against the build's tables), no stale read-modify-write, occupancy sets "
        "follow the cells in make and unmake, `all` recomputed last; key tables: PIECES[EMPTY]=0, CASTLING xor-linear, distinctness of all "
        "single-feature keys (exhaustive); writers of Board's cached fields confined to two modules; validation hashes the normalised raw "
        "board. Equality along histories follows by induction from the per-step result and C04; not claimed beyond that.",
   note=TB + "Same abstract-case assumptions as C03; hash collisions between different positions are inherent and out of scope."),
 "C13": dict(cat="other", ref="DESIGN.md §3 C13",
   technique="path rules over effect trees of push/pop for every instantiation; field-writer ownership; structural equality rule",
   text="Static: for every instantiated push<M> each path is classified: the accepted path records exactly the (move, undo) pair make_raw "
        "returned plus one repetition entry, every refused path records nothing; pop's Some-path pops, un-counts, clears the outcome and "
        "unmakes the live board with the popped pair in that order, its None-path mutates nothing; each chain field has a frozen set of "
        "writers; equality reads start, length, every move, outcome. Decides the recording discipline on all paths; 'current position = "
        "replay' then follows from C03/C04 and is not established separately. ADDED: the undo that pop and a refused push rely on is exact - do_unmake_move interpreted on the abstract post-state of every kind and colour restores squares, every occupancy set and all scalar fields (rule shared with C04), so the live board equals the replay also in the sets Board's == does not compare. ADDED 2: the undo record itself is re-checked here (H7k/H7u): the hash comes back from the record, so it must hold the value read before the move touched it.",
   note=TB + "Make::make_raw implementations are treated as opaque here (their own discipline is C02/C04)."),
 "C14": dict(cat="other", ref="DESIGN.md §3 C14",
   technique="exhaustive tabulation of Outcome::passes/is_force by constant folding; abstract-input path classification of calc_outcome; key-table distinctness",
   text="Static: passes/is_force are tabulated over all 22 outcomes x 3 filters by constant folding of their MIR and compared with the "
        "statement's table (exhaustive); chain calc_outcome is classified on every abstract input (board outcome none/strict/non-strict x "
        "0..7 occurrences): exactly one path applies and returns what the precedence prescribes; set_auto_outcome stores iff "
        "passes(filter); repetition table keyed by the Zobrist hash only with +1/-1 discipline. Occurrence counting over histories is not "
        "decided (depends on C05 and inherent hash collisions). ADDED: the key the repetition table counts by distinguishes single-feature differences (the build's key tables are non-zero and distinct, incl. the 16 en-passant squares). ADDED 2: the incremental-hash component (hash delta of every make arm = zobrist(post)^zobrist(pre); sets follow squares) is re-run here: repetitions are counted by that hash.",
   note=TB + "Board::calc_outcome is opaque here (C07)."),
 "C01": dict(cat="other", ref="DESIGN.md §3 C01",
   technique="path rules and term-set normal forms over the legality filter (pre-filter, Checker::is_legal, attack test, wrappers); per-site set-algebra evaluation of the generator against a reference predicate",
   text="Static, necessary conditions only: the legal generators are the semilegal ones retained by the un-negated legality checker; the "
        "pin pre-filter may answer Some(true) only when not in check, mover unpinned/non-king and not en passant, and never decides on "
        "another path; Checker::is_legal evaluates the five-term reference attack test on the post-move occupancy with every captured man "
        "masked out, for the king-move, en-passant and general paths; Move::validate is semi_validate plus the same checker. This decides "
        "the structure of the legality filter and the agreement of the three legality routes, and, ADDED: the semilegal generator is read as set algebra over the bitboards it iterates (rules/emitrules.py) and must emit S->D of each (kind, piece) exactly when the reference rules allow it, for all 64x64 pairs on abstract boards, both colours (sliding lookups as proved in C15; castling by the condition-set rule) - with the filter rules this ties legal generation to the rules; the legality checker's set arguments are compared as boolean functions. ADDED 3: the attack-query component (tables = geometric definition, magic subsets exact, five-term reduction of is_attacked) is re-run here, since the legality filter's test rests on it.",
   note=TB + "Tied to the single-blocker pin architecture of legal.rs: a different legality design needs new rules (stated in DESIGN.md)."),
 "C07": dict(cat="other", ref="DESIGN.md §3 C07",
   technique="decision-tree extraction and exhaustive evaluation on abstract inputs; emitter-set comparison over the resolved call graph",
   text="Static: calc_outcome is evaluated on every abstract input (moves x check x insufficient x 10 clock values x side) and must return "
        "the statement's outcome with its precedence; is_insufficient_material is compared with the statement on all 729 abstract material "
        "configurations after recognising its six predicates; has_legal_moves must reach exactly the emitters of the full generator "
        "minus castling and stop at the first legal move. Does not decide that the move set or occupancy sets are right (C01/C05/C06). ADDED: the legality-filter component (pin shortcut, pinned set, after-move test) and the attack-query component are re-run here: mate/stalemate rest on has_legal_moves and is_check.",
   note=TB + "Assumes: if castling is legal the king's single step is legal too (chess argument)."),
 "C16": dict(cat="other", ref="DESIGN.md §3 C16",
   technique="term-set normal form of the three sibling attack tests compared with the reference union of reverse lookups; table comparison; exhaustive magic-table comparison",
   text="Static: do_is_cell_attacked, do_cell_attackers (both colours) and Checker::is_attacked (both attacker colours) are reduced to "
        "sets of AND-ed factors and must equal the five reference terms (piece set x attack set, pawn table colour inverted, sliders with "
        "matching geometry), boolean forms true iff a term is non-empty; near-attack tables equal geometry; dispatch and check queries use "
        "the right king and attacker colour. With C15 this is the whole structural content; the reverse-lookup lemma itself is assumed. ADDED: the magic lookups the queries use are exact on every subset of every mask (C15's T2/T3 re-run). ADDED: pinned() is tabulated - its model evaluated on 1,700 boards of a structured family (single pins, shields, wrong geometry, simultaneous pins) returns exactly the own men alone between the king and a slider of the line's geometry. ADDED 2: the incremental hash-and-sets component is re-run here (Q6h/Q6o): the queries read the occupancy sets, so the sets must follow the squares in every make and unmake arm.",
   note=TB + "Reverse-lookup lemma of chess geometry assumed; occupancy sets assumed consistent (C05)."),
 "C06": dict(cat="other", ref="DESIGN.md §3 C06",
   technique="exhaustive tabulation of is_well_formed by constant propagation over 10x13x64x64 tuples; emitter-set and condition-set comparison of generator vs validator; abstract-board tabulation of the validator; per-site set-algebra evaluation of the generator",
   text="Static: Move::is_well_formed is folded per (kind, cell) and its residual tree evaluated on all 4096 (src,dst) pairs: it must equal "
        "the geometric-possibility predicate written from the rules (532,480 tuples, exhaustive); each generator family reaches exactly "
        "the emitters of its documented class and the classes partition; all add_move sites pass matches_piece-accepted constants; castling "
        "conditions of generator and validator are the same four; Move is constructible only through gated constructors. ADDED: the semilegal generator is read as set algebra over the bitboards it iterates (rules/emitrules.py) and must emit S->D of each (kind, piece) exactly when the reference rules allow it, for all 64x64 pairs on abstract boards, both colours (sliding lookups as proved in C15; castling by the condition-set rule); the validator do_is_move_semilegal is evaluated on abstract boards for every well-formed tuple and must accept exactly under the chess conditions. Generator, validator and well-formedness are thereby each compared with one reference. ADDED 2: the attack-query component is re-run here (castling is semilegal only over unattacked squares: generator and validator both ask do_is_cell_attacked, which is decided as the five-term reduction over exact tables, attack::pawn/king/knight evaluated on every argument).",
   note=TB + "matches_piece/from_castling/allowed_mask are tabulated by constant folding."),
 "C11": dict(cat="other", ref="DESIGN.md §3 C11",
   technique="abstract-point evaluation of the validation decision tree (972 points); condition-set extraction for the normalising writes",
   text="Static: TryFrom<RawBoard> is evaluated on every combination of the abstract validity inputs (en-passant mark/rank, men per side "
        "around 16, kings per side 0/1/2, back-rank pawn, opponent king attacked): it returns Ok exactly when no condition is violated and "
        "every reported reason holds; the only fields it rewrites are ep_source and castling, under exactly the documented eight castling "
        "conditions and the two en-passant conditions; the occupancy loop is wired colour->set, cell->pieces; the hash is the from-scratch "
        "hash of the normalised board. The loop's arithmetic and idempotence are not evaluated separately. ADDED: the attack-query component is re-run here (OpponentKingAttacked is do_is_cell_attacked on the opponent king).",
   note=TB + "count_ones(white/black/kings) are abstract inputs; their relation to the cells is the wiring rule V3."),
 "C02": dict(cat="other", ref="DESIGN.md §3 C02",
   technique="path classification of every Make::make_raw (certification of the unchecked make, rollback), certified-producer rule, writer ownership, abstract-board make rules; abstract interpretation for panic freedom; validator tabulation; compile-fail witnesses",
   text="Static: on every path of every Make implementation an Ok result has exactly one unchecked make of a certified move (semilegal on "
        "that board + king test, or Ok payload of a legal producer, or unsafe constructor contract) and returns that move with its undo; "
        "every Err path left the board untouched or rolled back with the same pair; SAN conversion returns only validated or "
        "LegalFilter-searched moves; Board fields have two owning modules and unsafe API stays unsafe; the made position is per abstract "
        "case what the rules prescribe with rights re-examined (shared with C03). Validity of the result then rests on C01/C03; panic "
        "freedom of the parsers is C12. ADDED: the safe make API reaches no assertion, panic or unsafe precondition (abstract interpreter, 13 roots); the semilegality validator and the legality checker are exact on abstract boards / as boolean set functions; compile-fail witnesses for the unsafe constructors and the private raw board. ADDED 2: the rollback of a refused move is exact (do_unmake_move on the abstract post-state of every kind restores squares, occupancy sets and scalars: shared with C04/K2).",
   note=TB + "The validity of resulting positions is not proved independently of C01/C03/C05."),
 "C08": dict(cat="other", ref="DESIGN.md §3 C08 / §9.8",
   technique="explicit-state exploration of the transition systems extracted from the effect trees of format_cells and parse_cells (all inputs at every step, states merged) against reference writer/reader automata; exhaustive abstract evaluation of the field-level writer and reader models over the finite field domain; tabulated letter tables",
   text="Static: format_cells is bisimilar to the reference FEN piece-placement writer (squares a8..h1 each once, empty runs as digits 1-8 "
        "flushed before a piece and at the rank end, '/' between ranks, letters by Cell::as_char) and parse_cells to the reference reader "
        "(all reachable file/rank/position states x all 256 bytes and end of text); the two references are inverse on every rank pattern; "
        "for both sides x 16 castling-rights values x 9 en-passant marks the model of Display for RawBoard writes the six fields in order "
        "with the letters the rules give them and the model of FromStr reads the same values back; Board's text is its raw board's and "
        "Board::from_str validates RawBoard::from_str's result. Trusted: u16 formatting/parsing and str::split. Not decided: stability of "
        "parse-format-parse on accepted texts Display never writes, agreement with a reader other than the transcribed FEN grammar.",
   note=TB + "The models are the effect trees of the instantiated MIR; nothing of the library is executed."),
 "C09": dict(cat="other", ref="DESIGN.md §3 C09",
   technique="path rules on SAN conversion (validated or filter-searched results only); exhaustive tabulation of searcher/detector tables; data-provenance rule on constructed moves; exhaustive abstract evaluation of the Display/FromStr models over the finite SAN value domain",
   text="Static: parse soundness - san::Data::into_move returns Ok(mv) only after mv.validate(b) or from a searcher fed once by the "
        "legality-filtered candidate generators; hints honoured (mask for all 81 hint combinations, source filter, Empty/Found/Ambiguity); "
        "formatting tables - minimal disambiguation over the 8 flag combinations, flags only from other legal candidates of the same piece "
        "and destination, '+'/'#' from the successor position, capture flag. Text-level round trip and 'standard notation' are not decided. ADDED: a move that into_move constructs itself takes its squares from the text only, and Simple/PawnCaptureShort always go through the hint-honouring searcher. ADDED 2: the text level is tabulated - the model of Display for san::Move writes standard algebraic notation for castling, pawn moves/captures with promotions and piece moves with all 81 hint combinations x capture x check marks, and the model of FromStr reads each text back as the same value (rules/machine.py); the '#' mark's has_legal_moves runs every emitter but castling (C07/O3 re-run).",
   note=TB + "Letter tables are checked under C12 (alphabets)."),
 "C10": dict(cat="other", ref="DESIGN.md §3 C10",
   technique="exhaustive tabulation of UCI kind inference by constant propagation with a symbolic board-memory oracle; conversion tables; path rules on the readers; well-formedness and validator tabulations shared with C06",
   text="Static: uci::Move::into_move is folded per promotion value and its residual tree evaluated over source cell x 64x64 squares x "
        "destination empty/occupied x en-passant mark, and must agree - modulo tuples no reader can accept - with the UCI semantics "
        "(double step, en passant, castling, promotion, simple); kind/promotion/piece conversions and the n/b/r/q letter tables are "
        "mutually inverse; the semilegal/legal readers return Ok only after semi_validate/validate of the converted text on that board; "
        "Null is never semilegal. 'Succeeds exactly when such a move exists' additionally needs C06/C01 and is not decided here. ADDED: the two gates every reader relies on are re-checked here: Move::is_well_formed on all 532,480 tuples and the semilegality validator on abstract boards. ADDED 2: the text level is tabulated - the model of Display for uci::Move writes exactly the coordinate notation for every value (thorough: all 20,481) and the model of FromStr reads it back; near-miss texts are refused without a panic; the legal reader's last gate (Checker::is_legal: king examined on the occupancy after the move, capturing man on its destination) is re-checked (C01/N2, N4).",
   note=TB + "quick tier tabulates 6 representative source cells and 3 promotion values per colour, thorough all 13 x 5."),
 "C17": dict(cat="other", ref="DESIGN.md §3 C17",
   technique="loop-structure and index-discipline rules on the walker's effect trees; exhaustive GameStatus table; type facts; path classification of the list printer with decoded format templates; compile-fail witness",
   text="Static: set_board_pos has a backward and a forward loop whose guards compare board_pos with the target (it can only exit with "
        "equality), unmake after decrement / make before increment on stack[board_pos]; next/prev update pos, synchronise the board to "
        "exactly the index of the move they return and hand out the walker's own board; the walker holds a shared slice and an owned "
        "board; GameStatus::from tabulated on all 23 inputs; list separator and from_uci_list structure. The shown positions then follow "
        "from C03/C04; the text of a styled move itself is C09's. ADDED: StyledList::fmt is classified path by path: only walker moves in the requested style, numbers ('N. '/'N... ' first, ' N.' before later White moves, value = board number - first + start) and the final status are printed, with format templates decoded from the compiled constants; a compile-fail witness shows the chain cannot be mutated while a walker borrows it. ADDED 2: the undo component (undo record read before any store; unmake restores squares, sets and scalars for every kind) is re-run here: stepping back unmakes on the walker's board; the UCI list separator is decided by evaluating the model of Display for chains of 0-3 moves. ADDED 3: the UCI-reader component (kind inference tabulated with en-passant marks next to the source and behind the destination, conversion tables, text round trip of every uci::Move) is re-run here: the chain's UCI text is replayed through make::Uci.",
   note=TB + "The E0502 borrow witness runs in the quick tier as well."),
 "C18": dict(cat="other", ref="DESIGN.md §3 C18",
   technique="compile-time witnesses, table and tabulated-function mirror checks, dispatcher pairing, colour-branch inventory, index-function consistency lint; generator/validator comparison with a symmetric reference",
   text="Static, premises only: Black's geometry constants are mirrors of White's and anchored to the rules (CTFE witness); pawn attack "
        "tables are rank mirrors and all near tables file-symmetric; pawns::advance_* tabulated mirror-consistent; every colour dispatcher "
        "pairs colours with matching instances; every run-time colour branch in position logic is a checked pair or reviewed; DIAG/ANTIDIAG "
        "are indexed by their own numbering function. Symmetry of outcomes is not decided beyond C07's rules. ADDED: generator and validator of both colour instances equal one reference that is symmetric under both mirrors (rules shared with C06), which decides the symmetry of semilegal move sets; outcomes and legal filtering are symmetric as far as C01/C07's rules go. ADDED 2: the legality filter over the semilegal moves is the symmetric reference too (pinned set by the set formula over all pinners, pin shortcut, after-move king test: C01/N2-N4 re-run). ADDED 3: calc_outcome and is_insufficient_material are re-checked here (Y8o/Y8 = C07/O1, O2): both mirrors exchange the square colours, so the material rule must treat them alike.",
   note=TB + "Reviewed list of 19 colour-branching functions in rules/symrules.py, one reason each."),
 "C20": dict(cat="other", ref="DESIGN.md §3 C20",
   technique="compile-time witness crate (rustc const evaluation, exhaustive loops) + constant-folding tabulation of char tables, operators, Coord::shift; abstract interpretation for totality; compile-fail witnesses",
   text="Static: everything const-evaluable is asserted exhaustively by rustc's own constant evaluator (index round trips, square/file/"
        "rank/flip/diagonal arithmetic, named constant sets on all 64 squares, cell/colour/castling-rights algebra, bitboard set operations "
        "on all one- and two-square sets); from_char accepts exactly the documented spellings on 0x300 code points and inverts as_char; "
        "operators are the u64 primitive; Coord::shift tabulated on 23,104 points. String-level round trips, deposit_bits and iteration "
        "order are not decided (they need evaluation over 64-bit data). ADDED: bitboard operations are total (abstract interpreter, 10 roots: no overflow/shift/bounds assertion reachable); checked constructors reject out-of-range indices already in const evaluation (compile-fail witnesses). ADDED 2: string level - Display/FromStr models of Coord, Cell, Color, CastlingRights evaluated on every value (written in the documented spelling, read back as itself), near-miss texts refused, and CastlingRights::from_str swept over all 1,554 texts of 1-4 characters over {K,Q,k,q,-,x}.",
   note=TB + "The witness crate is type-checked by stable cargo against /repo's chess_base."),
 "C12": dict(cat="other", ref="DESIGN.md §3 C12",
   technique="abstract interpretation of instantiated MIR (intervals, slice-length/ASCII/UTF-8 object facts, may-be-set bits, checked loop "
             "invariants; modular with demand-driven inlining): reachability of every assert/panic/std-partial call from the parser entry points",
   text="Static: for the 22 parsing entry points (FromStr for RawBoard, Board, Coord, Cell, Color, CastlingRights, uci::Move, san::Data, "
        "san::Move; Move::from_uci*/from_san; MoveChain::push_uci_list/from_uci_list/from_fen; make::Uci/San) every assert terminator, panic "
        "call, std call with a documented panic (slicing, split_at, unwrap, index) and unsafe precondition in the 240 reachable functions is "
        "shown unreachable for all strings; a new std callee must be classified before the check passes. The round-trip clause is not "
        "decided here; position-dependent stages use the stated validity assumptions (A-KING, A-UNFINISHED). ADDED: the second clause (a returned value, formatted, parses back to itself) is decided as value -> text -> value over every value: uci::Move, san::Move (all variants the parser can return), Coord/Cell/Color/CastlingRights through the evaluated Display/FromStr models, FEN through the field tabulation and the writer/reader automata (rules shared with C08/C09/C10/C20).",
   note=TB + "Std functions are assumed to behave as documented (model table in rules/absint.py)."),
 "C19": dict(cat="other", ref="DESIGN.md §3 C19",
   technique="abstract interpretation of instantiated MIR in checked and optimised configurations: every unsafe operation is an obligation "
             "(index < table length, constructor argument inside the type's range, unreachable_unchecked unreachable); type invariants assumed "
             "at reads and proved at constructions and stores; capacity/ownership/visibility rules; C15's magic-offset proof rules re-run",
   text="Static: all get_unchecked(_mut) indices, unchecked Coord/Cell/CastlingRights/File/Rank/Piece constructions, add_unchecked results, "
        "constructed moves (per kind), en-passant stores and Board/RawUndo constructions are shown in range for every function of the "
        "library (1038 instances, 595 safe entry points), pointer arithmetic exists only in the magic lookups (offset bound re-proved), the "
        "unchecked move list has capacity 256, is created only by the five semilegal generators and is the only unchecked pusher. That no "
        "valid position has more than 256 semilegal moves (A256) is not decided - it is a counting statement over all positions.",
   note=TB + "Assumes A256 and the std contracts of get_unchecked/ptr::add/ArrayVec."),
}

NOT_YET = {}
NA = {}

def main():
    props = [json.loads(l) for l in open(os.path.join(V, "properties.jsonl"))]
    checks = []
    na = []
    for p in props:
        pid = p["id"]
        if pid in CHECKS:
            c = CHECKS[pid]
            checks.append({
                "property_id": pid,
                "quick_cmd": "bin/check %s --tier quick" % pid,
                "thorough_cmd": "bin/check %s --tier thorough" % pid,
                "evidence_file": "evidence/%s.json" % pid,
                "replay_cmd_template": "bin/check %s --explain {path}" % pid,
                "engine": "owlscan+rules",
                "level_claimed": {"category": c["cat"], "text": c["text"], "design_ref": c["ref"]},
                "level_note": c["note"],
                "technique": c["technique"],
            })
        elif pid in NA:
            na.append({"property_id": pid, "reason": NA[pid]})
        else:
            na.append({"property_id": pid, "reason": "check not yet built in this revision of /verif (planned: DESIGN.md §3); "
                                                     "not claimed until its rules exist"})
    man = {
        "version": 1,
        "setup_cmd": "bin/setup",
        "hooks": {
            "guard": "none",
            "enable": "no hooks: the owlscan driver reads private items directly from the compiler; /repo is built unmodified",
            "baseline_off_cmd": "cd /repo && cargo test --workspace --no-fail-fast --offline",
            "source_commits": [],
            "add_only": True,
        },
        "engines": [
            {"name": "owlscan", "path": "owlscan/", "kind_free_text": "rustc_private driver (RUSTC_WRAPPER): instantiated MIR, "
             "evaluated constants/tables, ADT and signature facts as JSON", "serves_properties": sorted(CHECKS)},
            {"name": "rules", "path": "rules/", "kind_free_text": "pure-stdlib Python static-analysis rules over the fact file: "
             "CFG/dominators, def-use expression reconstruction, abstract interpretation, table comparison",
             "serves_properties": sorted(CHECKS)},
        ],
        "checks": checks,
        "not_applicable": na,
        "notes": "Technique family: static analysis only. Every check re-derives its facts from /repo's current working tree "
                 "(content-hashed cache under .cache/). Genuine defects found were repaired by five `fix:` commits in /repo, "
                 "listed in known_findings.json as fixed.",
    }
    with open(os.path.join(V, "MANIFEST.json"), "w") as f:
        json.dump(man, f, indent=1)
        f.write("\n")
    print("wrote MANIFEST.json: %d checks, %d not_applicable" % (len(checks), len(na)))

if __name__ == "__main__":
    main()
