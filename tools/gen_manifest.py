#!/usr/bin/env python3
"""Generate MANIFEST.json from the per-property metadata below (single source of truth)."""
import json, os
V = os.path.dirname(os.path.dirname(os.path.abspath(__file__)))

TB = ("Trusted base: rustc 1.97-nightly front end / MIR construction / const evaluator (the shipped code is built by "
      "stable 1.95 from the same source), the owlscan driver's serialisation, the Python rule engine and reference "
      "geometry, the reviewed tables under /verif/tables. ")

CHECKS = {
 "C15": dict(cat="proof", ref="DESIGN.md §3 C15",
   technique="exhaustive comparison of compiler-evaluated constant tables with reference geometry + structural match of reader MIR",
   text="Decided in full by static analysis: every attack/between table of the build under test is read from the compiler's "
        "constant evaluator and compared entry by entry with an independent reference (all 64 squares, all subsets of every "
        "magic mask, all 64x64 pairs); a geometry lemma (checked) lifts the subset check to all 2^64 occupancies; the five-line "
        "readers are matched structurally against the very formula the data is checked with; every *_strict call site is shown "
        "to be on an aligned pair. Finite data + straight-line readers: exhaustive enumeration is a proof here.",
   note=TB + "Reviewed: the three call-site patterns of rule B (pinned / guarded / well-formed move)."),
}

NOT_YET = {}
NA = {
 "C08": "FEN round trip is a value-level equality over all positions/strings; its only structural sub-clauses (parser totality, "
        "letter tables, en-passant rank normalisation) are decided under C12/C11/C20; no further necessary condition is visible "
        "in the shape of the code (see DESIGN.md §4)",
}

def main():
    props = [json.loads(l) for l in open(os.path.join(V, "properties.jsonl"))]
    checks = []
    na = []
    for p in props:
        pid = p["id"]
        if pid in CHECKS:
            c = CHECKS[pid]
            checks.append({
                "property_id": pid,
                "quick_cmd": "bin/check %s --tier quick" % pid,
                "thorough_cmd": "bin/check %s --tier thorough" % pid,
                "evidence_file": "evidence/%s.json" % pid,
                "replay_cmd_template": "bin/check %s --explain {path}" % pid,
                "engine": "owlscan+rules",
                "level_claimed": {"category": c["cat"], "text": c["text"], "design_ref": c["ref"]},
                "level_note": c["note"],
                "technique": c["technique"],
            })
        elif pid in NA:
            na.append({"property_id": pid, "reason": NA[pid]})
        else:
            na.append({"property_id": pid, "reason": "check not yet built in this revision of /verif (planned: DESIGN.md §3); "
                                                     "not claimed until its rules exist"})
    man = {
        "version": 1,
        "setup_cmd": "bin/setup",
        "hooks": {
            "guard": "none",
            "enable": "no hooks: the owlscan driver reads private items directly from the compiler; /repo is built unmodified",
            "baseline_off_cmd": "cd /repo && cargo test --workspace --no-fail-fast --offline",
            "source_commits": [],
            "add_only": True,
        },
        "engines": [
            {"name": "owlscan", "path": "owlscan/", "kind_free_text": "rustc_private driver (RUSTC_WRAPPER): instantiated MIR, "
             "evaluated constants/tables, ADT and signature facts as JSON", "serves_properties": sorted(CHECKS)},
            {"name": "rules", "path": "rules/", "kind_free_text": "pure-stdlib Python static-analysis rules over the fact file: "
             "CFG/dominators, def-use expression reconstruction, abstract interpretation, table comparison",
             "serves_properties": sorted(CHECKS)},
        ],
        "checks": checks,
        "not_applicable": na,
        "notes": "Technique family: static analysis only. Every check re-derives its facts from /repo's current working tree "
                 "(content-hashed cache under .cache/). Genuine defects found were repaired by five `fix:` commits in /repo, "
                 "listed in known_findings.json as fixed.",
    }
    with open(os.path.join(V, "MANIFEST.json"), "w") as f:
        json.dump(man, f, indent=1)
        f.write("\n")
    print("wrote MANIFEST.json: %d checks, %d not_applicable" % (len(checks), len(na)))

if __name__ == "__main__":
    main()
