#!/usr/bin/env python3
"""Print the prompt given to a seeding sub-agent: property text + scratch paths only."""
import json, sys
pid, tag = sys.argv[1], sys.argv[2]
extra = sys.argv[3] if len(sys.argv) > 3 else ""
for l in open('/verif/properties.jsonl'):
    p = json.loads(l)
    if p['id'] == pid:
        break
else:
    raise SystemExit("no such property")
wt = f"/tmp/seed/{tag}/wt"
out = f"/tmp/seed/{tag}/out"
print(f"""You are helping to evaluate a verification effort for the Rust chess library `owlchess` (workspace with crates `chess/` = owlchess and `chess_base/` = owlchess_base). You have your own scratch git worktree of the repository at {wt} (work ONLY there and in {out}; never touch /repo or /verif, and do not read anything under /verif). The sandbox is offline: always pass `--offline` to cargo. The existing test suite is `cd {wt} && cargo test --workspace --offline` (47 unit tests + doctests, all passing now).

Here is a semantic property the library is supposed to satisfy:

  Title: {p['title']}
  Statement: {p['statement']}
  Quantifier: {p['quantifier']['text']}

YOUR TASK: write a small, realistic source change (a plausible bug a maintainer could introduce in a refactor, optimisation or feature edit -- 1 to ~15 changed lines, in library code under chess/src, chess_base/src or chess/build.rs, NOT in tests) that BREAKS this property, while
  (a) the workspace still compiles without new warnings being errors, and
  (b) the whole existing test suite still passes (`cargo test --workspace --offline`), and
  (c) the breakage needs something specific to manifest: an unusual input or position, a particular multi-step sequence of operations, an extreme counter value, two cooperating sites that each look fine alone, a rarely used code path (e.g. one colour only, one castling side only, en passant, promotion with capture, a move of a rook from its home square, positions with many pieces...). It must NOT be something ordinary use would expose at once (e.g. don't break all knight moves).
{extra}
Then write a demonstration: a tiny standalone cargo crate in {out}/demo (Cargo.toml with `owlchess = {{ path = "{wt}/chess" }}`, an empty `[workspace]` table, and copy {wt}/Cargo.lock next to it so it builds offline) whose `src/main.rs` uses only the public API of owlchess, prints what it observes, and exits with status 0 when the property holds on its scenario and with a non-zero status (e.g. via assert!/std::process::exit(1)) when it is violated. Verify yourself that the demo FAILS with your change applied and PASSES with the change reverted (revert with `git -C {wt} diff > /tmp/seed/{tag}/my.diff && git -C {wt} apply -R /tmp/seed/{tag}/my.diff`, re-apply with `git -C {wt} apply /tmp/seed/{tag}/my.diff`; do NOT use `git stash`: the stash is shared between worktrees), and that the test suite passes with the change applied.

Finally, leave these files:
  {out}/patch.diff   -- `git -C {wt} diff` of your change (only the library change, applies with `git apply` to a clean checkout)
  {out}/demo/        -- the demonstration crate (without its target/ directory: delete {out}/demo/target when done)
  {out}/notes.md     -- 5-15 lines: what the change is, why it breaks the property, what exactly is needed for it to manifest, and the commands you ran with their outcomes.
Leave the change applied in the worktree. Delete {wt}/target when you are done to save disk space. Think about which rarely exercised part of the code the tests do not reach, read the relevant source carefully first, and prefer a subtle change over a blunt one. Report back a short summary (changed file/function, the scenario, and confirmation of (a), (b), demo fails/passes).""")
