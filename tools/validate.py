#!/usr/bin/env python3-vt
"""Validate MANIFEST.json and every evidence file against the harness schemas."""
import json, sys, os, glob
import jsonschema
V = os.path.dirname(os.path.dirname(os.path.abspath(__file__)))
ok = True
man = json.load(open(os.path.join(V, "MANIFEST.json")))
try:
    jsonschema.validate(man, json.load(open("/root/.vp/MANIFEST.schema.json")))
    print("MANIFEST ok: %d checks, %d not_applicable" % (len(man["checks"]), len(man.get("not_applicable", []))))
except jsonschema.ValidationError as e:
    ok = False
    print("MANIFEST INVALID:", e.message)
props = [json.loads(l)["id"] for l in open(os.path.join(V, "properties.jsonl"))]
claimed = [c["property_id"] for c in man["checks"]]
na = [c["property_id"] for c in man.get("not_applicable", [])]
for p in props:
    if p not in claimed and p not in na:
        ok = False
        print("property %s neither claimed nor not_applicable" % p)
    if p in claimed and p in na:
        ok = False
        print("property %s both claimed and not_applicable" % p)
sch = json.load(open("/root/.vp/EVIDENCE.schema.json"))
for c in man["checks"]:
    f = os.path.join(V, c["evidence_file"]) if not c["evidence_file"].startswith("/") else c["evidence_file"]
    if not os.path.exists(f):
        print("evidence missing:", f)
        ok = False
        continue
    ev = json.load(open(f))
    try:
        jsonschema.validate(ev, sch)
        if ev["level"] != c["level_claimed"]["category"]:
            ok = False
            print("evidence level mismatch", f)
        if ev["level"] == "proof" and ev["coverage"].get("obligations") != ev["coverage"].get("discharged"):
            ok = False
            print("proof evidence with undischarged obligations", f)
    except jsonschema.ValidationError as e:
        ok = False
        print("EVIDENCE INVALID %s: %s" % (f, e.message))
print("OK" if ok else "FAILED")
sys.exit(0 if ok else 1)
