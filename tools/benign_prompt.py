import sys
tag, area = sys.argv[1], sys.argv[2]
wt=f"/tmp/benign/{tag}/wt"; out=f"/tmp/benign/{tag}/out"
print(f"""You are helping to evaluate a static-analysis effort for the Rust chess library `owlchess` (workspace with crates `chess/` = owlchess and `chess_base/` = owlchess_base). You have your own scratch git worktree of the repository at {wt} (work ONLY there and in {out}; never touch /repo or /verif, and do not read anything under /verif). The sandbox is offline: always pass `--offline` to cargo. The test suite is `cd {wt} && cargo test --workspace --offline` (47 unit tests + doctests, all passing now).

YOUR TASK: write a realistic, strictly BEHAVIOUR-PRESERVING refactoring of library code -- the kind of clean-up a maintainer does without intending any functional change -- in this area: {area}.
Requirements:
  * 10 to 40 changed lines, library code only (under chess/src or chess_base/src; not tests, not build.rs).
  * It must change the SHAPE of the code, not just its spelling: for example extract a helper function, inline a helper, replace a `match` by `if`/`else` chains or the reverse, replace an explicit loop by an iterator chain or the reverse, reorder independent statements or checks whose order cannot be observed, merge duplicated branches, introduce a local variable or a small private const, replace early returns by a single expression, rewrite an arithmetic expression into an equivalent one. Combine two or three such edits.
  * For EVERY possible input (all positions, moves, strings) the observable behaviour of every public function must be exactly the same as before: same results, same errors (including WHICH error is returned when several conditions fail at once), same panics or absence of panics, same values in every public field. Do not fix bugs, do not add checks, do not remove checks, do not change public signatures or visibility, do not rename public items or private functions that you do not otherwise change.
  * The workspace must compile without warnings and the whole test suite must pass.
Think carefully about equivalence (overflow behaviour, evaluation order where it matters, which error wins) -- if in doubt choose a safer edit.

Leave these files:
  {out}/patch.diff  -- `git -C {wt} diff`; never use `git stash` (it is shared between worktrees) (applies with `git apply` to a clean checkout)
  {out}/notes.md    -- 5-10 lines: what you changed and why it is behaviour-preserving, and the test command outcome.
Leave the change applied in the worktree and delete {wt}/target when done. Report back a short summary.""")
