#!/bin/bash
# matrix.sh [tags...] : run every registered check against every seeded change / selftest mutant (scratch worktrees),
# record detections in seeded/<tag>/meta.json and write selftest/matrix.txt. Slow (about 10 min per change).
cd /verif
tags="$@"
if [ -z "$tags" ]; then tags="$(ls seeded) $(ls selftest/mutants | sed 's/\.patch$//')"; fi
mkdir -p /tmp/matrix
run_one() {
  t=$1
  python3 tools/try_seed.py $t --record > /tmp/matrix/$t.log 2>&1
  echo "$t $(grep '^FIRED' /tmp/matrix/$t.log)"
}
export -f run_one
printf "%s\n" $tags | xargs -P 3 -I{} bash -c 'run_one {}' | tee /tmp/matrix/summary.txt
sort /tmp/matrix/summary.txt > selftest/matrix.txt
