#!/bin/bash
# keep_seed.sh <tag> <property> "<needs>" : store a confirmed seeded change under /verif/seeded/<tag>/
set -e
tag=$1; prop=$2; needs=$3
d=/verif/seeded/$tag
mkdir -p $d
cp /tmp/seed/$tag/out/patch.diff $d/patch.diff
rm -rf $d/demo; cp -r /tmp/seed/$tag/out/demo $d/demo; rm -rf $d/demo/target
cp /tmp/seed/$tag/out/notes.md $d/notes.md 2>/dev/null || true
cp /tmp/seed/$tag/confirm.log $d/confirm.log
python3 - "$tag" "$prop" "$needs" <<'PY'
import json,sys
tag,prop,needs=sys.argv[1:4]
json.dump({"id":tag,"breaks_property":prop,"needs_to_manifest":needs,
 "confirmed_by":"tools/confirm_seed.sh %s: fresh worktree of /repo HEAD, patch applied, `cargo test --workspace --offline` passes, demo crate exits non-zero with the patch and zero without"%tag,
 "origin":"independent sub-agent given only the property text and a scratch worktree",
 "detected_by":[]}, open("/verif/seeded/%s/meta.json"%tag,"w"), indent=1)
PY
echo kept $tag
