#!/bin/bash
# with_seed.sh <tag> <command...> : run a command with OWLCHESS_REPO pointing at a scratch worktree with the seed applied
tag=$1; shift
wt=/tmp/tryseed/ws-$tag
git -C /repo worktree remove --force $wt 2>/dev/null; rm -rf $wt; mkdir -p /tmp/tryseed
git -C /repo worktree add -q --detach $wt HEAD && git -C $wt apply /verif/seeded/$tag/patch.diff
OWLCHESS_REPO=$wt "$@"; rc=$?
git -C /repo worktree remove --force $wt 2>/dev/null; rm -rf $wt; git -C /repo worktree prune
exit $rc
