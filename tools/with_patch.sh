#!/bin/bash
# with_patch.sh <patch file> <command...> : run a command with OWLCHESS_REPO pointing at a scratch worktree with the patch applied
pf=$1; shift
wt=/tmp/tryseed/wp-$$
git -C /repo worktree add -q --detach $wt HEAD && git -C $wt apply $pf
OWLCHESS_REPO=$wt "$@"; rc=$?
git -C /repo worktree remove --force $wt 2>/dev/null; rm -rf $wt; git -C /repo worktree prune
exit $rc
