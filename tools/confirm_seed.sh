#!/bin/bash
# confirm_seed.sh <tag> : independently re-check a seeded change produced by a sub-agent.
#  1. fresh worktree of /repo HEAD under /tmp/confirm/<tag>; apply out/patch.diff
#  2. cargo test --workspace --offline must pass (47 unit tests)
#  3. demo crate (re-pointed at the fresh worktree) must exit non-zero with the patch, zero without
# Writes /tmp/seed/<tag>/confirm.log and prints CONFIRMED / REJECTED.
set -u
tag=$1
src=/tmp/seed/$tag/out
wt=/tmp/confirm/$tag/wt
demo=/tmp/confirm/$tag/demo
log=/tmp/seed/$tag/confirm.log
rm -rf /tmp/confirm/$tag; mkdir -p /tmp/confirm/$tag
git -C /repo worktree prune
git -C /repo worktree add -q --detach $wt HEAD || { echo "REJECTED $tag: worktree"; exit 1; }
cleanup() { git -C /repo worktree remove --force $wt 2>/dev/null; rm -rf /tmp/confirm/$tag; git -C /repo worktree prune; }
{
echo "== apply"; git -C $wt apply $src/patch.diff || { echo "REJECTED $tag: patch does not apply"; cleanup; exit 1; }
git -C $wt diff --stat
echo "== tests with patch"
( cd $wt && cargo test --workspace --offline 2>&1 | grep -E "^test result|FAILED|panicked|error(\[|:)|warning: unused" )
( cd $wt && cargo test --workspace --offline >/dev/null 2>&1 ); trc=$?
echo "tests rc=$trc"
cp -r $src/demo $demo; rm -rf $demo/target
sed -i "s#path = \"[^\"]*chess\"#path = \"$wt/chess\"#" $demo/Cargo.toml
cp $wt/Cargo.lock $demo/Cargo.lock 2>/dev/null
echo "== demo with patch"; ( cd $demo && cargo run --offline -q 2>&1 | tail -15 ); ( cd $demo && cargo run --offline -q >/dev/null 2>&1 ); drc1=$?
echo "demo rc (patched)=$drc1"
git -C $wt checkout -q -- .
echo "== demo without patch"; ( cd $demo && cargo run --offline -q 2>&1 | tail -5 ); ( cd $demo && cargo run --offline -q >/dev/null 2>&1 ); drc0=$?
echo "demo rc (clean)=$drc0"
} > $log 2>&1
trc=$(grep -o "tests rc=[0-9]*" $log | cut -d= -f2); drc1=$(grep -o "demo rc (patched)=[0-9]*" $log | cut -d= -f2); drc0=$(grep -o "demo rc (clean)=[0-9]*" $log | cut -d= -f2)
cleanup
if [ "$trc" = 0 ] && [ "$drc1" != 0 ] && [ "$drc0" = 0 ]; then echo "CONFIRMED $tag (tests pass, demo fails with patch rc=$drc1, passes without)"; else echo "REJECTED $tag tests=$trc patched=$drc1 clean=$drc0"; fi
