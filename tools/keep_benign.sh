#!/bin/bash
# keep_benign.sh <tag> : re-check a behaviour-preserving refactoring written by a sub-agent (fresh worktree, tests pass)
# and store it as selftest/benign/<tag>.patch
set -u
tag=$1
src=/tmp/benign/$tag/out/patch.diff
wt=/tmp/confirm/benign-$tag
rm -rf $wt; git -C /repo worktree prune
git -C /repo worktree add -q --detach $wt HEAD || exit 1
git -C $wt apply $src || { echo "REJECTED $tag: patch does not apply"; git -C /repo worktree remove --force $wt; exit 1; }
( cd $wt && CARGO_NET_OFFLINE=true cargo test --workspace --offline > /tmp/benign/$tag/test.log 2>&1 ); rc=$?
warn=$(grep -c "^warning" /tmp/benign/$tag/test.log)
git -C /repo worktree remove --force $wt; rm -rf $wt; git -C /repo worktree prune
if [ $rc = 0 ]; then cp $src /verif/selftest/benign/$tag.patch; cp /tmp/benign/$tag/out/notes.md /verif/selftest/benign/$tag.notes.md 2>/dev/null; echo "KEPT $tag (tests pass, warnings=$warn)"; else echo "REJECTED $tag tests rc=$rc"; fi
