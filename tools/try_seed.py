#!/usr/bin/env python3
"""try_seed.py <tag> [PID ...] : run checks against a seeded change on a scratch worktree (never on /repo).
Prints which properties' checks fire; with --record updates seeded/<tag>/meta.json detected_by."""
import json, os, subprocess, sys, shutil
V = os.path.dirname(os.path.dirname(os.path.abspath(__file__)))
args = [a for a in sys.argv[1:] if not a.startswith("--")]
tag = args[0]
man = json.load(open(os.path.join(V, "MANIFEST.json")))
pids = args[1:] or [c["property_id"] for c in man["checks"]]
tier = "thorough" if "--thorough" in sys.argv else "quick"
wt = "/tmp/tryseed/%s" % tag
subprocess.run(["git", "-C", "/repo", "worktree", "remove", "--force", wt], capture_output=True)
shutil.rmtree(wt, ignore_errors=True)
os.makedirs("/tmp/tryseed", exist_ok=True)
subprocess.check_call(["git", "-C", "/repo", "worktree", "add", "-q", "--detach", wt, "HEAD"])
try:
    patch = os.path.join(V, "seeded", tag, "patch.diff")
    if not os.path.exists(patch):
        patch = os.path.join(V, "selftest", "mutants", tag + ".patch")
    if not os.path.exists(patch):
        patch = os.path.join(V, "selftest", "benign", tag + ".patch")
    subprocess.check_call(["git", "-C", wt, "apply", patch])
    env = dict(os.environ, OWLCHESS_REPO=wt)
    fired = []
    for pid in pids:
        r = subprocess.run([os.path.join(V, "bin", "check"), pid, "--tier", tier], env=env, capture_output=True, text=True, cwd=V)
        lines = [l for l in r.stdout.splitlines() if l.strip().startswith(("VIOLATION", "ANALYSIS-ERROR")) or ": " in l and l.startswith("  ") and not l.startswith("  rule")]
        print("%s on %s: exit %d" % (pid, tag, r.returncode))
        for l in lines[:8]:
            print("    " + l.strip()[:400])
        if r.returncode == 1:
            fired.append(pid)
        if r.returncode == 2:
            print(r.stdout[-1500:], r.stderr[-1500:])
    print("FIRED:", fired)
    if "--record" in sys.argv:
        mp = os.path.join(V, "seeded", tag, "meta.json")
        if not os.path.exists(mp):
            raise SystemExit(0)
        m = json.load(open(mp))
        m["detected_by"] = sorted(set(m.get("detected_by", [])) | set(fired))
        json.dump(m, open(mp, "w"), indent=1)
finally:
    subprocess.run(["git", "-C", "/repo", "worktree", "remove", "--force", wt], capture_output=True)
    shutil.rmtree(wt, ignore_errors=True)
    # the per-worktree build directories of the witness crates and the scratch evidence are of no use once the worktree is gone
    import hashlib
    _h8 = hashlib.sha1(wt.encode()).hexdigest()[:8]
    _h10 = hashlib.sha1(wt.encode()).hexdigest()[:10]
    for _d in ("witness_cf-" + _h8, "witness_ctfe-" + _h8, os.path.join("scratch-evidence", _h10)):
        shutil.rmtree(os.path.join(os.path.dirname(os.path.dirname(os.path.abspath(__file__))), ".cache", _d), ignore_errors=True)
    subprocess.run(["git", "-C", "/repo", "worktree", "prune"], capture_output=True)
    # evidence files were rewritten against the scratch tree: regenerate is the caller's business
