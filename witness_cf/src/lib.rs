//! Compile-fail witnesses (E4): programs that an external user of `owlchess` must not be able to write.
//! Every `compile_fail,E....` block is paired with a compiling twin that differs only in the offending
//! token(s): a witness whose path is merely wrong would also "fail to compile" and pass.
//! Run with `cargo +nightly test --doc` (error codes are only checked on nightly).
//!
//! Labels in the headings (`cf/<property>/<name>`) are what the rule engine reports.

/// cf/C19/unsafe-make-unchecked: the unchecked make is callable only inside `unsafe`.
/// ```compile_fail,E0133
/// use owlchess::{Board, Move, moves};
/// let mut b = Board::initial();
/// let _u = moves::make_move_unchecked(&mut b, Move::NULL);
/// ```
/// twin:
/// ```no_run
/// use owlchess::{Board, Move, moves};
/// let mut b = Board::initial();
/// let _u = unsafe { moves::make_move_unchecked(&mut b, Move::NULL) };
/// ```
pub struct UnsafeMakeUnchecked;

/// cf/C19/unsafe-new-unchecked: building a move without the well-formedness check needs `unsafe`.
/// ```compile_fail,E0133
/// use owlchess::{Move, MoveKind, Cell, Coord, File, Rank};
/// let _m = Move::new_unchecked(MoveKind::Simple, Cell::EMPTY, Coord::from_parts(File::A, Rank::R1), Coord::from_parts(File::A, Rank::R2));
/// ```
/// twin:
/// ```no_run
/// use owlchess::{Move, MoveKind, Cell, Coord, File, Rank};
/// let _m = unsafe { Move::new_unchecked(MoveKind::Simple, Cell::EMPTY, Coord::from_parts(File::A, Rank::R1), Coord::from_parts(File::A, Rank::R2)) };
/// ```
pub struct UnsafeNewUnchecked;

/// cf/C19/unsafe-coord-unchecked: an unchecked square needs `unsafe`.
/// ```compile_fail,E0133
/// use owlchess::Coord;
/// let _c = Coord::from_index_unchecked(64);
/// ```
/// twin:
/// ```no_run
/// use owlchess::Coord;
/// let _c = unsafe { Coord::from_index_unchecked(63) };
/// ```
pub struct UnsafeCoordUnchecked;

/// cf/C19/unsafe-add-unchecked
/// ```compile_fail,E0133
/// use owlchess::{Coord, File, Rank};
/// let _c = Coord::from_parts(File::A, Rank::R1).add_unchecked(1);
/// ```
/// twin:
/// ```no_run
/// use owlchess::{Coord, File, Rank};
/// let _c = unsafe { Coord::from_parts(File::A, Rank::R1).add_unchecked(1) };
/// ```
pub struct UnsafeAddUnchecked;

/// cf/C02/unsafe-unchecked-wrapper: the `Unchecked` move wrapper can only be made in `unsafe`.
/// ```compile_fail,E0133
/// use owlchess::{Move, moves::make};
/// let _w = make::Unchecked::new(Move::NULL);
/// ```
/// twin:
/// ```no_run
/// use owlchess::{Move, moves::make};
/// let _w = unsafe { make::Unchecked::new(Move::NULL) };
/// ```
pub struct UnsafeUncheckedWrapper;

/// cf/C02/unsafe-try-unchecked-wrapper
/// ```compile_fail,E0133
/// use owlchess::{Move, moves::make};
/// let _w = make::TryUnchecked::new(Move::NULL);
/// ```
/// twin:
/// ```no_run
/// use owlchess::{Move, moves::make};
/// let _w = unsafe { make::TryUnchecked::new(Move::NULL) };
/// ```
pub struct UnsafeTryUncheckedWrapper;

/// cf/C13/unsafe-chain-push-unchecked
/// ```compile_fail,E0133
/// use owlchess::{MoveChain, Move};
/// let mut c = MoveChain::new_initial();
/// c.push_unchecked(Move::NULL);
/// ```
/// twin:
/// ```no_run
/// use owlchess::{MoveChain, Move};
/// let mut c = MoveChain::new_initial();
/// unsafe { c.push_unchecked(Move::NULL) };
/// ```
pub struct UnsafeChainPush;

/// cf/C19/private-coord-field: the wrapped index of a square cannot be read or forged.
/// ```compile_fail,E0616
/// use owlchess::{Coord, File, Rank};
/// let c = Coord::from_parts(File::A, Rank::R1);
/// let _x = c.0;
/// ```
/// twin:
/// ```no_run
/// use owlchess::{Coord, File, Rank};
/// let c = Coord::from_parts(File::A, Rank::R1);
/// let _x = c.index();
/// ```
pub struct PrivateCoordField;

/// cf/C19/private-coord-ctor: a square cannot be built from a raw byte by the tuple constructor.
/// ```compile_fail,E0423
/// use owlchess::Coord;
/// let _c = Coord(200);
/// ```
/// twin:
/// ```no_run
/// use owlchess::Coord;
/// let _c = Coord::from_index(20);
/// ```
pub struct PrivateCoordCtor;

/// cf/C19/private-cell-ctor
/// ```compile_fail,E0423
/// use owlchess::Cell;
/// let _c = Cell(200);
/// ```
/// twin:
/// ```no_run
/// use owlchess::Cell;
/// let _c = Cell::from_index(2);
/// ```
pub struct PrivateCellCtor;

/// cf/C19/private-castling-ctor
/// ```compile_fail,E0423
/// use owlchess::CastlingRights;
/// let _c = CastlingRights(200);
/// ```
/// twin:
/// ```no_run
/// use owlchess::CastlingRights;
/// let _c = CastlingRights::from_index(2);
/// ```
pub struct PrivateCastlingCtor;

/// cf/C02/private-board-raw: the raw position inside a validated `Board` cannot be reached mutably.
/// ```compile_fail,E0616
/// use owlchess::Board;
/// let mut b = Board::initial();
/// b.r.ep_source = None;
/// ```
/// twin:
/// ```no_run
/// use owlchess::Board;
/// let b = Board::initial();
/// let _e = b.raw().ep_source;
/// ```
pub struct PrivateBoardRaw;

/// cf/C06/private-move-fields: the fields of a move cannot be changed after the well-formedness check.
/// ```compile_fail,E0616
/// use owlchess::Move;
/// let mut m = Move::NULL;
/// m.kind = owlchess::MoveKind::Simple;
/// ```
/// twin:
/// ```no_run
/// use owlchess::Move;
/// let m = Move::NULL;
/// let _k = m.kind();
/// ```
pub struct PrivateMoveFields;

/// cf/C17/walker-borrows-chain: a chain cannot be changed while a walker over it is alive.
/// ```compile_fail,E0502
/// use owlchess::{MoveChain, Move};
/// let mut c = MoveChain::new_initial();
/// let mut w = c.walk();
/// let _ = c.push(Move::NULL);
/// let _ = w.next();
/// ```
/// twin:
/// ```no_run
/// use owlchess::{MoveChain, Move};
/// let mut c = MoveChain::new_initial();
/// let _ = c.push(Move::NULL);
/// let mut w = c.walk();
/// let _ = w.next();
/// ```
pub struct WalkerBorrowsChain;

/// cf/C20/const-coord-range: the checked constructor rejects 64 already at compile time.
/// ```compile_fail,E0080
/// use owlchess::Coord;
/// const C: Coord = Coord::from_index(64);
/// let _ = C;
/// ```
/// twin:
/// ```no_run
/// use owlchess::Coord;
/// const C: Coord = Coord::from_index(63);
/// let _ = C;
/// ```
pub struct ConstCoordRange;

/// cf/C20/const-cell-range
/// ```compile_fail,E0080
/// use owlchess::Cell;
/// const C: Cell = Cell::from_index(13);
/// let _ = C;
/// ```
/// twin:
/// ```no_run
/// use owlchess::Cell;
/// const C: Cell = Cell::from_index(12);
/// let _ = C;
/// ```
pub struct ConstCellRange;
