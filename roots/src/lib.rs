//! Monomorphic entry points ("roots") from which owlscan walks the instance graph of
//! owlchess / owlchess_base. One wrapper per public entry-point family; nothing here is
//! ever executed.
#![allow(clippy::all, dead_code, unused)]

use owlchess::board::{Board, PrettyStyle, RawBoard};
use owlchess::chain::{BaseMoveChain, GameStatusPolicy, HashRepeat, MoveChain, NumberPolicy};
use owlchess::movegen::{self, legal, semilegal, MoveList};
use owlchess::moves::{self, make, san, uci, Make, Move, MoveKind, PromotePiece, RawUndo, Style};
use owlchess::types::*;
use owlchess::Bitboard;
use std::fmt;
use std::str::FromStr;

// ---- C12: the text parsers
pub fn parse_raw_board(s: &str) -> Result<RawBoard, owlchess::board::RawFenParseError> { RawBoard::from_str(s) }
pub fn parse_raw_board_fen(s: &str) -> Result<RawBoard, owlchess::board::RawFenParseError> { RawBoard::from_fen(s) }
pub fn parse_board(s: &str) -> Result<Board, owlchess::board::FenParseError> { Board::from_str(s) }
pub fn parse_board_fen(s: &str) -> Result<Board, owlchess::board::FenParseError> { Board::from_fen(s) }
pub fn parse_uci_move(s: &str) -> Result<uci::Move, uci::RawParseError> { uci::Move::from_str(s) }
pub fn parse_san_data(s: &str) -> Result<san::Data, san::RawParseError> { san::Data::from_str(s) }
pub fn parse_san_move(s: &str) -> Result<san::Move, san::RawParseError> { san::Move::from_str(s) }
pub fn parse_coord(s: &str) -> Result<Coord, CoordParseError> { Coord::from_str(s) }
pub fn parse_cell(s: &str) -> Result<Cell, CellParseError> { Cell::from_str(s) }
pub fn parse_color(s: &str) -> Result<Color, ColorParseError> { Color::from_str(s) }
pub fn parse_castling(s: &str) -> Result<CastlingRights, CastlingRightsParseError> { CastlingRights::from_str(s) }
pub fn char_file(c: char) -> Option<File> { File::from_char(c) }
pub fn char_rank(c: char) -> Option<Rank> { Rank::from_char(c) }
pub fn char_cell(c: char) -> Option<Cell> { Cell::from_char(c) }
pub fn char_color(c: char) -> Option<Color> { Color::from_char(c) }
pub fn move_from_uci(s: &str, b: &Board) -> Result<Move, uci::BasicParseError> { Move::from_uci(s, b) }
pub fn move_from_uci_semilegal(s: &str, b: &Board) -> Result<Move, uci::ParseError> { Move::from_uci_semilegal(s, b) }
pub fn move_from_uci_legal(s: &str, b: &Board) -> Result<Move, uci::ParseError> { Move::from_uci_legal(s, b) }
pub fn move_from_san(s: &str, b: &Board) -> Result<Move, san::ParseError> { Move::from_san(s, b) }
pub fn chain_push_uci_list(c: &mut MoveChain, s: &str) -> Result<(), owlchess::chain::UciParseError> { c.push_uci_list(s) }
pub fn chain_from_uci_list(b: Board, s: &str) -> Result<MoveChain, owlchess::chain::UciParseError> { MoveChain::from_uci_list(b, s) }
pub fn chain_from_fen(s: &str) -> Result<MoveChain, owlchess::board::FenParseError> { MoveChain::from_fen(s) }

// ---- formatting
pub fn fmt_raw_board(b: &RawBoard) -> String { b.to_string() }
pub fn fmt_board(b: &Board) -> String { b.as_fen() }
pub fn fmt_board_pretty(b: &Board, s: PrettyStyle) -> String { b.pretty(s).to_string() }
pub fn fmt_coord(c: Coord) -> String { c.to_string() }
pub fn fmt_cell(c: Cell) -> String { c.to_string() }
pub fn fmt_color(c: Color) -> String { c.to_string() }
pub fn fmt_castling(c: CastlingRights) -> String { c.to_string() }
pub fn fmt_file(c: File) -> String { c.to_string() }
pub fn fmt_rank(c: Rank) -> String { c.to_string() }
pub fn fmt_uci_move(m: uci::Move) -> String { m.to_string() }
pub fn fmt_move(m: Move) -> String { m.to_string() }
pub fn fmt_san_move(m: san::Move) -> String { m.to_string() }
pub fn fmt_san_data(m: san::Data) -> String { m.to_string() }
pub fn fmt_san_move_styled(m: san::Move, s: san::Style) -> String { m.styled(s).to_string() }
pub fn fmt_san_data_styled(m: san::Data, s: san::Style) -> String { m.styled(s).to_string() }
pub fn fmt_bitboard(b: Bitboard) -> String { b.to_string() }
pub fn fmt_outcome(o: Outcome) -> String { o.to_string() }
pub fn fmt_status(o: GameStatus) -> String { o.to_string() }
pub fn char_of_file(f: File) -> char { f.as_char() }
pub fn char_of_rank(f: Rank) -> char { f.as_char() }
pub fn char_of_cell(f: Cell) -> char { f.as_char() }
pub fn char_of_cell_utf8(f: Cell) -> char { f.as_utf8_char() }
pub fn char_of_color(f: Color) -> char { f.as_char() }

// ---- C02/C11: validation and the safe make API
pub fn board_try_from(r: RawBoard) -> Result<Board, owlchess::board::ValidateError> { Board::try_from(r) }
pub fn board_try_from_ref(r: &RawBoard) -> Result<Board, owlchess::board::ValidateError> { Board::try_from(r) }
pub fn board_initial() -> Board { Board::initial() }
pub fn raw_initial() -> RawBoard { RawBoard::initial() }
pub fn raw_zobrist(r: &RawBoard) -> u64 { r.zobrist_hash() }
pub fn raw_ep_dest(r: &RawBoard) -> Option<Coord> { r.ep_dest() }
pub fn make_move(m: &Move, b: &Board) -> Result<Board, moves::ValidateError> { m.make(b) }
pub fn make_move_raw(m: &Move, b: &mut Board) -> Result<(Move, RawUndo), moves::ValidateError> { m.make_raw(b) }
pub fn make_uci_move(m: &uci::Move, b: &Board) -> Result<Board, uci::ParseError> { m.make(b) }
pub fn make_uci_move_raw(m: &uci::Move, b: &mut Board) -> Result<(Move, RawUndo), uci::ParseError> { m.make_raw(b) }
pub fn make_san_move(m: &san::Move, b: &Board) -> Result<Board, san::IntoMoveError> { m.make(b) }
pub fn make_san_move_raw(m: &san::Move, b: &mut Board) -> Result<(Move, RawUndo), san::IntoMoveError> { m.make_raw(b) }
pub fn make_uci_str(s: &str, b: &Board) -> Result<Board, uci::ParseError> { make::Uci(s).make(b) }
pub fn make_uci_str_raw(s: &str, b: &mut Board) -> Result<(Move, RawUndo), uci::ParseError> { make::Uci(s).make_raw(b) }
pub fn make_san_str(s: &str, b: &Board) -> Result<Board, san::ParseError> { make::San(s).make(b) }
pub fn make_san_str_raw(s: &str, b: &mut Board) -> Result<(Move, RawUndo), san::ParseError> { make::San(s).make_raw(b) }
pub fn make_try_unchecked(m: &make::TryUnchecked, b: &Board) -> Result<Board, moves::ValidateError> { m.make(b) }
pub fn make_try_unchecked_raw(m: &make::TryUnchecked, b: &mut Board) -> Result<(Move, RawUndo), moves::ValidateError> { m.make_raw(b) }
pub fn make_unchecked(m: &make::Unchecked, b: &Board) -> Board { match m.make(b) { Ok(b) => b, Err(e) => match e {} } }
pub fn make_unchecked_raw(m: &make::Unchecked, b: &mut Board) -> (Move, RawUndo) { match m.make_raw(b) { Ok(b) => b, Err(e) => match e {} } }
pub fn board_make_move(b: &Board, m: Move) -> Result<Board, moves::ValidateError> { b.make_move(m) }
pub unsafe fn raw_make(b: &mut Board, m: Move) -> RawUndo { moves::make_move_unchecked(b, m) }
pub unsafe fn raw_unmake(b: &mut Board, m: Move, u: RawUndo) { moves::unmake_move_unchecked(b, m, u) }
pub unsafe fn try_unchecked_new(m: Move) -> make::TryUnchecked { make::TryUnchecked::new(m) }
pub unsafe fn unchecked_new(m: Move) -> make::Unchecked { make::Unchecked::new(m) }

// ---- moves
pub fn move_new(k: MoveKind, c: Cell, s: Coord, d: Coord) -> Result<Move, moves::CreateError> { Move::new(k, c, s, d) }
pub unsafe fn move_new_unchecked(k: MoveKind, c: Cell, s: Coord, d: Coord) -> Move { Move::new_unchecked(k, c, s, d) }
pub fn move_from_castling(c: Color, s: CastlingSide) -> Move { Move::from_castling(c, s) }
pub fn move_is_well_formed(m: &Move) -> bool { m.is_well_formed() }
pub fn move_is_semilegal(m: &Move, b: &Board) -> bool { m.is_semilegal(b) }
pub fn move_semi_validate(m: &Move, b: &Board) -> Result<(), moves::ValidateError> { m.semi_validate(b) }
pub fn move_validate(m: &Move, b: &Board) -> Result<(), moves::ValidateError> { m.validate(b) }
pub unsafe fn move_is_legal_unchecked(m: &Move, b: &Board) -> bool { m.is_legal_unchecked(b) }
pub fn move_uci(m: &Move) -> uci::Move { m.uci() }
pub fn move_san(m: &Move, b: &Board) -> Result<san::Move, moves::ValidateError> { m.san(b) }
pub fn move_styled(m: &Move, b: &Board, s: Style) -> Result<String, moves::ValidateError> { Ok(m.styled(b, s)?.to_string()) }
pub fn move_kind_promote(k: MoveKind) -> Option<Piece> { k.promote() }
pub fn move_kind_matches(k: MoveKind, p: Piece) -> bool { k.matches_piece(p) }
pub fn uci_into_move(m: uci::Move, b: &Board) -> Result<Move, moves::CreateError> { m.into_move(b) }
pub fn uci_from_move(m: Move) -> uci::Move { uci::Move::from(m) }
pub fn san_into_move(m: san::Move, b: &Board) -> Result<Move, san::IntoMoveError> { m.into_move(b) }
pub fn san_data_into_move(m: san::Data, b: &Board) -> Result<Move, san::IntoMoveError> { m.into_move(b) }
pub fn san_from_move(m: Move, b: &Board) -> Result<san::Move, moves::ValidateError> { san::Move::from_move(m, b) }
pub fn san_data_from_move(m: Move, b: &Board) -> san::Data { san::Data::from_move(m, b) }
pub fn conv_promote_piece(p: PromotePiece) -> Piece { p.into() }
pub fn conv_piece_promote(p: Piece) -> Result<PromotePiece, ()> { p.try_into() }
pub fn conv_side_kind(p: CastlingSide) -> MoveKind { p.into() }
pub fn conv_kind_side(p: MoveKind) -> Result<CastlingSide, ()> { p.try_into() }
pub fn conv_promote_kind(p: PromotePiece) -> MoveKind { p.into() }
pub fn conv_kind_promote(p: MoveKind) -> Result<PromotePiece, ()> { p.try_into() }

// ---- generators and queries
pub fn legal_all(b: &Board) -> MoveList { legal::gen_all(b) }
pub fn legal_capture(b: &Board) -> MoveList { legal::gen_capture(b) }
pub fn legal_simple(b: &Board) -> MoveList { legal::gen_simple(b) }
pub fn legal_simple_no_promote(b: &Board) -> MoveList { legal::gen_simple_no_promote(b) }
pub fn legal_simple_promote(b: &Board) -> MoveList { legal::gen_simple_promote(b) }
pub fn semi_all(b: &Board) -> MoveList { semilegal::gen_all(b) }
pub fn semi_capture(b: &Board) -> MoveList { semilegal::gen_capture(b) }
pub fn semi_simple(b: &Board) -> MoveList { semilegal::gen_simple(b) }
pub fn semi_simple_no_promote(b: &Board) -> MoveList { semilegal::gen_simple_no_promote(b) }
pub fn semi_simple_promote(b: &Board) -> MoveList { semilegal::gen_simple_promote(b) }
pub fn semi_all_into_list(b: &Board, d: &mut MoveList) { semilegal::gen_all_into(b, d) }
pub fn semi_capture_into_list(b: &Board, d: &mut MoveList) { semilegal::gen_capture_into(b, d) }
pub fn semi_simple_into_list(b: &Board, d: &mut MoveList) { semilegal::gen_simple_into(b, d) }
pub fn semi_simple_no_promote_into_list(b: &Board, d: &mut MoveList) { semilegal::gen_simple_no_promote_into(b, d) }
pub fn semi_simple_promote_into_list(b: &Board, d: &mut MoveList) { semilegal::gen_simple_promote_into(b, d) }
pub fn semi_all_into_vec(b: &Board, d: &mut Vec<Move>) { semilegal::gen_all_into(b, d) }
pub fn semi_capture_into_vec(b: &Board, d: &mut Vec<Move>) { semilegal::gen_capture_into(b, d) }
pub fn semi_simple_into_vec(b: &Board, d: &mut Vec<Move>) { semilegal::gen_simple_into(b, d) }
pub fn has_legal_moves(b: &Board) -> bool { movegen::has_legal_moves(b) }
pub fn board_has_legal_moves(b: &Board) -> bool { b.has_legal_moves() }
pub fn is_cell_attacked(b: &Board, c: Coord, col: Color) -> bool { movegen::is_cell_attacked(b, c, col) }
pub fn cell_attackers(b: &Board, c: Coord, col: Color) -> Bitboard { movegen::cell_attackers(b, c, col) }
pub fn board_is_check(b: &Board) -> bool { b.is_check() }
pub fn board_checkers(b: &Board) -> Bitboard { b.checkers() }
pub fn board_is_opponent_king_attacked(b: &Board) -> bool { b.is_opponent_king_attacked() }
pub fn board_calc_outcome(b: &Board) -> Option<Outcome> { b.calc_outcome() }
pub fn board_calc_draw_simple(b: &Board) -> Option<DrawReason> { b.calc_draw_simple() }
pub fn board_king_pos(b: &Board, c: Color) -> Coord { b.king_pos(c) }
pub fn board_get(b: &Board, c: Coord) -> Cell { b.get(c) }
pub fn board_get2(b: &Board, f: File, r: Rank) -> Cell { b.get2(f, r) }
pub fn board_color(b: &Board, c: Color) -> Bitboard { b.color(c) }
pub fn board_piece(b: &Board, c: Cell) -> Bitboard { b.piece(c) }
pub fn board_piece2(b: &Board, c: Color, p: Piece) -> Bitboard { b.piece2(c, p) }
pub fn board_hash(b: &Board) -> u64 { b.zobrist_hash() }
pub fn board_eq(a: &Board, b: &Board) -> bool { *a == *b }
pub fn board_raw(a: &Board) -> &RawBoard { a.raw() }
pub fn raw_get(b: &RawBoard, c: Coord) -> Cell { b.get(c) }
pub fn raw_put(b: &mut RawBoard, c: Coord, x: Cell) { b.put(c, x) }
pub fn raw_put2(b: &mut RawBoard, f: File, r: Rank, x: Cell) { b.put2(f, r, x) }
pub fn movelist_push(l: &mut MoveList, m: Move) { owlchess::MovePush::push(l, m) }

// ---- chain and walker
pub fn chain_new(b: Board) -> MoveChain { MoveChain::new(b) }
pub fn chain_new_initial() -> MoveChain { MoveChain::new_initial() }
pub fn chain_push_move(c: &mut MoveChain, m: Move) -> Result<(), moves::ValidateError> { c.push(m) }
pub fn chain_push_uci_move(c: &mut MoveChain, m: uci::Move) -> Result<(), uci::ParseError> { c.push(m) }
pub fn chain_push_san_move(c: &mut MoveChain, m: san::Move) -> Result<(), san::IntoMoveError> { c.push(m) }
pub fn chain_push_uci(c: &mut MoveChain, s: &str) -> Result<(), uci::ParseError> { c.push(make::Uci(s)) }
pub fn chain_push_san(c: &mut MoveChain, s: &str) -> Result<(), san::ParseError> { c.push(make::San(s)) }
pub fn chain_push_try_unchecked(c: &mut MoveChain, m: make::TryUnchecked) -> Result<(), moves::ValidateError> { c.push(m) }
pub unsafe fn chain_push_unchecked(c: &mut MoveChain, m: Move) { c.push_unchecked(m) }
pub fn chain_pop(c: &mut MoveChain) -> Option<Move> { c.pop() }
pub fn chain_calc_outcome(c: &MoveChain) -> Option<Outcome> { c.calc_outcome() }
pub fn chain_set_auto_outcome(c: &mut MoveChain, f: OutcomeFilter) -> Option<Outcome> { c.set_auto_outcome(f) }
pub fn chain_set_outcome(c: &mut MoveChain, o: Outcome) { c.set_outcome(o) }
pub fn chain_reset_outcome(c: &mut MoveChain, o: Option<Outcome>) { c.reset_outcome(o) }
pub fn chain_clear_outcome(c: &mut MoveChain) { c.clear_outcome() }
pub fn chain_eq(a: &MoveChain, b: &MoveChain) -> bool { *a == *b }
pub fn chain_get(a: &MoveChain, i: usize) -> Move { a.get(i) }
pub fn chain_len(a: &MoveChain) -> usize { a.len() }
pub fn chain_last(a: &MoveChain) -> &Board { a.last() }
pub fn chain_startpos(a: &MoveChain) -> &RawBoard { a.startpos() }
pub fn chain_iter(a: &MoveChain) -> Vec<Move> { a.iter().collect() }
pub fn chain_uci(a: &MoveChain) -> String { a.uci().to_string() }
pub fn chain_styled(a: &MoveChain, n: NumberPolicy, s: Style, g: GameStatusPolicy) -> String { a.styled(n, s, g).to_string() }
pub fn chain_default() -> MoveChain { MoveChain::default() }
pub fn chain_clone(a: &MoveChain) -> MoveChain { a.clone() }
pub fn walker_all(a: &MoveChain) -> usize {
    let mut w = a.walk();
    let mut n = 0;
    while let Some((_b, _m)) = w.next() { n += 1; }
    while let Some((_b, _m)) = w.prev() { n += 1; }
    w.start();
    w.end();
    n + w.len() + w.pos() + (w.is_empty() as usize)
}
pub fn outcome_passes(o: &Outcome, f: OutcomeFilter) -> bool { o.passes(f) }
pub fn outcome_is_force(o: &Outcome) -> bool { o.is_force() }
pub fn outcome_winner(o: &Outcome) -> Option<Color> { o.winner() }
pub fn status_from(o: Option<Outcome>) -> GameStatus { GameStatus::from(o) }
pub fn status_from_outcome(o: Outcome) -> GameStatus { GameStatus::from(o) }

// ---- value types
pub fn coord_from_index(i: usize) -> Coord { Coord::from_index(i) }
pub fn coord_from_parts(f: File, r: Rank) -> Coord { Coord::from_parts(f, r) }
pub fn coord_file(c: Coord) -> File { c.file() }
pub fn coord_rank(c: Coord) -> Rank { c.rank() }
pub fn coord_add(c: Coord, d: isize) -> Coord { c.add(d) }
pub fn coord_shift(c: Coord, f: isize, r: isize) -> Option<Coord> { c.shift(f, r) }
pub fn coord_diag(c: Coord) -> usize { c.diag() }
pub fn coord_antidiag(c: Coord) -> usize { c.antidiag() }
pub fn coord_flip_rank(c: Coord) -> Coord { c.flipped_rank() }
pub fn coord_flip_file(c: Coord) -> Coord { c.flipped_file() }
pub fn coord_iter() -> Vec<Coord> { Coord::iter().collect() }
pub fn file_from_index(i: usize) -> File { File::from_index(i) }
pub fn rank_from_index(i: usize) -> Rank { Rank::from_index(i) }
pub fn piece_from_index(i: usize) -> Piece { Piece::from_index(i) }
pub fn cell_from_index(i: usize) -> Cell { Cell::from_index(i) }
pub fn castling_from_index(i: usize) -> CastlingRights { CastlingRights::from_index(i) }
pub fn file_iter() -> Vec<File> { File::iter().collect() }
pub fn rank_iter() -> Vec<Rank> { Rank::iter().collect() }
pub fn piece_iter() -> Vec<Piece> { Piece::iter().collect() }
pub fn cell_iter() -> Vec<Cell> { Cell::iter().collect() }
pub fn cell_from_parts(c: Color, p: Piece) -> Cell { Cell::from_parts(c, p) }
pub fn cell_color(c: Cell) -> Option<Color> { c.color() }
pub fn cell_piece(c: Cell) -> Option<Piece> { c.piece() }
pub fn color_inv(c: Color) -> Color { c.inv() }
pub fn castling_has(r: CastlingRights, c: Color, s: CastlingSide) -> bool { r.has(c, s) }
pub fn castling_has_color(r: CastlingRights, c: Color) -> bool { r.has_color(c) }
pub fn castling_with(r: CastlingRights, c: Color, s: CastlingSide) -> CastlingRights { r.with(c, s) }
pub fn castling_without(r: CastlingRights, c: Color, s: CastlingSide) -> CastlingRights { r.without(c, s) }
pub fn castling_set(r: &mut CastlingRights, c: Color, s: CastlingSide) { r.set(c, s) }
pub fn castling_unset(r: &mut CastlingRights, c: Color, s: CastlingSide) { r.unset(c, s) }
pub fn castling_unset_color(r: &mut CastlingRights, c: Color) { r.unset_color(c) }
pub fn bb_ops(a: Bitboard, b: Bitboard, c: Coord) -> (Bitboard, Bitboard, Bitboard, Bitboard, bool, u32, bool) {
    (a & b, a | b, a ^ b, !a, a.has(c), a.len(), a.is_empty())
}
pub fn bb_assign_ops(a: &mut Bitboard, b: Bitboard, c: Coord) { *a &= b; *a |= b; *a ^= b; a.set(c); a.unset(c); }
pub fn bb_with(a: Bitboard, c: Coord) -> (Bitboard, Bitboard) { (a.with(c), a.without(c)) }
pub fn bb_from_coord(c: Coord) -> Bitboard { Bitboard::from_coord(c) }
pub fn bb_shifts(a: Bitboard, n: usize) -> (Bitboard, Bitboard) { (a.shl(n), a.shr(n)) }
pub fn bb_flips(a: Bitboard) -> (Bitboard, Bitboard) { (a.flipped_rank(), a.flipped_file()) }
pub fn bb_deposit(a: Bitboard, x: u64) -> Bitboard { a.deposit_bits(x) }
pub fn bb_iter(a: Bitboard) -> Vec<Coord> { a.into_iter().collect() }
pub fn bb_raw(a: Bitboard) -> (u64, Bitboard, u64, Bitboard) { (a.as_raw(), Bitboard::from_raw(1), u64::from(a), Bitboard::from(1u64)) }
pub fn bbc_rank(r: Rank) -> Bitboard { owlchess_base::bitboard_consts::rank(r) }
pub fn bbc_file(f: File) -> Bitboard { owlchess_base::bitboard_consts::file(f) }
pub fn geo_all(c: Color) -> (Rank, Rank, Rank, Rank, Rank, Rank, Rank, isize, isize, isize) {
    use owlchess_base::geometry::*;
    (castling_rank(c), double_move_src_rank(c), double_move_dst_rank(c), promote_src_rank(c), promote_dst_rank(c),
     enpassant_src_rank(c), enpassant_dst_rank(c), pawn_forward_delta(c), pawn_left_delta(c), pawn_right_delta(c))
}

// ---- direct Display roots (so that the formatter bodies themselves are walked)
macro_rules! display_root { ($($name:ident : $t:ty;)*) => { $(pub fn $name(x: &$t, f: &mut fmt::Formatter<'_>) -> fmt::Result { fmt::Display::fmt(x, f) })* } }
display_root! {
    disp_raw_board: RawBoard; disp_board: Board; disp_coord: Coord; disp_cell: Cell; disp_color: Color;
    disp_castling: CastlingRights; disp_file: File; disp_rank: Rank; disp_uci_move: uci::Move; disp_move: Move;
    disp_san_move: san::Move; disp_san_data: san::Data; disp_bitboard: Bitboard; disp_outcome: Outcome;
    disp_status: GameStatus; disp_draw_reason: DrawReason; disp_win_reason: WinReason;
    disp_styled_move: moves::StyledMove; disp_pretty: owlchess::board::Pretty<'_>;
    disp_uci_list: owlchess::chain::UciList<'_, HashRepeat>; disp_styled_list: owlchess::chain::StyledList<'_, HashRepeat>;
    disp_san_styled_move: san::StyledMove<'_>; disp_san_styled_data: san::StyledData<'_>;
}
