"""Rules on Zobrist keys, writers of Board's cached fields and the from-scratch hash (C05 H1, H3, H4, H6; C11 V3)."""
from .fx import FxBuilder, walk_tree, unstamp
from .expr import show, walk

BOARD = "owlchess::board::Board"
OWNERS = ("chess/src/board.rs", "chess/src/moves/base.rs")


def _rel(ctx, path):
    import os
    return os.path.relpath(path, ctx.repo) if path.startswith("/") else path


def board_field_writes(facts):
    """(fn, block, kind, field) for every store / mutable borrow / construction touching a Board field."""
    out = []
    for fn in facts.fns.values():
        if fn.krate not in ("owlchess", "owlchess_base"):
            continue
        body = fn.body

        def board_field(place):
            for el in place["p"]:
                if el[0] == "field" and el[3] == BOARD:
                    return el[2]
            return None
        for bi, si, s in body.iter_stmts():
            if s[0] == "assign":
                f = board_field(s[1])
                if f and s[1]["p"]:
                    out.append((fn, bi, "store", f))
                rv = s[2]
                if rv[0] == "ref" and rv[1]:
                    f = board_field(rv[2])
                    if f:
                        out.append((fn, bi, "&mut", f))
                if rv[0] == "rawptr" and "Mut" in str(rv[1]):
                    f = board_field(rv[2])
                    if f:
                        out.append((fn, bi, "&raw mut", f))
                if rv[0] == "agg" and rv[1].get("k") == "adt" and rv[1].get("path") == BOARD:
                    out.append((fn, bi, "construct", "*"))
        for bi, t in body.iter_terms():
            if t["k"] == "call":
                f = board_field(t["dest"])
                if f:
                    out.append((fn, bi, "store", f))
    return out


def writers_rule(ctx, facts, rid):
    r = ctx.rule(rid, "only board.rs and moves/base.rs write or mutably borrow Board's fields")
    ws = board_field_writes(facts)
    seen = set()
    for fn, bi, kind, field in ws:
        rel = _rel(ctx, fn.file)
        key = "%s/%s/%s" % (fn.def_path, kind, field)
        if key in seen:
            continue
        seen.add(key)
        r.check(rel in OWNERS, key, "%s (%s) %ss Board.%s - Board's cached fields may only be written by %s"
                % (fn.def_path, rel, kind, field, " and ".join(OWNERS)), site=ctx.site(fn, bi), what=key)
    r.floor(len(seen), 10, "writers of Board fields")
    adt = facts.adts.get(BOARD)
    if not adt:
        r.anchor_missing(BOARD)
    else:
        for f in adt["variants"][0]["fields"]:
            r.check(f["vis"] != "pub", "Board.%s visibility" % f["name"], "Board.%s is visible outside the crate" % f["name"],
                    what="Board.%s is %s" % (f["name"], f["vis"]))


def key_algebra_rule(ctx, facts, rid):
    r = ctx.rule(rid, "key algebra on the build's tables")
    try:
        raw = facts.table_u64("owlchess::zobrist::PIECES")
        cast = facts.table_u64("owlchess::zobrist::CASTLING")
    except KeyError as e:
        r.anchor_missing(str(e))
        return
    pieces = [raw[i * 64:(i + 1) * 64] for i in range(13)]
    r.check(len(raw) == 13 * 64, "PIECES/shape", "PIECES is not 13x64", what="PIECES shape 13x64")
    r.check(all(v == 0 for v in pieces[0]), "PIECES[EMPTY]", "PIECES[EMPTY][*] is not all zero: the code XORs the key of a possibly "
            "empty captured cell", what="PIECES[EMPTY][*] == 0")
    r.check(len(cast) == 16 and cast[0] == 0, "CASTLING[0]", "CASTLING[0] != 0", what="CASTLING[0] == 0")
    bad = [(a, b) for a in range(16) for b in range(16) if cast[a] ^ cast[b] != cast[a ^ b]]
    r.check(not bad, "CASTLING/linear", "CASTLING is not xor-linear: %s" % bad[:3], what="CASTLING[a]^CASTLING[b]==CASTLING[a^b] (256 pairs)")
    # precombined castling deltas = xor of the four piece keys of the squares the rules rewrite
    from .boardsim import sq, castling_rank_idx, cell, KING, ROOK
    for name, files in (("owlchess::zobrist::CASTLING_KINGSIDE", ((KING, 4), (KING, 6), (ROOK, 7), (ROOK, 5))),
                        ("owlchess::zobrist::CASTLING_QUEENSIDE", ((KING, 4), (KING, 2), (ROOK, 0), (ROOK, 3)))):
        try:
            tbl = facts.table_u64(name)
        except KeyError:
            r.anchor_missing(name)
            continue
        for c in (0, 1):
            want = 0
            for piece, f in files:
                want ^= pieces[cell(c, piece)][sq(f, castling_rank_idx(c))]
            r.check(len(tbl) == 2 and tbl[c] == want, "%s[%d]" % (name.split("::")[-1], c),
                    "%s[%d] = %#x is not the xor of the king/rook keys on the squares castling rewrites (%#x)"
                    % (name, c, tbl[c] if len(tbl) > c else 0, want), what="%s[%s]" % (name.split("::")[-1], "WB"[c]))


def key_distinct_rule(ctx, facts, rid):
    r = ctx.rule(rid, "a single-feature difference always changes the hash (key tables) and the counters are not hashed")
    try:
        raw = facts.table_u64("owlchess::zobrist::PIECES")
        cast = facts.table_u64("owlchess::zobrist::CASTLING")
        ep = facts.table_u64("owlchess::zobrist::ENPASSANT")
        side = facts.const_int("owlchess::zobrist::MOVE_SIDE")
    except KeyError as e:
        r.anchor_missing(str(e))
        return
    pieces = [raw[i * 64:(i + 1) * 64] for i in range(13)]
    for s in range(64):
        keys = [pieces[c][s] for c in range(13)]
        # one man differs on one square: key(c1,s) ^ key(c2,s) != 0 for all c1 != c2 (EMPTY included with key 0)
        r.check(len(set(keys)) == 13, "PIECES[*][%d]" % s, "two different cells have the same key on square %d" % s,
                what="13 cell keys pairwise distinct on square %d" % s)
    r.check(side != 0, "MOVE_SIDE", "MOVE_SIDE == 0: side to move would not be hashed", what="MOVE_SIDE != 0")
    r.check(len(set(cast)) == 16, "CASTLING/distinct", "two castling-rights sets have the same key (one right differing would not "
            "change the hash)", what="16 castling keys pairwise distinct")
    # en-passant marks live on ranks 5/4 (indices 24..39); a mark differs from no mark (key != 0) and from another file
    poss = [ep[i] for i in range(24, 40)]
    r.check(all(v != 0 for v in poss) and len(set(poss)) == 16, "ENPASSANT", "en-passant keys on ranks 4/5 are not distinct and non-zero",
            what="16 possible en-passant keys distinct and non-zero")
    # neither hash reads the counters
    fb = FxBuilder(facts)
    for name in ("owlchess::board::RawBoard::zobrist_hash",):
        fn = facts.fns.get(name)
        if fn is None:
            r.anchor_missing(name)
            continue
        reads = set()
        for bi, si, s in fn.body.iter_stmts():
            txt = repr(s)
            for f in ("move_counter", "move_number"):
                if "'%s'" % f in txt:
                    reads.add(f)
        r.check(not reads, name + "/counters", "%s reads %s" % (name, sorted(reads)), site=ctx.site(fn), what=name + " ignores both counters")


def from_scratch_rule(ctx, facts, rid):
    r = ctx.rule(rid, "from-scratch hash: same key families as the incremental code; validation hashes the normalised raw board")
    fn = facts.fns.get("owlchess::board::RawBoard::zobrist_hash")
    if fn is None:
        r.anchor_missing("owlchess::board::RawBoard::zobrist_hash")
    else:
        fb = FxBuilder(facts)
        tree = fb.tree(fn)
        got = {"side": None, "ep": False, "castling": False, "pieces": False}
        for n, conds, _inl in walk_tree(tree):
            if n[0] != "lstore" or n[3] != "hash":
                continue
            v = n[4]
            u = unstamp(v)
            if u[0] == "const":
                cs = [show(unstamp(c[0])) + "=" + str(c[1]) for c in conds]
                if len(conds) == 1 and show(unstamp(conds[0][0])) == "(0 Eq *self.side)":
                    white = conds[0][1] == "else"
                    got.setdefault("sidevals", {})[white] = u[1]
                continue
            txt = show(u)
            if "ENPASSANT[(*self.ep_source as Some)]" in txt and u[0] == "bin" and u[1] == "BitXor":
                if any(show(unstamp(c[0])) == "discr(*self.ep_source)" and c[1] == (1,) for c in conds):
                    got["ep"] = True
            if "CASTLING[*self.castling]" in txt and u[0] == "bin" and u[1] == "BitXor" and not conds:
                got["castling"] = True
            if txt.startswith("(PIECES[") and u[1] == "BitXor":
                got["pieces"] = True
        side = facts.const_int("owlchess::zobrist::MOVE_SIDE")
        sv = got.get("sidevals", {})
        if not (sv.get(True) == side and sv.get(False) == 0 and got["ep"] and got["castling"] and got["pieces"]):
            # other shapes (terms computed separately, iterator chains with closures): inventory of the key readers and their operands
            Z = "owlchess::zobrist::"
            fb2 = FxBuilder(facts, stop={Z + "pieces", Z + "enpassant", Z + "castling"})
            bodies = [fn] + [f for f in facts.fns.values() if f.kind == "Closure" and f.def_path.startswith(fn.def_path + "::{closure")]
            seen = {}
            for bfn in bodies:
                for n, conds, _inl in walk_tree(fb2.tree(bfn)):
                    if n[0] == "call" and (n[2] or "").startswith(Z):
                        seen.setdefault(n[2][len(Z):], []).append([show(unstamp(a)) for a in n[3]])
                    if n[0] == "call":
                        for a in n[3]:
                            ua = unstamp(a)
                            if ua[0] == "fn" and ua[1].startswith(Z):
                                seen.setdefault(ua[1][len(Z):], []).append([show(unstamp(x)) for x in n[3]])
                    if n[0] in ("ret", "lstore", "switch"):
                        for x in walk(unstamp(n[1] if n[0] != "lstore" else n[4])):
                            if x[0] == "const" and x[1] == side:
                                cs = [show(unstamp(c[0])) for c in conds] + [show(unstamp(n[1]))]
                                if any("self.side" in c for c in cs) or "self.side" in show(unstamp(n[1] if n[0] != "lstore" else n[4])):
                                    sv = {True: side, False: 0}
            txt_all = " ".join(show(unstamp(n[1])) for bfn in bodies for n, _c, _i in walk_tree(fb2.tree(bfn)) if n[0] == "ret")
            if any("ep_source" in " ".join(a) for a in seen.get("enpassant", [])):
                got["ep"] = True
            if any("self.castling" in " ".join(a) for a in seen.get("castling", [])):
                got["castling"] = True
            if seen.get("pieces"):
                got["pieces"] = True
            only_xor = not any(op in txt_all for op in (" BitOr ", " BitAnd ", " Add ", "wrapping_add"))
            if not only_xor:
                got["pieces"] = False
        r.check(sv.get(True) == side and sv.get(False) == 0, "scratch/side", "from-scratch hash does not start with MOVE_SIDE for White / 0 for Black: %s" % sv,
                site=ctx.site(fn), what="side term: White->MOVE_SIDE, Black->0 (make toggles MOVE_SIDE)")
        r.check(got["ep"], "scratch/ep", "from-scratch hash does not XOR ENPASSANT[ep_source] when a mark is set", site=ctx.site(fn), what="ENPASSANT[ep_source] iff Some")
        r.check(got["castling"], "scratch/castling", "from-scratch hash does not XOR CASTLING[castling] unconditionally", site=ctx.site(fn), what="CASTLING[castling]")
        r.check(got["pieces"], "scratch/pieces", "from-scratch hash does not XOR PIECES[cell][square] over the cells", site=ctx.site(fn), what="PIECES[cell][i] over all cells")
    # validation: hash = raw.zobrist_hash() computed after the last normalising write to raw
    tf = facts.fns.get("<owlchess::board::Board as core::convert::TryFrom<owlchess::board::RawBoard>>::try_from")
    if tf is None:
        r.anchor_missing("TryFrom<RawBoard> for Board")
        return
    body = tf.body
    hash_blocks = []
    for bi, t in body.calls():
        f = t["f"]
        if "inst" in f and facts.fns[f["inst"]].def_path == "owlchess::board::RawBoard::zobrist_hash":
            hash_blocks.append(bi)
    write_blocks = []
    for bi, si, s in body.iter_stmts():
        if s[0] == "assign":
            pl = s[1]
            if pl["l"] == 1 and pl["p"] and pl["p"][0][0] == "field":
                write_blocks.append((bi, pl["p"][0][2]))
            rv = s[2]
            if rv[0] == "ref" and rv[1] and rv[2]["l"] == 1 and rv[2]["p"] and rv[2]["p"][0][0] == "field":
                write_blocks.append((bi, rv[2]["p"][0][2]))
    r.check(len(hash_blocks) >= 1, "validate/hash-call", "validation does not compute the hash with RawBoard::zobrist_hash", site=ctx.site(tf),
            what="try_from calls raw.zobrist_hash()")
    for hb in hash_blocks:
        late = [(wb, f) for wb, f in write_blocks if wb != hb and body.reaches(hb, wb)]
        r.check(not late, "validate/hash-after-normalisation",
                "validation computes a hash from the raw board before normalising raw.%s: the stored hash would not match the "
                "normalised position" % (late[0][1] if late else ""), site=ctx.site(tf, hb), what="hash computed after all writes to raw")
    # the Board aggregate takes its hash directly from that call, and r from the same raw
    ok = False
    for bi, si, s in body.iter_stmts():
        if s[0] == "assign" and s[2][0] == "agg" and s[2][1].get("path") == BOARD:
            names = s[2][1]["fields"]
            ops = dict(zip(names, s[2][2]))
            h = ops.get("hash")
            hp = (h.get("m") or h.get("c")) if h else None
            if hp and not hp["p"]:
                # the operand local must be the destination of a zobrist_hash call
                for hb in hash_blocks:
                    d = body.blocks[hb]["term"]["dest"]
                    if d["l"] == hp["l"] and not d["p"]:
                        ok = True
    r.check(ok, "validate/hash-field", "the validated board's hash field is not the result of raw.zobrist_hash()", site=ctx.site(tf),
            what="Board.hash = raw.zobrist_hash()")
