"""Repository-specific configuration of the abstract interpreter (rules/absint.py): reviewed invariants,
their justification, and the assumptions under which position-dependent code is analysed."""
from .absint import Analyzer
from .genrules import wf_ref

# Declared linear loop invariants (checked to be inductive before use): target == sum(coef * var) + const
LINEAR = {
    ("owlchess::board::parse_cells", None): ("pos", {"rank": 8, "file": 1}),
}

MAGIC_FNS = ("owlchess::attack::bishop", "owlchess::attack::rook")

# Obligations that are not decided by interval reasoning but follow from an invariant established elsewhere.
# key: (kind, what, function containing the site) -> (class, reason). Class "board": relies on the validity of
# a Board received from outside; never applied inside a function that builds a Board.
ASSUMED = {
    ("panic", "unwrap", "owlchess::board::Board::king_pos"):
        ("board", "A-KING: every Board has exactly one king per side (validator checks it, C11; make/unmake never remove a king from a valid position, C02)"),
    ("assert", "overflow", "<owlchess::chain::HashRepeat as owlchess::chain::Repeat>::push"):
        ("api", "A-COUNT: the occurrence counter of a position counts entries of the chain's move stack (a Vec, at most isize::MAX bytes): "
                "it cannot reach usize::MAX"),
    ("assert", "overflow", "<owlchess::chain::HashRepeat as owlchess::chain::Repeat>::push::{closure#0}"):
        ("api", "A-COUNT (the same increment written as a closure handed to Entry::and_modify)"),
    ("panic", "panic", "owlchess::chain::BaseMoveChain::<R>::push"):
        ("api", "A-UNFINISHED: push() asserts that the game outcome is unset; that is a state precondition of the chain API (set_outcome documents it, "
                "push_unchecked states it as contract) and does not depend on the text being parsed"),
}


def move_invariant():
    """Per move kind: hull of the source and destination squares of well-formed moves (reference of C06/WF,
    which is shown there to coincide with Move::is_well_formed)."""
    inv = {}
    for kind in range(10):
        srcs, dsts = set(), set()
        for c in range(13):
            for s in range(64):
                for d in range(64):
                    if wf_ref(kind, c, s, d):
                        srcs.add(s)
                        dsts.add(d)
        if srcs:
            inv[kind] = ((min(srcs), max(srcs)), (min(dsts), max(dsts)))
    return inv


_MOVE_INV = None


class RepoAnalyzer(Analyzer):
    def __init__(self, facts, kinds=("assert", "panic", "unsafe", "model"), c15_ok=True, capacity_ok=None, **kw):
        super().__init__(facts, kinds=kinds, linear_invariants=LINEAR, **kw)
        global _MOVE_INV
        if _MOVE_INV is None:
            _MOVE_INV = move_invariant()
        self.move_inv = _MOVE_INV
        self.move_gated = {"owlchess::moves::base::Move::new"}
        self.ep_inv = (24, 39)
        self.agg_watch = ("owlchess::moves::base::Move", "owlchess::board::Board", "owlchess::moves::base::RawUndo")
        self.assumed = dict(ASSUMED)
        self.c15_ok = c15_ok
        self.capacity_ok = capacity_ok
        self.board_builders = set()
        for fn in facts.fns.values():
            if fn.def_path.endswith("Clone>::clone"):
                continue
            for b in fn.body.blocks:
                for s in b["stmts"]:
                    if s[0] == "assign" and s[2][0] == "agg" and s[2][1].get("path") == "owlchess::board::Board":
                        self.board_builders.add(fn.def_path)

    # magic-bitboard pointer arithmetic: in-bounds offsets are the subject of C15 (proof); here only the
    # location is checked - any other pointer arithmetic is an open obligation
    @staticmethod
    def _in_magic(unit, n, chain):
        # in attack::rook/bishop themselves, or in an unsafe helper spliced into them (the formula C15/T3 compares is the spliced one)
        return n[4].fn.def_path in MAGIC_FNS or unit.fn.def_path in MAGIC_FNS or any(
            (c[1] if isinstance(c, tuple) and len(c) > 1 else c) in MAGIC_FNS or
            str(c[1] if isinstance(c, tuple) and len(c) > 1 else c).split("::<")[0] in MAGIC_FNS for c in chain)

    def ptr_add(self, unit, n, args, st, chain):
        ok = self.c15_ok and self._in_magic(unit, n, chain)
        unit.oblige("unsafe", "ptr::add", n[4], chain, ok, "offset bound: C15 rules T1-T4")

    def ptr_assert(self, unit, n, st, chain):
        ok = self.c15_ok and self._in_magic(unit, n, chain)
        unit.oblige("unsafe", "pointer " + n[1], n[4], chain, ok, "pointer into a static table at an in-bounds offset (C15)")

    def push_unchecked(self, unit, n, args, st, chain):
        ok = bool(self.capacity_ok)
        unit.oblige("unsafe", "push_unchecked", n[4], chain, ok,
                    "A256: no valid position has more than 256 semilegal moves; capacity rule U6")


def total_roots_rule(ctx, facts, rid, roots, desc, kinds=("assert", "panic", "unsafe", "model")):
    """Each listed entry point (roots crate wrapper -> API name) reaches no assertion, panic or unsafe precondition."""
    r = ctx.rule(rid, desc)
    an = RepoAnalyzer(facts, kinds=kinds, capacity_ok=True)
    for root, api in roots:
        if root not in facts.fns:
            r.anchor_missing("root " + root)
            continue
        try:
            u = an.analyse(root)
        except RuntimeError as ex:
            r.fail("BUDGET " + root, "analysis budget exceeded for %s (%s)" % (api, ex))
            continue
        opens = [o for o in u.open.values() if o.kind in an.kinds]
        seen = set()
        for o in opens:
            k = "%s %s in %s [%s]" % (o.kind, o.what, o.site.fn.def_path, root)
            if k in seen:
                continue
            seen.add(k)
            chain = " > ".join(c[1].split("::")[-1] for c in o.chain) or "-"
            r.fail(k, "%s: %s `%s` can be reached (%s); call path: %s" % (api, o.kind, o.what, o.detail[:200], chain),
                   ctx.site(o.site.fn, o.site.bi))
        if not opens:
            reach = an.reachable([root])
            n = sum(len(an.summary[f].done) for f in reach if f in an.summary)
            r.ok("%s (%s)" % (api, root), {"reachable_functions": len(reach), "obligations_discharged": n})
    for k, n in sorted(an.assumed_used.items()):
        ctx.assume("%s %s in %s: %s" % (k[0], k[1], k[2], ASSUMED[k][1]))
    return an
