"""UCI rules (C10 X1-X5)."""
from itertools import product

from .fx import FxBuilder, tree_paths, walk_tree, unstamp, path_value
from .expr import show, walk
from .teval import TreeEval, Unsupported, Panic
from .apirules import API_STOP, PathFacts, norm_val, SEMI_VALIDATE, VALIDATE
from .boardsim import cell, sq, castling_rank_idx, PAWN, KING, KNIGHT, WHITE, BLACK, KINDS
from .genrules import wf_ref

B = "owlchess::moves::base::"
U = "owlchess::moves::uci::"
MK = B + "MoveKind"
PP = B + "PromotePiece"
PIECE = "owlchess_base::types::Piece"
OPT = "core::option::Option"


def _ret_const(facts, fn, env):
    fb = FxBuilder(facts)
    ret = [x[1] for x in fb.tree(fn, env=env) if x[0] == "ret"]
    return unstamp(ret[0]) if ret else None


def conversions_rule(ctx, facts, rid):
    r = ctx.rule(rid, "MoveKind <-> PromotePiece <-> Piece conversions are mutually inverse; '0000' <-> Null; promotion letters n/b/r/q")
    pp = {v["name"]: v["discr"] for v in facts.adts[PP]["variants"]}
    mk = {v["name"]: v["discr"] for v in facts.adts[MK]["variants"]}
    pc = {v["name"]: v["discr"] for v in facts.adts[PIECE]["variants"]}
    f_pp_mk = facts.fns.get("<%s as core::convert::From<%s>>::from" % (MK, PP))
    f_mk_pp = facts.fns.get("<%s as core::convert::TryFrom<%s>>::try_from" % (PP, MK))
    f_pp_pc = facts.fns.get("owlchess::moves::base::<impl core::convert::From<%s> for %s>::from" % (PP, PIECE))
    f_pc_pp = facts.fns.get("<%s as core::convert::TryFrom<%s>>::try_from" % (PP, PIECE))
    for nm, f in (("From<PromotePiece> for MoveKind", f_pp_mk), ("TryFrom<MoveKind> for PromotePiece", f_mk_pp),
                  ("From<PromotePiece> for Piece", f_pp_pc), ("TryFrom<Piece> for PromotePiece", f_pc_pp)):
        if f is None:
            r.anchor_missing(nm)
            return
    for name, d in pp.items():
        v = _ret_const(facts, f_pp_mk, [("const", d, PP)])
        r.check(v == ("const", mk["Promote" + name], MK), "PromotePiece::%s -> MoveKind" % name, "MoveKind::from(PromotePiece::%s) = %s" % (name, show(v)),
                what="MoveKind::from(%s) = Promote%s" % (name, name))
        v = _ret_const(facts, f_pp_pc, [("const", d, PP)])
        r.check(v == ("const", pc[name], PIECE), "PromotePiece::%s -> Piece" % name, "Piece::from(PromotePiece::%s) = %s" % (name, show(v)),
                what="Piece::from(%s) = %s" % (name, name))
    for name, d in mk.items():
        v = _ret_const(facts, f_mk_pp, [("const", d, MK)])
        if name.startswith("Promote"):
            want = ("agg", "core::result::Result", "Ok", (("const", pp[name[len("Promote"):]], PP),))
        else:
            want = None
        ok = (v == want) if want else (v is not None and v[0] == "agg" and v[2] == "Err")
        r.check(ok, "MoveKind::%s -> PromotePiece" % name, "PromotePiece::try_from(MoveKind::%s) = %s" % (name, show(v)), what="try_from(MoveKind::%s)" % name)
    for name, d in pc.items():
        v = _ret_const(facts, f_pc_pp, [("const", d, PIECE)])
        if name in pp:
            ok = v == ("agg", "core::result::Result", "Ok", (("const", pp[name], PP),))
        else:
            ok = v is not None and v[0] == "agg" and v[2] == "Err"
        r.check(ok, "Piece::%s -> PromotePiece" % name, "PromotePiece::try_from(Piece::%s) = %s" % (name, show(v)), what="try_from(Piece::%s)" % name)
    # uci::Move::from(Move): Null -> Null; else Move{src, dst, promote: kind.try_into().ok()}
    fn = facts.fns.get("<%sMove as core::convert::From<%sMove>>::from" % (U, B))
    if fn is None:
        r.anchor_missing("From<Move> for uci::Move")
    else:
        for name, d in mk.items():
            mv = ("agg", B + "Move", "Move", (("const", d, MK), ("sym", "c"), ("sym", "S"), ("sym", "D")))
            v = _ret_const(facts, fn, [mv])
            if name == "Null":
                ok = v is not None and v[0] == "agg" and v[2] == "Null"
            else:
                prom = ("agg", OPT, "Some", (("const", pp[name[len("Promote"):]], PP),)) if name.startswith("Promote") else ("agg", OPT, "None", ())
                ok = v == ("agg", U + "Move", "Move", (("sym", "S"), ("sym", "D"), prom))
            r.check(ok, "uci::Move::from(kind=%s)" % name, "uci::Move::from(Move{kind: %s, ..}) = %s" % (name, show(v)), site=ctx.site(fn),
                    what="uci::Move::from(%s)" % name)
    # letters: writer (Display) and reader (FromStr)
    letters = {"n": "Knight", "b": "Bishop", "r": "Rook", "q": "Queen"}
    disp = facts.fns.get("<%sMove as core::fmt::Display>::fmt" % U)
    if disp is None:
        r.anchor_missing("Display for uci::Move")
    else:
        # what Display writes, by evaluating its model (whatever the shape: one write per letter, a chosen suffix, a table)
        from .machine import run_function, Stuck
        from .teval import Unsupported, Panic
        got = {}
        null_txt = None
        UM = U + "Move" if not U.endswith("Move") else U
        try:
            null_txt = "".join(run_function(facts, disp, {1: ("agg", "Null", (), UM)}, deref_self=True)[1])
            for dv in sorted(pp.values()):
                t_ = "".join(run_function(facts, disp, {1: ("agg", "Move", (52, 36, ("agg", "Some", (dv,))), UM)}, deref_self=True)[1])
                t0 = "".join(run_function(facts, disp, {1: ("agg", "Move", (52, 36, ("agg", "None", ())), UM)}, deref_self=True)[1])
                if t_.startswith(t0) and len(t_) == len(t0) + 1:
                    got[dv] = t_[len(t0):]
                else:
                    got[dv] = t_
        except (Stuck, Unsupported, Panic) as ex:
            got = {"not evaluable": str(ex)[:80]}
        want = {pp[v]: k for k, v in letters.items()}
        r.check(got == want and null_txt == "0000", "uci-writer-letters", "uci::Move Display writes promotion letters %s (expected %s) and null as %r"
                % (got, want, null_txt), site=ctx.site(disp), what="writer: n/b/r/q, null = 0000")
    rd = facts.fns.get("<%sMove as core::str::traits::FromStr>::from_str" % U)
    if rd is None:
        r.anchor_missing("FromStr for uci::Move")
    else:
        fb = FxBuilder(facts, stop={"<owlchess_base::types::Coord as core::str::traits::FromStr>::from_str"})
        tree = fb.tree(rd)
        got = {}
        for n_, conds, _i in walk_tree(tree):
            if n_[0] == "ret":
                v = unstamp(n_[1])
                if v[0] == "agg" and v[2] == "Ok" and v[3][0][0] == "agg" and v[3][0][2] == "Move":
                    prom = v[3][0][3][2]
                    if prom[0] == "agg" and prom[2] == "Some":
                        val = prom[3][0]
                        if val[0] == "phi":
                            for lab, x in val[3]:
                                if x[0] == "const" and lab != "else":
                                    for code in lab:
                                        got[chr(code)] = x[1]
                        elif val[0] == "const":
                            for d, lab, _cv in conds:
                                if "as_bytes(s)[4]" in show(unstamp(d)) and lab != "else":
                                    for code in lab:
                                        got[chr(code)] = val[1]
        if not got:
            # shape-independent fallback: a switch on a byte whose cases are ASCII letters and whose branches produce PromotePiece constants
            def consts_of(sub):
                out = set()
                for m, _c, _i in walk_tree(sub):
                    if m[0] in ("ret", "lstore"):
                        for x in walk(unstamp(m[1] if m[0] == "ret" else m[4])):
                            if x[0] == "const" and isinstance(x[2], str) and x[2].endswith("PromotePiece"):
                                out.add(x[1])
                return out
            phis = {}
            for n_, conds, _i in walk_tree(tree):
                if n_[0] == "ret":
                    for x in walk(n_[1]):
                        if x[0] == "phi":
                            phis.setdefault(x[1], []).append(x)
            for n_, conds, _i in walk_tree(tree):
                if n_[0] == "switch" and n_[4] and all(isinstance(v, int) and 65 <= v <= 122 for v in n_[4]):
                    for lab, sub in n_[2].items():
                        if lab == "else":
                            continue
                        cs = consts_of(sub)
                        for ph in phis.get(n_[5], ()):
                            for l2, v2 in ph[3]:
                                if l2 == lab:
                                    for x in walk(unstamp(v2)):
                                        if x[0] == "const" and isinstance(x[2], str) and x[2].endswith("PromotePiece"):
                                            cs.add(x[1])
                        if len(cs) == 1:
                            for code in lab:
                                got[chr(code)] = next(iter(cs))
        want = {k: pp[v] for k, v in letters.items()}
        r.check(got == want, "uci-reader-letters", "uci::Move::from_str reads promotion letters %s, expected %s" % (got, want), site=ctx.site(rd),
                what="reader: n/b/r/q")


def readers_rule(ctx, facts, rid):
    r = ctx.rule(rid, "from_uci_semilegal / from_uci_legal succeed only after semi_validate / validate of the converted move on the same board")
    for name, need in ((B + "Move::from_uci_semilegal", "semilegal"), (B + "Move::from_uci_legal", "legal")):
        fn = facts.fns.get(name)
        if fn is None:
            r.anchor_missing(name)
            continue
        stop = (set(API_STOP) - {name}) | {"<%sMove as core::str::traits::FromStr>::from_str" % U}
        fb = FxBuilder(facts, stop=stop)
        tree = fb.tree(fn)
        b = ("param", 2, fn.body.names.get(2, "_2"))
        n_ok = 0
        for events, choices in tree_paths(tree):
            if events[-1][0] != "ret":
                continue
            pf = PathFacts(events, choices)
            ret = unstamp(pf.ret)
            if ret[0] == "agg" and ret[2] == "Ok":
                n_ok += 1
                mv = norm_val(ret[3][0])
                lst = pf.semilegal if need == "semilegal" else pf.legal
                ok = any(m == mv and bb == b for m, bb in lst)
                s = repr(mv)
                from_conv = "uci::Move::into_move" in s and "FromStr>::from_str" in s
                r.check(ok and from_conv, name.split("::")[-1], "%s returns Ok(%s) without a successful %s on (that move, b), or the move is not "
                        "the conversion of the parsed text" % (name, s, "semi_validate" if need == "semilegal" else "validate"),
                        site=ctx.site(fn), what="%s: Ok only after %s" % (name.split("::")[-1], need))
        r.check(n_ok == 1, name.split("::")[-1] + "/paths", "%s has %d Ok paths" % (name, n_ok), site=ctx.site(fn), what="one Ok path")


def null_rule(ctx, facts, rid):
    r = ctx.rule(rid, "the null move is never semilegal")
    for col in ("White", "Black"):
        fn = facts.fns.get(B + "do_is_move_semilegal::<owlchess::generic::%s>" % col)
        if fn is None:
            r.anchor_missing("do_is_move_semilegal::<%s>" % col)
            continue
        mv = ("agg", B + "Move", "Move", (("const", 0, MK), ("sym", "c"), ("sym", "S"), ("sym", "D")))
        fb = FxBuilder(facts, stop={"owlchess::movegen::do_is_cell_attacked"})
        tree = fb.tree(fn, env=[("param", 1, "b"), mv])
        rets = [unstamp(path_value(ev[-1][1], ch)) for ev, ch in tree_paths(tree) if ev[-1][0] == "ret"]
        r.check(bool(rets) and all(v == ("const", 0, "bool") for v in rets), "null-not-semilegal/" + col,
                "do_is_move_semilegal::<%s> can return %s for MoveKind::Null" % (col, [show(v) for v in rets if v != ("const", 0, "bool")][:2]),
                site=ctx.site(fn), what="Null -> false on all %d paths (%s)" % (len(rets), col))


def ref_kind(C, c, s, d, promote, dst_free):
    """Kind a UCI string must denote, given the board (independent statement of UCI semantics)."""
    col = None if c == 0 else (WHITE if c <= 6 else BLACK)
    if col != C:
        return "err"
    if promote is not None:
        return 6 + promote - 2   # PromotePiece Knight=2..Queen=5 -> MoveKind 6..9
    piece = (c - 1) % 6
    sf, sr, df, dr = s & 7, s >> 3, d & 7, d >> 3
    if piece == PAWN:
        home, dbl = (6, 4) if C == WHITE else (1, 3)
        if sr == home and dr == dbl:
            return 4
        if sf != df and dst_free:
            return 5
        return 1
    if piece == KING:
        rk = castling_rank_idx(C)
        if s == sq(4, rk):
            if d == sq(6, rk):
                return 2
            if d == sq(2, rk):
                return 3
    return 1


def could_be_semilegal(kind, c, s, d, dst_free, ep=27):
    """Necessary conditions for a move of this kind to be semilegal at all (well-formed and consistent with the occupancy of
    the destination): inferred kinds that both fail them are equivalent - every reader rejects them."""
    if not wf_ref(kind, c, s, d):
        return False
    piece = (c - 1) % 6 if c else None
    if piece == PAWN:
        straight = (s & 7) == (d & 7)
        if kind == 5:
            # an en passant capture needs the mark on the pawn standing behind the destination
            fwd_ = -8 if c <= 6 else 8
            return dst_free and ep is not None and ep == d - fwd_
        return straight == dst_free
    if kind in (2, 3):
        return dst_free
    return True


def inference_rule(ctx, facts, rid, thorough=False):
    r = ctx.rule(rid, "UCI kind inference: double step, en passant (diagonal to an empty square), castling (king e->g/c on its rank), "
                      "promotion letter, otherwise simple - tabulated over cells x squares x promotion x destination occupancy")
    pp = {v["name"]: v["discr"] for v in facts.adts[PP]["variants"]}
    total = 0
    for C, col in ((WHITE, "White"), (BLACK, "Black")):
        fn = facts.fns.get(U + "Move::do_into_move::<owlchess::generic::%s>" % col)
        if fn is None:
            r.anchor_missing("uci::Move::do_into_move::<%s>" % col)
            continue
        cells = range(13) if thorough else (0, cell(WHITE, PAWN), cell(BLACK, PAWN), cell(WHITE, KING), cell(BLACK, KING), cell(C, KNIGHT))
        proms = [None] + sorted(pp.values()) if thorough else [None, pp["Queen"], pp["Knight"]]
        for prom in proms:
            pe = ("agg", OPT, "None", ()) if prom is None else ("agg", OPT, "Some", (("const", prom, PP),))
            mv = ("agg", U + "Move", "Move", (("sym", "S"), ("sym", "D"), pe))
            fb = FxBuilder(facts, stop={B + "Move::new"})
            tree = fb.tree(fn, env=[("ref", mv), ("param", 2, "b")])
            bad = None
            reads_ep = "ep_source" in repr(tree)
            from .machine import Machine, Stuck
            fwd = -8 if C == WHITE else 8
            ep_rank = 3 if C == WHITE else 4          # rank index of a pawn that has just double-stepped, seen by the side to move
            for c in cells:
                for dst_free, epmode in product((True, False), ("none", "left", "right", "behind")):
                    cur = {}

                    def mem(pe_, te, c=c, dst_free=dst_free, cur=cur):
                        t_ = show(unstamp(pe_)) if pe_[0] != "tbl" else ""
                        if pe_[0] in ("tbl", "index") and show(unstamp(pe_[1])).endswith("b.r.cells"):
                            idx = te.ev(pe_[2])
                            if idx == te.syms["S"]:
                                return c
                            if idx == te.syms["D"]:
                                return 0 if dst_free else 13   # 13 = "some man", only tested for emptiness
                            if cur.get("ep") is not None and idx == cur["ep"]:
                                return cell(1 - C, PAWN)
                            return 0
                        if pe_[0] == "downcast" and pe_[2] == "Some" and show(unstamp(pe_[1])).endswith("ep_source"):
                            if cur.get("ep") is None:
                                raise Unsupported("payload of an absent en-passant mark")
                            return cur["ep"]
                        if t_.endswith("ep_source"):
                            # the kind of a move never depends on the en-passant mark: marks next to the source, behind the
                            # destination and elsewhere are all tried
                            return ("agg", "None", ()) if cur.get("ep") is None else ("agg", "Some", (cur["ep"],))
                        if t_.endswith(".side"):
                            return C
                        raise Unsupported("memory read " + show(pe_))
                    te = Machine(facts, tree, mem=mem)
                    te.opaque = (B + "Move::new",)
                    try:
                        for s in range(64):
                            for d in range(64):
                                if s == d:
                                    continue
                                ep = {"none": None, "fixed": 8 * ep_rank + 3, "left": s - 1, "right": s + 1, "behind": d - fwd}[epmode]
                                if ep is not None and (not (0 <= ep <= 63) or (ep >> 3) != ep_rank or ep in (s, d)):
                                    continue          # not a mark a valid position can carry here
                                cur["ep"] = ep
                                te.reset()
                                te.mem = mem
                                te.syms = {"S": s, "D": d}
                                res = te.start()
                                total += 1
                                v = res[1] if res and res[0] == "ret" else None
                                if isinstance(v, tuple) and v[0] == "opaque":
                                    got = v[2][0]
                                    okargs = v[2][1:] == (c, s, d)
                                elif isinstance(v, tuple) and v[0] == "agg" and v[1] == "Err":
                                    got, okargs = "err", True
                                else:
                                    got, okargs = "?", False
                                want = ref_kind(C, c, s, d, prom, dst_free)
                                # Move::new refuses tuples that are not well-formed: kinds that both lead to a refusal are equivalent
                                eff_got = got if (isinstance(got, int) and could_be_semilegal(got, c, s, d, dst_free, ep)) else "rejected"
                                eff_want = want if (isinstance(want, int) and could_be_semilegal(want, c, s, d, dst_free, ep)) else "rejected"
                                if (eff_got != eff_want or not okargs) and bad is None:
                                    bad = (c, s, d, dst_free, got, want, ep)
                    except (Unsupported, Panic, Stuck) as e:
                        bad = (c, -1, -1, dst_free, "not evaluable: %r" % (e,), "")
                    if bad:
                        break
                if bad:
                    break
            key = "uci-kind/%s/promote=%s" % (col, prom)
            r.check(bad is None, key, "uci into_move::<%s> (promote=%s): cell %s from %s to %s (destination %s, en-passant mark %s) gives kind %s, expected %s"
                    % ((col, prom) + ((bad[0], bad[1], bad[2], "empty" if bad[3] else "occupied", "set" if (len(bad) > 6 and bad[6]) else "unset",
                                       KINDS.get(bad[4], bad[4]), KINDS.get(bad[5], bad[5])) if bad else (0, 0, 0, 0, 0, 0, 0))),
                    site=ctx.site(fn), what=key)
    ctx.extra["uci_inference_points"] = total
    # dispatch on the side to move
    fn = facts.fns.get(U + "Move::into_move")
    if fn is None:
        r.anchor_missing("uci::Move::into_move")
    else:
        fb = FxBuilder(facts, stop={U + "Move::do_into_move"})
        tree = fb.tree(fn)
        found = {}
        for n_, conds, _i in walk_tree(tree):
            if n_[0] == "call" and n_[2] == U + "Move::do_into_move" and len(conds) == 1 and show(unstamp(conds[0][0])) == "discr(*b.r.side)":
                for v in (conds[0][1] if conds[0][1] != "else" else ()):
                    found[v] = n_[1]
        ok = found.get(0, "").endswith("<owlchess::generic::White>") and found.get(1, "").endswith("<owlchess::generic::Black>")
        r.check(ok, "uci::into_move/dispatch", "uci::Move::into_move does not dispatch on the side to move: %s" % found, site=ctx.site(fn),
                what="into_move dispatches on b.side")
