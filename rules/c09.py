"""C09 - SAN output is standard; SAN input resolves only to the legal move it describes."""
from . import shared
from . import sanrules, outcomerules, textrules, attackrules


def run(ctx):
    facts = ctx.facts("dev")
    ctx.decided += [
        "S4 the squares of a move that into_move constructs itself are functions of the text (and the side to move) only, and only the "
        "variants that spell out the squares (Uci, Castling, PawnMove, PawnCapture) may be constructed directly - Simple and "
        "PawnCaptureShort always go through the searcher that filters by the written file/rank hints (S2)",
        "S1 parse soundness: san::Data::into_move returns Ok(mv) only after mv.validate(b) on the same board, or as the result of a searcher "
        "fed exactly once by san_candidates / san_pawn_capture_candidates, which run the generator into a LegalFilter",
        "S2 hints honoured: AmbigSearcher::new builds FULL & file & rank for all 81 hint combinations; push ignores moves whose source is "
        "outside the mask; Empty->Found->Ambiguity; get_move = NotFound / Ok / Ambiguity",
        "S3 formatting tables: AmbigDetector::{file,rank} over the 8 flag combinations = standard minimal disambiguation; flags come from other "
        "legal candidates only; check mark '+'/'#'/none from (in check, has legal moves) of the successor position; capture = destination occupied",
    ]
    ctx.not_decided += ["that the produced text is *the* standard notation of the move, injectivity and the text round trip (value level); "
                        "letter tables are under C12/P2"]
    sanrules.producer_rule(ctx, facts, "S1")
    sanrules.searcher_rule(ctx, facts, "S2")
    sanrules.from_move_rule(ctx, facts, "S3")
    sanrules.text_faithful_rule(ctx, facts, "S4")
    ctx.decided += [
        "S5 the '#' mark is `is_check && !has_legal_moves` on the position after the move, and has_legal_moves runs every emitter of the full "
        "generator except castling (a position whose only reply comes from a dropped emitter would be printed as mate) (= C07/O3 re-run)",
    ]
    ctx.decided += [
        "S1p/S1c the filter behind the searcher-fed SAN forms (piece moves, abbreviated pawn captures) is LegalFilter with the default "
        "prechecker: its shortcut is never taken by an en passant capture, and the exact test examines the king after the move (= C01/N2, N4 "
        "re-run) - these forms are not validated again afterwards",
    ]
    ctx.decided.append("S7 every move the SAN readers construct without the checked constructor (the candidates of the searcher-fed forms) "
                       "has its squares inside the hull of well-formed moves of its kind, for every text and valid position (abstract "
                       "interpreter: the unsafe construction obligations of C19 on the SAN entry points)")
    from .aisetup import total_roots_rule
    total_roots_rule(ctx, facts, "S7", [("move_from_san", "Move::from_san"), ("make_san_move", "san::Move::make"),
                                         ("make_san_str", "San(&str)::make")],
                     "moves built by the SAN readers with the unchecked constructor are inside the well-formed hull of their kind",
                     kinds=("unsafe", "model"))
    attackrules.prechecker_rule(ctx, facts, "S1p")
    attackrules.checker_rule(ctx, facts, "S1c")
    attackrules.pinned_rule(ctx, facts, "S1n")
    outcomerules.has_legal_moves_rule(ctx, facts, "S5")
    ctx.decided += [
        "S6 the text level: the model of Display for san::Move, evaluated on castling, pawn moves and captures (promotions on the last ranks), "
        "piece moves with all 81 combinations of origin hints x capture mark (quick: 5 destinations, thorough: all 64) and each check mark, "
        "writes standard algebraic notation (letter, hints file-then-rank, x, square, =Q, O-O/O-O-O, +/#), and the model of FromStr reads "
        "every such text back as the same value - so what from_move produces is what from_str hands to into_move",
    ]
    textrules.san_text_rule(ctx, facts, "S6", ctx.tier == "thorough")
