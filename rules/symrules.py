"""Symmetry rules (C18 Y1-Y4)."""
from . import geom
from .fx import FxBuilder, walk_tree, unstamp
from .expr import Builder, N, show, match
from .boardsim import WHITE, BLACK

T = "owlchess_base::types::"
POSITION_LOGIC = ("owlchess::movegen", "owlchess::legal", "owlchess::moves::base", "owlchess::pawns", "owlchess::castling",
                  "owlchess::attack", "owlchess::between")

# colour branches in position logic that are representation / bookkeeping, each checked elsewhere (one line of reason each)
REVIEWED_COLOUR_BRANCHES = {
    "owlchess::attack::pawn": "selects WHITE/BLACK_PAWN_ATTACKS; the two tables are rank mirrors (Y1 data)",
    "owlchess::pawns::advance_forward": "shr/shl 8 pair; mirror checked by tabulation (Y1)",
    "owlchess::pawns::advance_left": "shr 9 / shl 7 pair; mirror checked by tabulation (Y1)",
    "owlchess::pawns::advance_right": "shr 7 / shl 9 pair; mirror checked by tabulation (Y1)",
    "owlchess::castling::offset": "56 / 0 = first square of the castling rank; checked (C03/A3, Y1)",
    "owlchess::moves::base::Move::is_well_formed": "pawn direction by colour; tabulated exhaustively against geometry (C06/WF)",
    "owlchess::moves::base::make_move_unchecked": "dispatch (Y2)",
    "owlchess::moves::base::unmake_move_unchecked": "dispatch, inverted by design: the side to move after a move is the opponent (Y2)",
    "owlchess::moves::base::Move::is_semilegal": "dispatch (Y2)",
    "owlchess::movegen::is_cell_attacked": "dispatch (Y2)",
    "owlchess::movegen::cell_attackers": "dispatch (Y2)",
    "owlchess::movegen::has_legal_moves": "dispatch (Y2)",
    "owlchess::movegen::san_candidates": "dispatch (Y2)",
    "owlchess::movegen::san_pawn_capture_candidates": "dispatch (Y2)",
    "owlchess::movegen::semilegal::gen_all_into": "dispatch (Y2)",
    "owlchess::movegen::semilegal::gen_capture_into": "dispatch (Y2)",
    "owlchess::movegen::semilegal::gen_simple_into": "dispatch (Y2)",
    "owlchess::movegen::semilegal::gen_simple_no_promote_into": "dispatch (Y2)",
    "owlchess::movegen::semilegal::gen_simple_promote_into": "dispatch (Y2)",
}
INVERTED_DISPATCH = {"owlchess::moves::base::unmake_move_unchecked"}


def data_rule(ctx, facts, rid):
    r = ctx.rule(rid, "attack tables, pawn advances and castling constants of Black are the rank mirrors of White's; all are file-symmetric")
    try:
        wp = facts.table_u64("owlchess::attack::WHITE_PAWN_ATTACKS")
        bp = facts.table_u64("owlchess::attack::BLACK_PAWN_ATTACKS")
        kg = facts.table_u64("owlchess::attack::KING_ATTACKS")
        kn = facts.table_u64("owlchess::attack::KNIGHT_ATTACKS")
    except KeyError as e:
        r.anchor_missing(str(e))
        return
    for s in range(64):
        fs = s ^ 56
        r.check(bp[fs] == geom.flip_rank(wp[s]), "pawn-attacks/rank-mirror/%s" % geom.name(s),
                "BLACK_PAWN_ATTACKS[%s] is not the rank mirror of WHITE_PAWN_ATTACKS[%s]" % (geom.name(fs), geom.name(s)),
                what="BLACK_PAWN_ATTACKS[flip(%s)] = flip(WHITE_PAWN_ATTACKS[%s])" % (geom.name(s), geom.name(s)))
    for name, tbl in (("KING", kg), ("KNIGHT", kn), ("WHITE_PAWN", wp), ("BLACK_PAWN", bp)):
        okf = all(tbl[s ^ 7] == geom.flip_file(tbl[s]) for s in range(64))
        r.check(okf, name + "/file-mirror", "%s_ATTACKS is not symmetric under the left-right mirror" % name, what=name + "_ATTACKS file-symmetric")
    for name, tbl in (("KING", kg), ("KNIGHT", kn)):
        okr = all(tbl[s ^ 56] == geom.flip_rank(tbl[s]) for s in range(64))
        r.check(okr, name + "/rank-mirror", "%s_ATTACKS is not symmetric under the top-bottom mirror" % name, what=name + "_ATTACKS rank-symmetric")
    # sliders: mirror symmetry of the reader follows from exactness (C15); checked on the tables' masks only
    fb = FxBuilder(facts)
    for fname in ("advance_forward", "advance_left", "advance_right"):
        fn = facts.fns.get("owlchess::pawns::" + fname)
        if fn is None:
            r.anchor_missing("owlchess::pawns::" + fname)
            continue
        bad = None
        vals = {}
        for c in (WHITE, BLACK):
            for s in range(64):
                tree = fb.tree(fn, env=[("const", c, T + "Color"), ("const", 1 << s, "owlchess_base::bitboard::Bitboard")])
                ret = [x[1] for x in tree if x[0] == "ret"]
                vals[(c, s)] = ret[0][1] if ret and ret[0][0] == "const" else None
        for s in range(64):
            a, b_ = vals[(WHITE, s)], vals[(BLACK, s ^ 56)]
            if a is None or b_ is None or geom.flip_rank(a) != b_:
                bad = (s, a, b_)
        r.check(bad is None, "pawns::%s/rank-mirror" % fname, "pawns::%s(Black, flip(b)) != flip(pawns::%s(White, b)) for b = {%s}"
                % (fname, fname, geom.name(bad[0]) if bad else ""), site=ctx.site(fn), what="pawns::%s mirrored on all 64 single squares" % fname)
        # left and right are file mirrors of each other
    al, ar = facts.fns.get("owlchess::pawns::advance_left"), facts.fns.get("owlchess::pawns::advance_right")
    if al is not None and ar is not None:
        bad = None
        for c in (WHITE, BLACK):
            for s in range(64):
                tl = fb.tree(al, env=[("const", c, T + "Color"), ("const", 1 << s, "owlchess_base::bitboard::Bitboard")])
                tr = fb.tree(ar, env=[("const", c, T + "Color"), ("const", 1 << (s ^ 7), "owlchess_base::bitboard::Bitboard")])
                vl = [x[1] for x in tl if x[0] == "ret"][0]
                vr = [x[1] for x in tr if x[0] == "ret"][0]
                if not (vl[0] == "const" and vr[0] == "const" and geom.flip_file(vl[1]) == vr[1]):
                    bad = (c, s)
        r.check(bad is None, "pawns::advance_left/right/file-mirror", "advance_left and advance_right are not file mirrors of each other at %s" % (bad,),
                what="advance_left(b) mirrored = advance_right(mirror b), 128 points")
    from .castlingrules import ref_srcs, ref_pass
    for nm, ref in (("srcs", ref_srcs), ("pass", ref_pass)):
        for s in (0, 1):
            r.check(geom.flip_rank(ref(WHITE, s)) == ref(BLACK, s), "castling-ref/%s/%d" % (nm, s), "reference masks not mirrored", what="reference castling masks mirrored")


def dispatch_rule(ctx, facts, rid):
    r = ctx.rule(rid, "every colour dispatcher pairs White with the White instance and Black with the Black instance of the same function")
    n = 0
    for fn in facts.fns.values():
        if fn.krate != "owlchess":
            continue
        body = fn.body
        for bi, t in body.iter_terms():
            if t["k"] != "switch":
                continue
            ty = facts.types[t["dty"]]
            if not (ty["k"] == "int"):
                continue
            # discriminant of a Color value?
            targets = {int(v): tb for v, tb in t["cases"]}
            if set(targets) != {0, 1}:
                continue
            found = {}
            for v, tb in targets.items():
                x = tb
                seen = set()
                while x not in seen:
                    seen.add(x)
                    tt = body.blocks[x]["term"]
                    if tt["k"] == "call" and "inst" in tt["f"] and "owlchess::generic::" in tt["f"]["inst"]:
                        found[v] = tt["f"]["inst"]
                        break
                    if tt["k"] == "goto":
                        x = tt["t"]
                    elif tt["k"] == "call" and tt["t"] is not None:
                        x = tt["t"]
                    else:
                        break
            if len(found) != 2:
                continue
            w, b_ = found[0], found[1]
            if w.replace("owlchess::generic::White", "@").replace("owlchess::generic::Black", "@") != \
                    b_.replace("owlchess::generic::White", "@").replace("owlchess::generic::Black", "@"):
                continue
            n += 1
            inverted = fn.def_path in INVERTED_DISPATCH
            okw = ("owlchess::generic::Black" if inverted else "owlchess::generic::White") in w and \
                  ("owlchess::generic::White" if inverted else "owlchess::generic::Black") not in w.split("::<")[-1].replace("LegalFilter", "")
            want_w = "Black" if inverted else "White"
            want_b = "White" if inverted else "Black"
            gw = [a for a in facts.fns[w].args if a.startswith("owlchess::generic::")]
            gb = [a for a in facts.fns[b_].args if a.startswith("owlchess::generic::")]
            ok = gw == ["owlchess::generic::" + want_w] and gb == ["owlchess::generic::" + want_b]
            r.check(ok, "dispatch/%s/%s" % (fn.def_path, facts.fns[w].def_path.split("::")[-1]),
                    "%s dispatches White -> %s and Black -> %s" % (fn.id, gw, gb), site=ctx.site(fn, bi),
                    what="%s: White->%s, Black->%s" % (fn.def_path.split("::")[-1], want_w, want_b))
    r.floor(n, 14, "colour dispatch sites")


def inventory_rule(ctx, facts, rid):
    r = ctx.rule(rid, "every run-time branch on a colour inside the position logic is a checked mirror pair or reviewed bookkeeping")
    seen = {}
    for fn in facts.fns.values():
        if fn.krate != "owlchess" or not fn.def_path.startswith(POSITION_LOGIC):
            continue
        body = fn.body
        b = Builder(facts)
        for bi, si, s in body.iter_stmts():
            if s[0] == "assign" and s[2][0] == "discr":
                pl = s[2][1]
                # type of the place whose discriminant is read
                ti = body.locals[pl["l"]]
                for el in pl["p"]:
                    if el[0] == "field":
                        ti = el[4]
                    elif el[0] == "deref":
                        tt = facts.types[ti]
                        ti = tt.get("to", ti)
                t = facts.types[ti]
                if t["k"] == "adt" and t.get("path") == T + "Color":
                    # constant operands (C::COLOR) are not run-time branches
                    e = b.place(body, pl)
                    if e[0] == "const":
                        continue
                    seen.setdefault(fn.def_path, (fn, bi))
    for dp, (fn, bi) in sorted(seen.items()):
        r.check(dp in REVIEWED_COLOUR_BRANCHES, "colour-branch/" + dp,
                "%s branches on a run-time colour and is not in the reviewed list: a colour asymmetry in position logic must be a "
                "checked mirror pair" % dp, site=ctx.site(fn, bi), what="%s: %s" % (dp.split("owlchess::")[-1], REVIEWED_COLOUR_BRANCHES.get(dp, "")))
    r.floor(len(seen), 5, "functions with run-time colour branches in position logic")


def diag_index_rule(ctx, facts, rid):
    r = ctx.rule(rid, "DIAG is only indexed by Coord::diag and ANTIDIAG only by Coord::antidiag (left-right orientation consistency)")
    b = Builder(facts, no_inline=(T + "Coord::diag", T + "Coord::antidiag"))
    n = 0
    for fn in facts.fns.values():
        if fn.krate not in ("owlchess", "owlchess_base"):
            continue
        body = fn.body
        for bi, si, s in body.iter_stmts():
            if s[0] != "assign":
                continue
            for pl in _places(s):
                for i, el in enumerate(pl["p"]):
                    if el[0] == "index":
                        base = {"l": pl["l"], "p": pl["p"][:i]}
                        be = b.place(body, base)
                        name = None
                        for x in (be, be[1] if be[0] in ("deref", "ref") else be):
                            if isinstance(x, tuple) and x and x[0] == "named":
                                name = x[1]
                        if name in ("owlchess_base::bitboard_consts::DIAG", "owlchess_base::bitboard_consts::ANTIDIAG"):
                            n += 1
                            idx = b.local(body, el[1])
                            want = T + ("Coord::diag" if name.endswith("::DIAG") else "Coord::antidiag")
                            ok = idx[0] == "call" and idx[1] == want
                            r.check(ok, "%s/%s" % (fn.def_path, name.split("::")[-1]),
                                    "%s indexes %s with %s; the table is numbered by %s" % (fn.def_path, name.split("::")[-1], show(idx), want.split("::")[-1]),
                                    site=ctx.site(fn, bi), what="%s[%s]" % (name.split("::")[-1], want.split("::")[-1]))
    r.note("%d index sites of DIAG/ANTIDIAG in the analysed crates (build.rs, the main user, is checked through its output: C15)" % n)
    if n == 0:
        r.ok("no use of DIAG/ANTIDIAG outside build.rs (rule armed; positive fixture: selftest/mutants/antidiag-by-diag.patch)")


def _places(s):
    out = [s[1]]
    rv = s[2]
    if rv[0] in ("ref", "rawptr", "discr", "copyderef"):
        out.append(rv[-1] if rv[0] != "discr" else rv[1])
    if rv[0] == "use":
        o = rv[1]
        p = o.get("c") or o.get("m")
        if p:
            out.append(p)
    return out
