"""Attack-query and legality-checker rules (C16 Q1-Q5, C01 N1/N2/N4).

A query is reduced to its *term set*: every term is a set of AND-ed factors, each factor canonicalised
(piece set of a constant cell, union of piece sets, attack table at a square, slider attack at a
square over an occupancy, other). The three sibling implementations must have exactly the reference
term set: men of colour c attack square s iff
   pawns(c) & PAWN_ATTACKS[not c][s]  |  king(c) & KING[s]  |  knights(c) & KNIGHT[s]
 | (bishops(c)|queens(c)) & bishop_attack(s, occ)  |  (rooks(c)|queens(c)) & rook_attack(s, occ)
(reverse lookup: a pawn of colour c attacks s iff it stands on a square a pawn of colour not-c on s would attack).
"""
from .fx import FxBuilder, tree_paths, walk_tree, unstamp, path_value
from .expr import show
from .boardsim import cell, PAWN, KING, KNIGHT, BISHOP, ROOK, QUEEN, WHITE, BLACK

ATTACK_STOP = ("owlchess::attack::bishop", "owlchess::attack::rook")
TABLES = {
    "owlchess::attack::KING_ATTACKS": ("KING",),
    "owlchess::attack::KNIGHT_ATTACKS": ("KNIGHT",),
    "owlchess::attack::WHITE_PAWN_ATTACKS": ("PAWN", WHITE),
    "owlchess::attack::BLACK_PAWN_ATTACKS": ("PAWN", BLACK),
}


def atom(e):
    e = unstamp(e)
    k = e[0]
    if k == "tbl":
        base, idx = e[1], e[2]
        if base[0] == "field" and base[2] == "pieces" and idx[0] == "const":
            return ("PS", idx[1])
        if base[0] == "named" and base[1] in TABLES:
            return TABLES[base[1]] + (show(idx),)
    if k == "call" and e[1] in ATTACK_STOP:
        return ("BISHOP" if e[1].endswith("bishop") else "ROOK", show(e[2][0]), show(e[2][1]))
    if k == "bin" and e[1] == "BitOr":
        parts = []
        for x in (e[2], e[3]):
            a = atom(x)
            if a[0] == "OR":
                parts.extend(a[1])
            else:
                parts.append(a)
        return ("OR", frozenset(parts))
    if k == "const":
        return ("CONST", e[1])
    return ("E", show(e))


def factors(e):
    e = unstamp(e)
    if e[0] == "bin" and e[1] == "BitAnd":
        return factors(e[2]) | factors(e[3])
    return frozenset([atom(e)])


def or_terms(e):
    e = unstamp(e)
    if e[0] == "bin" and e[1] == "BitOr":
        return or_terms(e[2]) + or_terms(e[3])
    return [factors(e)]


def expected_terms(c, sq, occ, mask=None):
    """Reference term set for 'men of colour c attack square sq under occupancy occ'."""
    t = [
        {("PS", cell(c, PAWN)), ("PAWN", 1 - c, sq)},
        {("PS", cell(c, KING)), ("KING", sq)},
        {("PS", cell(c, KNIGHT)), ("KNIGHT", sq)},
        {("OR", frozenset([("PS", cell(c, BISHOP)), ("PS", cell(c, QUEEN))])), ("BISHOP", sq, occ)},
        {("OR", frozenset([("PS", cell(c, ROOK)), ("PS", cell(c, QUEEN))])), ("ROOK", sq, occ)},
    ]
    if mask is not None:
        for x in t:
            x.add(("E", mask))
    return set(frozenset(x) for x in t)


def nonempty_test(d):
    """(term, polarity) if d is `(X Ne 0)` / `(X Eq 0)` on a bitboard expression."""
    d = unstamp(d)
    if d[0] == "bin" and d[1] in ("Ne", "Eq"):
        a, b = d[2], d[3]
        zero = ("const", 0, "u64")
        if a == zero or b == zero:
            x = b if a == zero else a
            ts = or_terms(x)
            if len(ts) > 1:
                # (t1 | t2 | ..) != 0  <=>  some ti != 0: a union of terms tested at once
                return ("multi", tuple(ts)), d[1] == "Ne"
            return factors(x), d[1] == "Ne"
    return None


def bool_query_terms(tree):
    """For a boolean query built from short-circuit `||` of non-emptiness tests: returns
    (set of terms, list of problems). Every path returning true must have a true term, every path
    returning false must have seen all terms false."""
    problems = []
    all_terms = set()
    for events, choices in tree_paths(tree):
        last = events[-1]
        if last[0] != "ret":
            if last[0] == "unreachable":
                continue
            problems.append("path ends in %s" % last[0])
            continue
        seen = {}
        for e in events:
            if e[0] == "branch":
                t = nonempty_test(path_value(e[1], choices))
                if t is None:
                    problems.append("unrecognised test %s" % show(unstamp(e[1])))
                    continue
                term, pos = t
                taken_true = not (e[2] != "else" and 0 in e[2])
                val = taken_true if pos else (not taken_true)
                if isinstance(term, tuple) and term and term[0] == "multi":
                    for t1 in term[1]:
                        all_terms.add(t1)
                        if not val:
                            seen[t1] = False
                    if val:
                        seen[("some-of", term[1])] = True
                    continue
                seen[term] = val
        ret = unstamp(path_value(last[1], choices))
        for t in seen:
            if not (isinstance(t, tuple) and t and t[0] == "some-of"):
                all_terms.add(t)
        if ret == ("const", 1, "bool"):
            if not any(seen.values()):
                problems.append("returns true with no attack term established")
        elif ret == ("const", 0, "bool"):
            if any(seen.values()):
                problems.append("returns false although a term was non-empty")
        else:
            t = nonempty_test(ret)
            if t is None or not t[1]:
                problems.append("returns %s" % show(ret))
            else:
                if isinstance(t[0], tuple) and t[0] and t[0][0] == "multi":
                    for t1 in t[0][1]:
                        all_terms.add(t1)
                else:
                    all_terms.add(t[0])
                if any(seen.values()):
                    problems.append("falls through to the last term although an earlier one was non-empty")
    return all_terms, problems


def _fmt(terms):
    return sorted(sorted(map(str, t)) for t in terms)


def sibling_rules(ctx, facts, rid):
    r = ctx.rule(rid, "the three attack queries are the reference union of five reverse lookups (piece sets, tables, colours)")
    fb = FxBuilder(facts, stop=ATTACK_STOP)
    n = 0
    for c, gen in ((WHITE, "White"), (BLACK, "Black")):
        # do_is_cell_attacked::<C>
        name = "owlchess::movegen::do_is_cell_attacked::<owlchess::generic::%s>" % gen
        fn = facts.fns.get(name)
        if fn is None:
            r.anchor_missing(name)
        else:
            n += 1
            tree = fb.tree(fn)
            terms, probs = bool_query_terms(tree)
            want = expected_terms(c, "coord", "*b.all")
            r.check(terms == want and not probs, "do_is_cell_attacked<%s>" % gen,
                    "do_is_cell_attacked::<%s> is not the reference attack test: terms %s, expected %s; %s"
                    % (gen, _fmt(terms), _fmt(want), probs), site=ctx.site(fn), what="do_is_cell_attacked<%s> = 5 reference terms" % gen)
        name = "owlchess::movegen::do_cell_attackers::<owlchess::generic::%s>" % gen
        fn = facts.fns.get(name)
        if fn is None:
            r.anchor_missing(name)
        else:
            n += 1
            tree = fb.tree(fn)
            ret = [x[1] for x in tree if x[0] == "ret"]
            terms = set(or_terms(ret[0])) if ret else set()
            want = expected_terms(c, "coord", "*b.all")
            r.check(terms == want, "do_cell_attackers<%s>" % gen,
                    "do_cell_attackers::<%s> is not the union of the five reference lookups: %s, expected %s" % (gen, _fmt(terms), _fmt(want)),
                    site=ctx.site(fn), what="do_cell_attackers<%s> = union of 5 reference terms" % gen)
    # Checker::is_attacked for both values of self.inv
    for inst in facts.instances("owlchess::legal::Checker::<'a, P>::is_attacked"):
        for c in (WHITE, BLACK):
            n += 1
            adt_key = None
            for k, a in facts.adts.items():
                if a and a.get("path") == "owlchess::legal::Checker" and k in inst.id.replace("::<", "<"):
                    adt_key = k
            fields = None
            for k, a in facts.adts.items():
                if a and a.get("path") == "owlchess::legal::Checker":
                    fields = [f["name"] for f in a["variants"][0]["fields"]]
            if not fields:
                r.anchor_missing("owlchess::legal::Checker")
                continue
            vals = []
            for f in fields:
                if f == "inv":
                    vals.append(("const", c, "owlchess_base::types::Color"))
                elif f == "src":
                    vals.append(("param", 9, "board"))
                else:
                    vals.append(("sym", f))
            selfv = ("ref", ("agg", "owlchess::legal::Checker", "Checker", tuple(vals)))
            env = [selfv, ("sym", "pos"), ("sym", "all"), ("sym", "mask")]
            tree = fb.tree(inst, env=env)
            terms, probs = bool_query_terms(tree)
            want = expected_terms(c, show(("sym", "pos")), show(("sym", "all")), mask=show(("sym", "mask")))
            key = "Checker::is_attacked[%s]/inv=%s" % ("Default" if "Default" in inst.id else "Nil", "WB"[c])
            r.check(terms == want and not probs, key,
                    "%s is not the reference attack test under (occupancy, mask): terms %s expected %s; %s"
                    % (key, _fmt(terms), _fmt(want), probs), site=ctx.site(inst), what=key + " = 5 reference terms & mask")
    r.floor(n, 8, "attack query instances")


def dispatch_rules(ctx, facts, rid):
    r = ctx.rule(rid, "colour dispatch of the public queries; check = own king attacked by the opponent")
    fb = FxBuilder(facts, stop=("owlchess::movegen::do_is_cell_attacked", "owlchess::movegen::do_cell_attackers",
                                "owlchess::movegen::is_cell_attacked", "owlchess::movegen::cell_attackers",
                                "owlchess::board::Board::king_pos"))
    for pub, inner in (("owlchess::movegen::is_cell_attacked", "owlchess::movegen::do_is_cell_attacked"),
                       ("owlchess::movegen::cell_attackers", "owlchess::movegen::do_cell_attackers")):
        fn = facts.fns.get(pub)
        if fn is None:
            r.anchor_missing(pub)
            continue
        tree = fb.tree(fn)
        found = {}
        for n_, conds, _i in walk_tree(tree):
            if n_[0] == "call" and n_[2] == inner and len(conds) == 1 and show(unstamp(conds[0][0])) == "discr(color)" and conds[0][1] != "else":
                okargs = [show(unstamp(a)) for a in n_[3]] == ["b", "coord"]
                for v in conds[0][1]:
                    found[v] = (n_[1], okargs)
        for v, col in ((0, "White"), (1, "Black")):
            want = "%s::<owlchess::generic::%s>" % (inner, col)
            got = found.get(v)
            r.check(got == (want, True), "%s/%s" % (pub.split("::")[-1], col), "%s(color=%s) calls %s" % (pub, col, got), site=ctx.site(fn),
                    what="%s: %s -> %s" % (pub.split("::")[-1], col, want.split("::")[-1]))
    # is_check / checkers / is_opponent_king_attacked
    spec = {
        "owlchess::board::Board::is_check": ("owlchess::movegen::is_cell_attacked", "side", "inv"),
        "owlchess::board::Board::checkers": ("owlchess::movegen::cell_attackers", "side", "inv"),
        "owlchess::board::Board::is_opponent_king_attacked": ("owlchess::movegen::is_cell_attacked", "inv", "side"),
    }
    for name, (callee, king_of, attacker) in spec.items():
        fn = facts.fns.get(name)
        if fn is None:
            r.anchor_missing(name)
            continue
        tree = fb.tree(fn)
        calls = [n_ for n_, _c, _i in walk_tree(tree) if n_[0] == "call" and n_[2] == callee]
        ok = False
        why = "no call to %s" % callee
        if len(calls) == 1:
            a = [unstamp(x) for x in calls[0][3]]
            side = "*self.r.side"

            def colour_of(e):
                s = show(resolve_all(e))
                if s == side:
                    return "side"
                return "inv" if _is_inv_of_side(e) else "?"
            kp = a[1]
            kcol = "?"
            if kp[0] == "call" and kp[1] == "owlchess::board::Board::king_pos" and show(kp[2][0]) == "self":
                kcol = colour_of(kp[2][1])
            acol = colour_of(a[2])
            ok = show(a[0]) == "self" and kcol == king_of and acol == attacker
            why = "king of %s attacked by %s" % (kcol, acol)
        r.check(ok, name.split("::")[-1], "%s: expected king of `%s` attacked by `%s`, found %s" % (name, king_of, attacker, why),
                site=ctx.site(fn), what="%s: king(%s) attacked by %s" % (name.split("::")[-1], king_of, attacker))


def resolve_all(e):
    return unstamp(e)


def _is_inv_of_side(e):
    """phi over discr(side): White->Black(1), Black->White(0) - the inlined Color::inv(&side)."""
    e = unstamp(e)
    if e[0] == "phi":
        vals = dict(e[3])
        return vals.get((0,)) == ("const", 1, "owlchess_base::types::Color") and vals.get((1,)) == ("const", 0, "owlchess_base::types::Color")
    return False


# ---------------------------------------------------------------------------------------------- C01

def prechecker_rule(ctx, facts, rid):
    r = ctx.rule(rid, "the legality pre-filter answers Some(true) only for an unpinned non-king man that is not capturing en passant, "
                      "and never answers Some(_) otherwise")
    name = "<owlchess::legal::DefaultPrechecker as owlchess::legal::Prechecker>::is_legal_pre"
    fn = facts.fns.get(name)
    if fn is None:
        r.anchor_missing(name)
        return
    # tabulated: the function is evaluated for either kind of PrecheckData, every move kind, and the source inside/outside the set
    from .machine import run_function, NeedInput, Stuck, Panic
    from .teval import Unsupported
    PD, DP, MV = "owlchess::legal::PrecheckData", "owlchess::legal::DefaultPrechecker", "owlchess::moves::base::Move"
    kinds = facts.adts.get("owlchess::moves::base::MoveKind")
    pd = facts.adts.get(PD)
    if not kinds or not pd or sorted(v["name"] for v in pd["variants"]) != ["Check", "NotCheck"]:
        r.fail("is_legal_pre/shape", "MoveKind / PrecheckData{Check, NotCheck} not found as reviewed", site=ctx.site(fn))
        return
    kd = {v["name"]: v["discr"] for v in kinds["variants"]}
    ENP = kd.get("Enpassant")
    FULL = (1 << 64) - 1
    n_pts = n_some = 0
    bad = {}
    for src in (0, 4, 12, 27, 36, 60, 63):
        others = (1 << ((src + 9) % 64)) | (1 << ((src + 37) % 64))
        datas = [("agg", "Check", (), PD)]
        for bb in (0, 1 << src, others, others | (1 << src), FULL, FULL ^ (1 << src)):
            datas.append(("agg", "NotCheck", (bb,), PD))
        for data in datas:
            for kname, kind in sorted(kd.items(), key=lambda x: x[1]):
                for dst in ((src + 8) % 64, (src + 17) % 64):
                    mv = ("agg", "Move", (kind, 1, src, dst), MV)
                    try:
                        got = run_function(facts, fn, {1: ("agg", "DefaultPrechecker", (data,), DP), 2: mv}, deref_self=True)[0]
                    except (NeedInput, Stuck, Panic, Unsupported, KeyError, IndexError, TypeError) as e:
                        bad.setdefault("is_legal_pre/shape", "is_legal_pre could not be evaluated (%s: %s)" % (type(e).__name__, str(e)[:120]))
                        continue
                    n_pts += 1
                    if got == ("agg", "None", ()):
                        continue
                    n_some += 1
                    desc = "%s, %s from %d, source %s the set" % (data[1], kname, src, "in" if data[1] == "NotCheck" and data[2][0] >> src & 1 else "outside")
                    if got != ("agg", "Some", (1,)):
                        bad.setdefault("is_legal_pre/Some-other", "is_legal_pre decides legality itself (returns %r for %s): only the reviewed "
                                       "`unpinned, not king, not en passant => legal` shortcut is covered by the pin argument" % (got, desc))
                    elif data[1] != "NotCheck" or data[2][0] >> src & 1:
                        bad.setdefault("is_legal_pre/Some(true)-unpinned", "is_legal_pre returns Some(true) without NotCheck and src outside "
                                       "pinned_or_king (%s)" % desc)
                    elif kind == ENP:
                        bad.setdefault("is_legal_pre/Some(true)-without-excluding-Enpassant",
                                       "is_legal_pre returns Some(true) for MoveKind::Enpassant (%s): an en passant capture vacates "
                                       "two squares of one rank and can expose the king although the capturing pawn is not pinned "
                                       "(8/8/8/K2Pp2r/8/8/8/7k w - e6, d5e6)" % desc)
    for k, msg in bad.items():
        r.fail(k, msg, site=ctx.site(fn))
    r.check(n_pts >= 7 * 7 * len(kd) * 2 or bool(bad), "is_legal_pre/points", "only %d points evaluated" % n_pts, site=ctx.site(fn),
            what="is_legal_pre tabulated on %d (data, kind, source, destination) points: %d answer Some(true), all of them NotCheck, "
                 "source outside the set, not en passant; no Some(false)" % (n_pts, n_some))
    # DefaultPrechecker::new: Check iff is_check; else pinned(b, side, king) | {king} with side = side to move
    fn = facts.fns.get("owlchess::legal::DefaultPrechecker::new")
    if fn is None:
        r.anchor_missing("owlchess::legal::DefaultPrechecker::new")
        return
    fb = FxBuilder(facts, stop=("owlchess::board::Board::is_check", "owlchess::legal::DefaultPrechecker::pinned", "owlchess::board::Board::king_pos"))
    tree = fb.tree(fn)
    ok_check = ok_pin = False
    for events, choices in tree_paths(tree):
        last = events[-1]
        if last[0] != "ret":
            continue
        ret = unstamp(path_value(last[1], choices))
        inchk = None
        for e in events:
            if e[0] == "branch" and show(unstamp(e[1])) == "is_check(b)":
                inchk = not (e[2] != "else" and 0 in e[2])
        s = show(ret)
        if inchk is True and "PrecheckData::Check" in s:
            ok_check = True
        if inchk is False and "NotCheck" in s and "pinned(b, *b.r.side, king_pos(b, *b.r.side))" in s \
                and "(1 Shl king_pos(b, *b.r.side))" in s and "BitOr" in s:
            ok_pin = True
    r.check(ok_check and ok_pin, "DefaultPrechecker::new", "DefaultPrechecker::new is not `Check if is_check else NotCheck{pinned(side,king)|king}`",
            site=ctx.site(fn), what="new(): Check iff in check; pinned set of the side to move plus its king")


def pinned_rule(ctx, facts, rid):
    """What pinned() computes, tabulated: its model is evaluated on a structured family of boards (king on 5 squares x every direction
    with room x own/enemy blockers at two distances x slider kinds incl. the wrong geometry, and every pair of simultaneous pins) and
    must return exactly the own men that are the only man between the king and an enemy slider of that line's geometry. attack::bishop /
    attack::rook are taken as the sliding functions C15 proves them to be; between tables are read from the build."""
    from .machine import Machine, Stuck
    from .teval import Unsupported, Panic
    from . import geom
    r = ctx.rule(rid, "pinned() returns exactly the own men standing alone between the king and an enemy slider of the matching geometry "
                      "(diagonal: bishop/queen, line: rook/queen), for every pinner at once - model evaluated on a structured family of boards")
    fn = facts.fns.get("owlchess::legal::DefaultPrechecker::pinned")
    if fn is None:
        r.anchor_missing("owlchess::legal::DefaultPrechecker::pinned")
        return
    stop = {"owlchess::attack::bishop", "owlchess::attack::rook"}
    tree = FxBuilder(facts, ai_mode=True, max_depth=12, max_blocks=400, stop=stop).tree(fn)
    PAWN, KING, KNIGHT, BISHOP, ROOK, QUEEN = 0, 1, 2, 3, 4, 5

    def cell(c, p):
        return 1 + 6 * c + p

    def run(board, side, king):
        def mem(place, m):
            t = show(unstamp(place))
            if t.endswith(".white"):
                return sum(1 << q for q, c in board.items() if 1 <= c <= 6)
            if t.endswith(".black"):
                return sum(1 << q for q, c in board.items() if 7 <= c <= 12)
            if t.endswith(".all"):
                return sum(1 << q for q in board)
            if place[0] in ("index", "tbl") and show(unstamp(place[1])).endswith(".pieces"):
                k = m.ev(place[2])
                return sum(1 << q for q, c in board.items() if c == k)
            raise Unsupported("memory read " + t[:60])

        def oracle(name, args, m):
            if name in stop:
                return geom.slide(m.ev(args[0]), m.ev(args[1]), geom.BISHOP_DIRS if name.endswith("bishop") else geom.ROOK_DIRS)
            return None
        m = Machine(facts, tree, mem=mem, oracle=oracle)
        m.syms[2] = side
        m.syms[3] = king
        res = m.start()
        steps = 0
        while res[0] == "at" and steps < 400:
            res = m.resume(res[1])
            steps += 1
        if res[0] != "ret" or not isinstance(res[1], int):
            raise Stuck("pinned() ends with %r" % (res,))
        return res[1]

    def ref(board, side, king):
        out = 0
        own = (lambda c: 1 <= c <= 6) if side == 0 else (lambda c: 7 <= c <= 12)
        for dirs, kinds in ((geom.BISHOP_DIRS, (BISHOP, QUEEN)), (geom.ROOK_DIRS, (ROOK, QUEEN))):
            for d in dirs:
                first = None
                for q in geom.ray(king, d):
                    c = board.get(q)
                    if c is None:
                        continue
                    if first is None:
                        if not own(c):
                            break
                        first = q
                    else:
                        if not own(c) and (c - 1) % 6 in kinds:
                            out |= 1 << first
                        break
        return out
    n = 0
    bad = None
    try:
        for side in (0, 1):
            opp = 1 - side
            for king in (56, 35, 60, 7, 28):
                configs = []
                for d in geom.BISHOP_DIRS + geom.ROOK_DIRS:
                    ray_ = geom.ray(king, d)
                    if len(ray_) < 3:
                        continue
                    diag = d in geom.BISHOP_DIRS
                    for i1 in (0, 1):
                        for i2 in range(i1 + 1, min(i1 + 3, len(ray_))):
                            for pk in (BISHOP, ROOK, QUEEN, KNIGHT):
                                base = {ray_[i1]: cell(side, KNIGHT), ray_[i2]: cell(opp, pk)}
                                configs.append(base)
                                if i2 - i1 == 2:
                                    configs.append({**base, ray_[i1 + 1]: cell(side, PAWN)})     # two own men: no pin
                                    configs.append({**base, ray_[i1 + 1]: cell(opp, PAWN)})      # an enemy man shields
                            configs.append({ray_[i1]: cell(opp, KNIGHT), ray_[i2]: cell(opp, QUEEN if diag else ROOK)})   # first man is not ours
                            configs.append({ray_[i1]: cell(side, QUEEN), ray_[i2]: cell(side, QUEEN if diag else ROOK)})   # the slider is ours
                singles = [c for c in configs]
                # simultaneous pins: every pair of the plain pin configurations of different directions
                pins = []
                for d in geom.BISHOP_DIRS + geom.ROOK_DIRS:
                    ray_ = geom.ray(king, d)
                    if len(ray_) >= 2:
                        pins.append({ray_[0]: cell(side, ROOK), ray_[-1]: cell(opp, QUEEN)})
                for a in range(len(pins)):
                    for b_ in range(a + 1, len(pins)):
                        configs.append({**pins[a], **pins[b_]})
                if len(pins) >= 3:
                    allp = {}
                    for p_ in pins:
                        allp.update(p_)
                    configs.append(allp)
                for cfg in configs:
                    board = dict(cfg)
                    board[king] = cell(side, KING)
                    got = run(board, side, king)
                    want = ref(board, side, king)
                    n += 1
                    if got != want:
                        bad = "with the %s king on %s and men %s pinned() returns %s, the pinned men are %s" % (
                            "white" if side == 0 else "black", geom.name(king),
                            ", ".join("%s:%d" % (geom.name(q), c) for q, c in sorted(cfg.items())),
                            [geom.name(q) for q in geom.bits(got)], [geom.name(q) for q in geom.bits(want)])
                        break
                if bad:
                    break
            if bad:
                break
    except (Stuck, Unsupported, Panic) as ex:
        bad = "model not evaluable: %s" % str(ex)[:140]
    r.check(bad is None, "pinned", bad or "", site=ctx.site(fn), what="pinned() on %d boards: single pins, shields, wrong geometry, simultaneous pins" % n)
    if bad is None:
        r.floor(n, 1500, "boards for pinned()")


def pinned_shape_rule(ctx, facts, rid):
    r = ctx.rule(rid, "pin detection pairs each geometry with itself: bishop x-ray & diagonal sliders -> bishop between; rook likewise")
    fn = facts.fns.get("owlchess::legal::DefaultPrechecker::pinned")
    if fn is None:
        r.anchor_missing("owlchess::legal::DefaultPrechecker::pinned")
        return
    stop = ("owlchess::between::bishop_strict", "owlchess::between::rook_strict", "owlchess::legal::DefaultPrechecker::bishop_xray",
            "owlchess::legal::DefaultPrechecker::rook_xray", "owlchess::board::Board::piece_diag", "owlchess::board::Board::piece_line",
            "owlchess::board::Board::color")
    fb = FxBuilder(facts, stop=stop)
    tree = fb.tree(fn)
    txt = []
    for n_, _c, _i in walk_tree(tree):
        if n_[0] == "inlined" and n_[1].endswith("BitAnd>::bitand"):
            txt.append(show(unstamp(n_[5])))
    blob = " ; ".join(txt)
    # iterator-chain shape: `pinners.into_iter().map(|p| between::X_strict(p, king))`, folded with `|` and intersected with `ours`
    mapped = {}
    for n_, _c, _i in walk_tree(tree):
        if n_[0] == "call" and (n_[2] or "").endswith("iterator::Iterator::map") and len(n_[3]) == 2:
            src_set, clos = show(unstamp(n_[3][0])), unstamp(n_[3][1])
            if clos[0] == "agg" and clos[1] == "closure" and clos[2]:
                for cf in facts.instances(clos[2]):
                    for _bi, t in cf.body.calls():
                        tgt = (t["f"].get("inst") or "")
                        if tgt.startswith("owlchess::between::") and tgt.endswith("_strict"):
                            king_ok = any(show(unstamp(x)) in ("king", "&king") for x in clos[3])
                            mapped[tgt.split("::")[-1].split("_")[0]] = (src_set, king_ok)
    ret = [x[1] for x in tree if x[0] == "ret"]
    ret_txt = show(unstamp(ret[0])) if ret else ""
    folded = "fold" in ret_txt and "color(b, side)" in ret_txt and "BitAnd" in ret_txt
    for geom, sl in (("bishop", "piece_diag"), ("rook", "piece_line")):
        a = "%s_xray(b, color(b, side), king)" % geom
        ok1 = any(a in t and ("%s(b, phi(_0))" % sl) in t for t in txt)
        ok2 = any(("%s_strict(" % geom) in t and "king)" in t and "color(b, side)" in t for t in txt)
        wrong = any(("%s_strict(" % geom) in t and ("%s_xray" % ("rook" if geom == "bishop" else "bishop")) in t for t in txt)
        if not ok2 and geom in mapped and folded:
            src_set, king_ok = mapped[geom]
            ok2 = king_ok and a in src_set and ("%s(b, " % sl) in src_set
            wrong = wrong or ("%s_xray" % ("rook" if geom == "bishop" else "bishop")) in src_set
        r.check(ok1 and ok2 and not wrong, "pinned/" + geom,
                "pinned(): %s pins are not computed as %s & %s(opponent) -> between::%s_strict(p, king) & ours: %s" % (geom, a, sl, geom, blob),
                site=ctx.site(fn), what="%s x-ray & %s(inv) -> %s_strict(p,king) & ours" % (geom, sl, geom))
    # xray helpers: attack(king, all ^ (attack(king, all) & ours)) of the same geometry
    for geom in ("bishop", "rook"):
        f2 = facts.fns.get("owlchess::legal::DefaultPrechecker::%s_xray" % geom)
        if f2 is None:
            r.anchor_missing("%s_xray" % geom)
            continue
        fb2 = FxBuilder(facts, stop=ATTACK_STOP)
        t2 = fb2.tree(f2)
        ret = [x[1] for x in t2 if x[0] == "ret"]
        s = show(unstamp(ret[0])) if ret else ""
        want = "%s(king, ((%s(king, *b.all) BitAnd ours) BitXor *b.all))" % (geom, geom)
        r.check(s == want, "xray/" + geom, "%s_xray is %s, expected %s" % (geom, s, want), site=ctx.site(f2), what="%s_xray = %s" % (geom, want))
    # piece_diag / piece_line
    for nm, pieces in (("piece_diag", (BISHOP, QUEEN)), ("piece_line", (ROOK, QUEEN))):
        f3 = facts.fns.get("owlchess::board::Board::" + nm)
        if f3 is None:
            r.anchor_missing(nm)
            continue
        for c in (WHITE, BLACK):
            fb3 = FxBuilder(facts)
            t3 = fb3.tree(f3, env=[("param", 1, "self"), ("const", c, "owlchess_base::types::Color")])
            ret = [x[1] for x in t3 if x[0] == "ret"]
            got = atom(ret[0]) if ret else None
            want = ("OR", frozenset([("PS", cell(c, pieces[0])), ("PS", cell(c, pieces[1]))]))
            r.check(got == want, "%s(%s)" % (nm, "WB"[c]), "%s(%s) = %s, expected the union of the two slider sets" % (nm, "WB"[c], got),
                    site=ctx.site(f3), what="%s(%s)" % (nm, "WB"[c]))


def _bitwise_equal(expr, want_text):
    """Is the bitboard expression `expr` the same per-square boolean function of its atoms as the expected text
    (a parenthesised BitXor/BitOr/BitAnd/Not expression over the same atoms)? Truth table over all atom assignments."""
    from itertools import product as _prod

    def parse(txt):
        txt = txt.strip()
        if txt.startswith("Not(") and txt.endswith(")") and _balanced(txt[4:-1]):
            return ("not", parse(txt[4:-1]))
        if txt.startswith("(") and txt.endswith(")") and _balanced(txt[1:-1]):
            inner = txt[1:-1]
            depth = 0
            for i in range(len(inner)):
                ch = inner[i]
                depth += ch == "("
                depth -= ch == ")"
                if depth == 0:
                    for op in (" BitXor ", " BitOr ", " BitAnd "):
                        if inner.startswith(op, i):
                            return (op.strip(), parse(inner[:i]), parse(inner[i + len(op):]))
            return ("atom", txt)
        return ("atom", txt)

    def of_expr(e):
        if e[0] == "bin" and e[1] in ("BitXor", "BitOr", "BitAnd"):
            return (e[1], of_expr(e[2]), of_expr(e[3]))
        if e[0] == "un" and e[1] == "Not":
            return ("not", of_expr(e[2]))
        return ("atom", show(e))

    def atoms(t, out):
        if t[0] == "atom":
            out.add(t[1])
        else:
            for x in t[1:]:
                atoms(x, out)
        return out

    def ev(t, env):
        if t[0] == "atom":
            if t[1] == "0":
                return 0
            if t[1] == "18446744073709551615":
                return 1
            return env[t[1]]
        if t[0] == "not":
            return 1 - ev(t[1], env)
        a, b = ev(t[1], env), ev(t[2], env)
        return {"BitXor": a ^ b, "BitOr": a | b, "BitAnd": a & b}[t[0]]
    t1, t2 = of_expr(expr), parse(want_text)
    names = sorted(atoms(t1, set()) | atoms(t2, set()) - {"0", "18446744073709551615"})
    names = [n for n in names if n not in ("0", "18446744073709551615")]
    if len(names) > 10:
        return False
    for vals in _prod((0, 1), repeat=len(names)):
        env = dict(zip(names, vals))
        if ev(t1, env) != ev(t2, env):
            return False
    return True


def _balanced(s):
    d = 0
    for ch in s:
        d += ch == "("
        d -= ch == ")"
        if d < 0:
            return False
    return d == 0


def checker_rule(ctx, facts, rid):
    r = ctx.rule(rid, "Checker::is_legal tests the king (or the king's destination) against the occupancy and attacker mask after the move")
    for inst in facts.instances("owlchess::legal::Checker::<'a, P>::is_legal"):
        tag = "Default" if "Default" in inst.id else "Nil"
        fb = FxBuilder(facts, stop=("owlchess::legal::Checker::<'a, P>::is_attacked", "owlchess::pawns::advance_forward",
                                    "<owlchess::legal::DefaultPrechecker as owlchess::legal::Prechecker>::is_legal_pre"))
        tree = fb.tree(inst)
        seen = {"king": False, "ep": False, "other": False}
        for events, choices in tree_paths(tree):
            last = events[-1]
            if last[0] != "ret":
                continue
            ret = unstamp(path_value(last[1], choices))
            calls = [e for e in events if e[0] == "call" and e[2] == "owlchess::legal::Checker::<'a, P>::is_attacked"]
            conds = {}
            for e in events:
                if e[0] == "branch":
                    d = unstamp(path_value(e[1], choices))
                    truth = not (e[2] != "else" and 0 in e[2])
                    conds[show(d)] = (truth, e[2])
            if not calls:
                # answered by the pre-filter
                s = show(ret)
                ok = "is_legal_pre" in s
                r.check(ok, "is_legal[%s]/pre" % tag, "is_legal returns %s without consulting is_attacked or the pre-filter" % s,
                        site=ctx.site(inst), what="is_legal[%s]: pre-filter answer passed through" % tag)
                continue
            if len(calls) != 1:
                r.fail("is_legal[%s]/calls" % tag, "a path of is_legal calls is_attacked %d times" % len(calls), site=ctx.site(inst))
                continue
            a = [show(unstamp(path_value(x, choices))) for x in calls[0][3]]
            neg = show(ret) == "Not(%s)" % show(unstamp(path_value(calls[0][5]["ret"], choices)))
            is_king = conds.get("(mv.src Eq *self.king)", (None,))[0]
            is_ep = None
            for k, (truth, lab) in conds.items():
                if "mv.kind" in k and "5" in k:
                    is_ep = truth if " Eq " in k else (not truth)
                elif k.startswith("discr(") and "mv.kind" in k:
                    is_ep = (lab != "else" and 5 in lab)
            src, dst = "(1 Shl mv.src)", "(1 Shl mv.dst)"
            allx = "**self.src.all"
            if is_king:
                seen["king"] = True
                want = ["self", "mv.dst", "(%s BitXor %s)" % (src, allx), "18446744073709551615"]
                key = "king-move"
            elif is_ep:
                seen["ep"] = True
                tmp = "advance_forward(*self.inv, %s)" % dst
                occ = "(((%s BitXor %s) BitOr %s) BitXor %s)" % (src, allx, dst, tmp)
                alt = "(%s BitXor ((%s BitXor %s) BitOr %s))" % (tmp, src, allx, dst)
                msk = "(Not(%s) BitXor %s)" % (dst, tmp)
                alt2 = "(%s BitXor Not(%s))" % (tmp, dst)
                want = ["self", "*self.king", (occ, alt), (msk, alt2)]
                key = "en-passant"
            else:
                seen["other"] = True
                want = ["self", "*self.king", "((%s BitXor %s) BitOr %s)" % (src, allx, dst), "Not(%s)" % dst]
                key = "other"
            ok = neg and len(a) == 4 and all((x in w) if isinstance(w, tuple) else (x == w) for x, w in zip(a, want))
            if neg and len(a) == 4 and not ok and a[0] == want[0] and a[1] == want[1]:
                # same sets written differently: compare the two set arguments as boolean functions of their atoms, bit by bit
                got_e = [unstamp(path_value(x, choices)) for x in calls[0][3][2:4]]
                ok = all(_bitwise_equal(g, (w[0] if isinstance(w, tuple) else w)) for g, w in zip(got_e, want[2:4]))
            r.check(ok, "is_legal[%s]/%s" % (tag, key),
                    "is_legal (%s path) returns %s over is_attacked(%s); expected !is_attacked(%s): the occupancy must lose the source and "
                    "gain the destination, and every captured man (destination; the pawn taken en passant) must be excluded from the "
                    "attackers" % (key, "the negation" if neg else "NOT the negation", ", ".join(a[1:]),
                                   ", ".join(w[0] if isinstance(w, tuple) else w for w in want[1:])),
                    site=ctx.site(inst), what="is_legal[%s] %s path" % (tag, key))
        for k, v in seen.items():
            r.check(v, "is_legal[%s]/has-%s" % (tag, k), "is_legal has no %s path" % k, site=ctx.site(inst), what="is_legal[%s] has %s path" % (tag, k))
    # Checker::new: king of the side to move, attackers = its inverse
    for inst in facts.instances("owlchess::legal::Checker::<'a, P>::new"):
        fb = FxBuilder(facts, stop=("owlchess::board::Board::king_pos",))
        tree = fb.tree(inst)
        ret = [x[1] for x in tree if x[0] == "ret"]
        s = show(unstamp(ret[0])) if ret else ""
        ok = "king_pos(src, *src.r.side)" in s and ret and _agg_field_is_inv(unstamp(ret[0]))
        r.check(bool(ok), "Checker::new[%s]" % ("Default" if "Default" in inst.id else "Nil"),
                "Checker::new does not take the king of the side to move and its opponent as attacker: %s" % s, site=ctx.site(inst),
                what="Checker::new: king_pos(side), inv = side.inv()")


def _agg_field_is_inv(e):
    if e[0] != "agg":
        return False
    return any(_is_inv_of_side(x) for x in e[3])


def wrappers_rule(ctx, facts, rid):
    r = ctx.rule(rid, "every legal::gen_* is its semilegal::gen_* filtered by Checker<DefaultPrechecker>::is_legal; validate = semi_validate + is_legal")
    names = ["gen_all", "gen_capture", "gen_simple", "gen_simple_no_promote", "gen_simple_promote"]
    for nm in names:
        fn = facts.fns.get("owlchess::movegen::legal::" + nm)
        if fn is None:
            r.anchor_missing("owlchess::movegen::legal::" + nm)
            continue
        # callees of the wrapper, looking through private helpers of the same module and through Checker's constructors
        callees, clos, seen, todo = [], [], set(), [fn]
        while todo:
            g = todo.pop()
            if g.id in seen:
                continue
            seen.add(g.id)
            for _bi, t in g.body.calls():
                f_ = t["f"]
                c_ = f_.get("inst") or f_.get("ext") or ""
                callees.append(c_)
                for h in f_.get("hidden", []) or []:
                    if h in facts.fns and facts.fns[h].kind == "Closure":
                        clos.append(facts.fns[h])
                tgt = facts.fns.get(f_.get("inst")) if f_.get("inst") else None
                if tgt is not None and len(seen) < 12 and "is_legal" not in tgt.def_path and (
                        tgt.def_path.startswith("owlchess::movegen::legal::") or
                        (tgt.def_path.startswith("owlchess::legal::Checker") and tgt.def_path.split("::")[-1] != "new")):
                    todo.append(tgt)
        ok_semi = ("owlchess::movegen::semilegal::" + nm) in callees and \
            not any(c.startswith("owlchess::movegen::semilegal::") and c != "owlchess::movegen::semilegal::" + nm for c in callees)
        ok_retain = any("ArrayVec" in c and "retain" in c for c in callees)
        ok_chk = any(c.startswith("owlchess::legal::Checker::<'_, owlchess::legal::DefaultPrechecker>::new") for c in callees) and \
            any(c.startswith("owlchess::legal::DefaultPrechecker::new") for c in callees)
        legacy = facts.fns.get("owlchess::movegen::legal::%s::{closure#0}" % nm)
        if legacy is not None and legacy not in clos:
            clos.append(legacy)
        ok_clo = False
        for clo in clos:
            fb = FxBuilder(facts, stop=("owlchess::legal::Checker::<'a, P>::is_legal",))
            t = fb.tree(clo)
            ret = [x[1] for x in t if x[0] == "ret"]
            s = show(unstamp(ret[0])) if ret else ""
            if s.startswith("is_legal(") and "Not(" not in s:
                ok_clo = True
        r.check(ok_semi and ok_retain and ok_chk and ok_clo, "legal::" + nm,
                "legal::%s is not `semilegal::%s` retained by checker.is_legal(mv) (semi=%s retain=%s checker=%s closure=%s)"
                % (nm, nm, ok_semi, ok_retain, ok_chk, ok_clo), site=ctx.site(fn), what="legal::%s = semilegal::%s + retain(is_legal)" % (nm, nm))
    # LegalFilter::push: inner push iff is_legal
    for inst in facts.instances("<owlchess::movegen::LegalFilter<'a, P> as owlchess::movegen::MaybeMovePush>::push"):
        stop = {"owlchess::legal::Checker::<'a, P>::is_legal"}
        for dp in facts.by_path:
            if ("MovePush" in dp or "MaybeMovePush" in dp) and dp != inst.def_path:
                stop.add(dp)
        fb = FxBuilder(facts, stop=stop)
        tree = fb.tree(inst)
        good = True
        n_push = 0
        for events, choices in tree_paths(tree):
            legal = None
            for e in events:
                if e[0] == "branch" and show(unstamp(e[1])).startswith("is_legal(&*self.checker, mv)"):
                    legal = not (e[2] != "else" and 0 in e[2])
            pushed = any((e[0] == "call" and "push" in e[1] and "self.inner" in show(unstamp(e[3][0]))) or
                         (e[0] == "enter" and "push" in e[1] and "self.inner" in show(unstamp(e[2][0]))) for e in events)
            ret_err = any(e[0] == "ret" and "Err" in show(unstamp(e[1])) for e in events[-1:])
            if pushed:
                n_push += 1
            if (pushed or ret_err) != bool(legal):
                good = False
        r.check(good and n_push >= 1, "LegalFilter::push[%s]" % inst.args[-1] if inst.args else "LegalFilter::push",
                "LegalFilter::push forwards a move iff checker.is_legal(mv) - violated", site=ctx.site(inst), what="LegalFilter::push[%s]" % (inst.args[-1] if inst.args else ""))
    # Move::validate
    fn = facts.fns.get("owlchess::moves::base::Move::validate")
    if fn is None:
        r.anchor_missing("owlchess::moves::base::Move::validate")
    else:
        fb = FxBuilder(facts, stop=("owlchess::moves::base::Move::semi_validate", "owlchess::moves::base::Move::is_legal_unchecked"))
        tree = fb.tree(fn)
        good = True
        n_ok = 0
        for events, choices in tree_paths(tree):
            last = events[-1]
            if last[0] != "ret":
                continue
            ret = unstamp(path_value(last[1], choices))
            semi = legal = None
            for e in events:
                if e[0] == "branch":
                    s = show(unstamp(path_value(e[1], choices)))
                    if "semi_validate(self, b)" in s:
                        semi = (e[2] != "else" and 0 in e[2])
                    if s.startswith("is_legal_unchecked(self, b)"):
                        legal = not (e[2] != "else" and 0 in e[2])
            is_ok = ret[0] == "agg" and ret[2] == "Ok"
            if is_ok:
                n_ok += 1
            if is_ok != (semi is True and legal is True):
                good = False
        r.check(good and n_ok == 1, "Move::validate", "Move::validate is not Ok exactly when semi_validate succeeded and is_legal_unchecked is true",
                site=ctx.site(fn), what="validate = semi_validate && is_legal_unchecked")
    fn = facts.fns.get("owlchess::moves::base::Move::is_legal_unchecked")
    if fn is not None:
        callees = [(t["f"].get("inst") or "") for _bi, t in fn.body.calls()]
        ok = any("Checker::<'_, owlchess::legal::NilPrechecker>::is_legal" in c for c in callees)
        r.check(ok, "is_legal_unchecked", "is_legal_unchecked does not use Checker<NilPrechecker>::is_legal", site=ctx.site(fn), what="is_legal_unchecked = Checker<Nil>::is_legal")
    fn = facts.fns.get("<owlchess::legal::NilPrechecker as owlchess::legal::Prechecker>::is_legal_pre")
    if fn is not None:
        fb = FxBuilder(facts)
        ret = [x[1] for x in fb.tree(fn) if x[0] == "ret"]
        r.check(bool(ret) and ret[0][0] == "agg" and ret[0][2] == "None", "NilPrechecker", "NilPrechecker::is_legal_pre does not return None",
                site=ctx.site(fn), what="NilPrechecker returns None")
