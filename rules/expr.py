"""Def-use expression reconstruction over MIR (purely syntactic; no evaluation of library code).

An expression is a nested tuple:
  ("param", i, name) | ("var", local, name) | ("const", value, tystr) | ("named", def_path[, promoted])
  ("static", def_path, off) | ("fn", name) | ("str", text) | ("zst", tystr)
  ("field", base, name) | ("deref", e) | ("ref", e) | ("index", base, idx) | ("downcast", e, variant)
  ("bin", op, a, b) | ("un", op, a) | ("cast", kind, e, tystr) | ("discr", e)
  ("call", callee_name, (args...)) | ("agg", path_or_kind, variant, (fields...)) | ("unknown", text)

Temporaries with exactly one definition and no mutable borrow are substituted by their definition;
local callees whose body is straight-line (one normal path, asserts ignored) are inlined up to a
bounded depth, so `coord.index()` becomes `cast(field(param coord, 0))`.
"""
from .mir import callee_name

COMMUTATIVE = {"BitAnd", "BitOr", "BitXor", "Add", "Mul", "Eq", "Ne", "AddUnchecked", "MulUnchecked"}


class BodyInfo:
    """Per-body definition sites and mutability facts."""

    def __init__(self, body):
        self.body = body
        self.defs = {}       # local -> list of ("stmt", bi, si, rvalue) | ("call", bi, term)
        self.mut_borrowed = set()
        self.partial_store = set()
        for bi, si, s in body.iter_stmts():
            if s[0] == "assign":
                pl, rv = s[1], s[2]
                if not pl["p"]:
                    self.defs.setdefault(pl["l"], []).append(("stmt", bi, si, rv))
                else:
                    if not any(e[0] == "deref" for e in pl["p"]):
                        self.partial_store.add(pl["l"])
                if rv[0] == "ref" and rv[1] and not any(e[0] == "deref" for e in rv[2]["p"]):
                    self.mut_borrowed.add(rv[2]["l"])
                if rv[0] == "rawptr" and "Mut" in rv[1] and not any(e[0] == "deref" for e in rv[2]["p"]):
                    self.mut_borrowed.add(rv[2]["l"])
            elif s[0] == "setdiscr":
                self.partial_store.add(s[1]["l"])
        for bi, t in body.iter_terms():
            if t["k"] == "call":
                d = t["dest"]
                if not d["p"]:
                    self.defs.setdefault(d["l"], []).append(("call", bi, t))
                else:
                    self.partial_store.add(d["l"])

    def single_def(self, l):
        if l in self.mut_borrowed or l in self.partial_store:
            return None
        ds = self.defs.get(l, [])
        if len(ds) == 1:
            return ds[0]
        return None


_info_cache = {}


def body_info(body):
    k = id(body)
    if k not in _info_cache:
        _info_cache[k] = BodyInfo(body)
    return _info_cache[k]


def straight_line_path(body):
    """If the body has exactly one normal path from entry to `ret` (asserts and diverging calls
    ignored), return the list of blocks on it, else None."""
    path = []
    b = 0
    seen = set()
    while True:
        if b in seen:
            return None
        seen.add(b)
        path.append(b)
        t = body.blocks[b]["term"]
        k = t["k"]
        if k == "ret":
            return path
        if k in ("goto", "assert", "drop"):
            b = t["t"]
        elif k == "call":
            if t["t"] is None:
                return None
            b = t["t"]
        else:
            return None


class Builder:
    def __init__(self, facts, inline_depth=4, no_inline=()):
        self.facts = facts
        self.inline_depth = inline_depth
        self.no_inline = set(no_inline)

    # ------------------------------------------------------------------ constants
    def const(self, k):
        v = k.get("v", {})
        tys = self.facts.ty_str(k["ty"])
        if "bits" in v:
            val = int(v.get("int", v["bits"]))
            return ("const", val, tys)
        if "fn" in v:
            return ("fn", callee_name(v["fn"]))
        if "str" in v:
            return ("str", v["str"])
        if "name" in k and "promoted" not in k:
            if "mem" in v and k["name"] not in self.facts.consts:
                # a const item local to a function body is not a module child: its value comes with the operand
                self.facts.consts[k["name"]] = {"ty": k["ty"], "vis": "local", "v": v}
            return ("named", k["name"])
        if "promoted" in k:
            return ("promoted", k["name"], k["promoted"])
        if "zst" in v:
            return ("zst", tys)
        if "ptr" in v:
            r = v["ptr"]
            if "static" in r:
                return ("ref", ("static", r["static"], r["off"]))
            return ("ref", ("alloc", r.get("alloc"), r.get("off")))
        if "mem" in v:
            r = v["mem"]
            return ("mem", r.get("alloc", r.get("static")), r.get("off"), v.get("size"))
        return ("unknown", "const:" + tys)

    # ------------------------------------------------------------------ places / operands
    def operand(self, body, o, env=None, depth=0):
        if "k" in o:
            e = self.const(o["k"])
            if e[0] == "promoted":
                return self.promoted(body, e, depth)
            return e
        if "rt" in o:
            return ("const", 1 if o.get("val") else 0, "bool")
        p = o.get("c") or o.get("m")
        return self.place(body, p, env, depth)

    def promoted(self, body, e, depth):
        # promoted constant of this very function: reconstruct its body (it is straight-line)
        fn = body.fn
        idx = e[2]
        if e[1] == fn.def_path and idx < len(fn.promoted):
            pb = fn.promoted[idx]
            path = straight_line_path(pb)
            if path is not None:
                return self.place(pb, {"l": 0, "p": []}, None, depth)
        return e

    def local(self, body, l, env=None, depth=0):
        if env is not None and 1 <= l <= body.argc:
            return env[l - 1]
        if 1 <= l <= body.argc:
            return ("param", l, body.names.get(l, "_%d" % l))
        info = body_info(body)
        d = info.single_def(l)
        if d is None:
            return ("var", l, body.names.get(l, "_%d" % l))
        if d[0] == "stmt":
            return self.rvalue(body, d[3], env, depth)
        return self.call(body, d[2], env, depth)

    def place(self, body, p, env=None, depth=0):
        e = self.local(body, p["l"], env, depth)
        for el in p["p"]:
            k = el[0]
            if k == "deref":
                e = e[1] if e[0] == "ref" else ("deref", e)
            elif k == "field":
                e = self.field(e, ("#" + el[2]) if el[3] in ("tuple", "closure") else el[2], el[1])
            elif k == "index":
                e = ("index", e, self.local(body, el[1], env, depth))
            elif k == "cindex":
                e = ("index", e, ("const", -el[1] if el[3] else el[1], "usize"))
            elif k == "downcast":
                e = ("downcast", e, el[2])
            else:
                e = ("proj", e, str(el))
        return e

    @staticmethod
    def field(e, name, idx):
        # field of a freshly built aggregate -> the operand itself
        if e[0] == "agg" and isinstance(e[3], tuple) and idx < len(e[3]):
            return e[3][idx]
        if e[0] == "downcast" and e[1][0] == "agg" and e[1][2] == e[2] and idx < len(e[1][3]):
            return e[1][3][idx]
        return ("field", e, name)

    def rvalue(self, body, rv, env=None, depth=0):
        k = rv[0]
        if k == "use":
            return self.operand(body, rv[1], env, depth)
        if k in ("ref", "rawptr"):
            inner = self.place(body, rv[2], env, depth)
            return ("ref", inner)
        if k == "copyderef":
            return self.place(body, rv[1], env, depth)
        if k == "bin":
            a = self.operand(body, rv[2], env, depth)
            b = self.operand(body, rv[3], env, depth)
            return norm_bin(rv[1], a, b)
        if k == "un":
            return ("un", rv[1], self.operand(body, rv[2], env, depth))
        if k == "cast":
            inner = self.operand(body, rv[2], env, depth)
            kind = rv[1].split("(")[0]
            if kind in ("PointerCoercion", "PtrToPtr"):
                # unsizing / pointer casts do not change the value for our purposes
                return ("cast", kind, inner, self.facts.ty_str(rv[3]))
            return ("cast", kind, inner, self.facts.ty_str(rv[3]))
        if k == "discr":
            return ("discr", self.place(body, rv[1], env, depth))
        if k == "agg":
            a = rv[1]
            ops = tuple(self.operand(body, o, env, depth) for o in rv[2])
            if a["k"] == "adt":
                return ("agg", a["path"], a["vname"], ops)
            return ("agg", a["k"], "", ops)
        if k == "repeat":
            return ("repeat", self.operand(body, rv[1], env, depth), rv[2])
        return ("unknown", str(rv[0]))

    def call(self, body, t, env=None, depth=0):
        f = t["f"]
        args = tuple(self.operand(body, a, env, depth) for a in t["args"])
        name = callee_name(f)
        if name is None:
            return ("call", "<indirect>", args)
        if "inst" in f and depth < self.inline_depth:
            callee = self.facts.fns[f["inst"]]
            if callee.def_path not in self.no_inline:
                path = straight_line_path(callee.body)
                if path is not None:
                    return self.place(callee.body, {"l": 0, "p": []}, list(args), depth + 1)
        base = self.facts.fns[f["inst"]].def_path if "inst" in f else f["base"]
        return norm_call(name, base, args)


def norm_bin(op, a, b):
    if op in COMMUTATIVE and repr(b) < repr(a):
        a, b = b, a
    return ("bin", op, a, b)


PRIM_BIN = {
    "core::ops::bit::BitAnd>::bitand": "BitAnd", "core::ops::bit::BitOr>::bitor": "BitOr",
    "core::ops::bit::BitXor>::bitxor": "BitXor",
}


def norm_call(name, base, args):
    # primitive operator traits on integers are the operator itself
    for suffix, op in PRIM_BIN.items():
        if name.endswith(suffix) and name.startswith("<u") and len(args) == 2:
            return norm_bin(op, args[0], args[1])
    if name.startswith("<u") and name.endswith("core::ops::bit::Not>::not") and len(args) == 1:
        return ("un", "Not", args[0])
    if base and base.endswith("wrapping_mul") and len(args) == 2:
        return norm_bin("WrappingMul", args[0], args[1])
    return ("call", name, args)


# ---------------------------------------------------------------------- utilities

def show(e, depth=0):
    """Compact human-readable rendering of an expression (for reports)."""
    if not isinstance(e, tuple):
        return str(e)
    k = e[0]
    if k == "param":
        return e[2]
    if k == "var":
        return "%s@" % e[2]
    if k == "const":
        return str(e[1])
    if k == "named":
        return e[1].split("::")[-1]
    if k == "static":
        return e[1].split("::")[-1] + ("+%d" % e[2] if e[2] else "")
    if k == "field":
        return "%s.%s" % (show(e[1]), e[2])
    if k == "deref":
        return "*%s" % show(e[1])
    if k == "ref":
        return "&%s" % show(e[1])
    if k == "index":
        return "%s[%s]" % (show(e[1]), show(e[2]))
    if k == "downcast":
        return "(%s as %s)" % (show(e[1]), e[2])
    if k == "bin":
        return "(%s %s %s)" % (show(e[2]), e[1], show(e[3]))
    if k == "un":
        return "%s(%s)" % (e[1], show(e[2]))
    if k == "cast":
        return "(%s as %s)" % (show(e[2]), e[3])
    if k == "discr":
        return "discr(%s)" % show(e[1])
    if k == "call":
        nm = e[1]
        short = nm.split("::")[-1] if not nm.startswith("<") else nm
        return "%s(%s)" % (short, ", ".join(show(a) for a in e[2]))
    if k == "agg":
        return "%s::%s{%s}" % (str(e[1]).split("::")[-1], e[2], ", ".join(show(a) for a in e[3]))
    if k == "fn":
        return "fn:%s" % e[1]
    if k == "str":
        return repr(e[1])
    if k == "ld":
        return show(e[2]) + ("" if e[1] == 0 else "'%d" % e[1])
    if k == "tbl":
        return "%s[%s]" % (show(e[1]), show(e[2]))
    if k == "phi":
        return "phi(%s)" % e[2]
    if k == "callret":
        return "ret:%s" % e[1].split("::")[-1]
    if k == "upd":
        return "%s{%s}" % (show(e[1]), ", ".join("%s: %s" % (n_, show(v)) for n_, v in e[2]))
    if k == "sym":
        return "$%s" % e[1]
    if k == "zst":
        return "()"
    return str(e)


def walk(e):
    """Yield all sub-expressions (pre-order)."""
    if not isinstance(e, tuple):
        return
    yield e
    for x in e[1:]:
        if isinstance(x, tuple):
            if x and isinstance(x[0], str):
                yield from walk(x)
            else:
                for y in x:
                    yield from walk(y)


def contains(e, pred):
    return any(pred(x) for x in walk(e))


def strip_casts(e):
    while isinstance(e, tuple) and e[0] == "cast":
        e = e[2]
    return e


# ---------------------------------------------------------------------- normal form for matching

NEWTYPES = ("owlchess_base::bitboard::Bitboard", "owlchess_base::types::Coord", "owlchess_base::types::Cell",
            "owlchess_base::types::CastlingRights", "owlchess_base::bitboard::Iter")


def N(e):
    """Normal form used by structural matchers: newtype wrappers (`Bitboard(x)`, `.0`), value-preserving
    casts and `get_unchecked` table reads are made transparent; commutative operators are ordered."""
    if not isinstance(e, tuple) or not e:
        return e
    k = e[0]
    if k == "ld":
        return e
    if k == "agg" and e[1] in NEWTYPES and len(e[3]) == 1:
        return N(e[3][0])
    if k == "local":
        return e
    if k == "field":
        if e[2] == "0" and len(e) == 3:
            return N(e[1])
        return ("field", N(e[1])) + tuple(e[2:])
    if k == "cast":
        if e[1] in ("IntToInt", "PointerCoercion", "PtrToPtr"):
            return N(e[2])
        return ("cast", e[1], N(e[2]), e[3])
    if k == "deref":
        inner = N(e[1])
        if inner[0] == "call" and inner[1].startswith("core::slice::") and "get_unchecked" in inner[1]:
            tbl = inner[2][0]
            if tbl[0] == "ref":
                tbl = tbl[1]
            return ("tbl", tbl, inner[2][1])
        if inner[0] == "ref":
            return inner[1]
        return ("deref", inner)
    if k == "ref":
        inner = N(e[1])
        return ("ref", inner)
    if k == "bin":
        return norm_bin(e[1], N(e[2]), N(e[3]))
    if k == "un":
        return ("un", e[1], N(e[2]))
    if k == "call":
        args = tuple(N(a) for a in e[2])
        name = e[1]
        # derived operator impls on the Bitboard newtype are the operator itself
        for suffix, op in PRIM_BIN.items():
            if name.endswith(suffix) and len(args) == 2 and "Bitboard" in name:
                return norm_bin(op, args[0], args[1])
        if name.endswith("core::ops::bit::Not>::not") and "Bitboard" in name:
            return ("un", "Not", args[0])
        return ("call", name, args) + tuple(e[3:])      # a sequence stamp of an impure call is part of its identity
    if k == "index":
        return ("index", N(e[1]), N(e[2]))
    if k == "downcast":
        return ("downcast", N(e[1]), e[2])
    if k == "discr":
        return ("discr", N(e[1]))
    if k == "agg":
        return ("agg", e[1], e[2], tuple(N(a) for a in e[3]))
    return e


def match(pat, e, binds):
    """Structural match with wildcards ("?", name); repeated names must bind equal expressions."""
    if isinstance(pat, tuple) and len(pat) == 2 and pat[0] == "?":
        if pat[1] in binds:
            return binds[pat[1]] == e
        binds[pat[1]] = e
        return True
    if isinstance(pat, tuple) and isinstance(e, tuple):
        if len(pat) != len(e):
            return False
        return all(match(p, x, binds) for p, x in zip(pat, e))
    return pat == e


# ---------------------------------------------------------------------- per-path reconstruction

class PathResult:
    def __init__(self):
        self.blocks = []
        self.conds = []      # (discr_expr, taken_value or None, excluded_values, block)
        self.calls = []      # (callee_name, base, args, block, term)
        self.stores = []     # (place_expr, value_expr, block, stmt_index)
        self.asserts = []
        self.ret = None
        self.end = None      # "ret" | "diverge"
        self.state = {}


class PathEval(Builder):
    """Def-use reconstruction restricted to one acyclic CFG path at a time: locals are resolved
    through the assignments met *on that path*, so multi-def locals (`_0`, `let mut x`) get the
    value that path gives them. Nothing is evaluated; branch conditions are only recorded."""

    def __init__(self, facts, inline_depth=4, no_inline=(), max_paths=4000):
        super().__init__(facts, inline_depth, no_inline)
        self.max_paths = max_paths

    def enumerate_paths(self, body, start=0, stop_at=None):
        """All acyclic normal paths from `start` to a `ret` (or to a diverging end)."""
        out = []
        stack = [(start, (start,))]
        while stack:
            b, path = stack.pop()
            succs = body.succ(b)
            if not succs or (stop_at is not None and b in stop_at):
                out.append(list(path))
                if len(out) > self.max_paths:
                    raise RuntimeError("too many paths in %s" % body.fn.id)
                continue
            for s in succs:
                if s in path:
                    continue  # cut back edges: every block at most once per path
                stack.append((s, path + (s,)))
        return out

    def run(self, body, path, args=None):
        res = PathResult()
        res.blocks = list(path)
        st = {}
        self._st = st
        self._body = body
        self._args = args
        for idx, bi in enumerate(path):
            blk = body.blocks[bi]
            for si, s in enumerate(blk["stmts"]):
                if s[0] == "assign":
                    pl, rv = s[1], s[2]
                    val = self.rvalue(body, rv, args, 0)
                    if not pl["p"]:
                        st[pl["l"]] = val
                    else:
                        tgt = self.place(body, pl, args, 0)
                        res.stores.append((tgt, val, bi, si))
                        self._store_into(st, body, pl, val)
                elif s[0] == "setdiscr":
                    res.stores.append((("discr", self.place(body, s[1], args, 0)), ("const", s[2], "variant"), bi, si))
            t = blk["term"]
            k = t["k"]
            nxt = path[idx + 1] if idx + 1 < len(path) else None
            if k == "switch":
                d = self.operand(body, t["d"], args, 0)
                taken = None
                for v, tb in t["cases"]:
                    if tb == nxt:
                        taken = int(v)
                        break
                excl = [int(v) for v, tb in t["cases"]] if taken is None else []
                # several case values may lead to the same block
                same = [int(v) for v, tb in t["cases"] if tb == nxt]
                res.conds.append((d, taken, excl, bi, same))
            elif k == "call":
                e = self.call(body, t, args, 0)
                f = t["f"]
                name = callee_name(f)
                base = (self.facts.fns[f["inst"]].def_path if "inst" in f else f.get("base"))
                cargs = tuple(self.operand(body, a, args, 0) for a in t["args"])
                res.calls.append((name, base, cargs, bi, t))
                d = t["dest"]
                if not d["p"]:
                    st[d["l"]] = e
                else:
                    res.stores.append((self.place(body, d, args, 0), e, bi, None))
            elif k == "assert":
                res.asserts.append((self.operand(body, t["c"], args, 0), t["exp"], t["msg"]["kind"], bi))
            if k == "ret":
                res.end = "ret"
                res.ret = st.get(0, ("var", 0, "_0"))
            elif nxt is None:
                res.end = "diverge" if not body.succ(bi) else "cut"
        res.state = dict(st)
        self._st = None
        return res

    def _store_into(self, st, body, pl, val):
        # a store through a projection invalidates what we know about the root local, unless it is a
        # field of a locally built aggregate
        root = pl["l"]
        if any(e[0] == "deref" for e in pl["p"]):
            return
        cur = st.get(root)
        if cur is not None and cur[0] == "agg" and len(pl["p"]) == 1 and pl["p"][0][0] == "field":
            idx = pl["p"][0][1]
            if idx < len(cur[3]):
                fields = list(cur[3])
                fields[idx] = val
                st[root] = ("agg", cur[1], cur[2], tuple(fields))
                return
        st[root] = ("var", root, body.names.get(root, "_%d" % root))

    # locals are resolved through the path state first
    def local(self, body, l, env=None, depth=0):
        if depth == 0 and getattr(self, "_st", None) is not None and body is self._body:
            if l in self._st:
                return self._st[l]
            if 1 <= l <= body.argc:
                if env is not None:
                    return env[l - 1]
                return ("param", l, body.names.get(l, "_%d" % l))
            return ("var", l, body.names.get(l, "_%d" % l))
        return super().local(body, l, env, depth)
