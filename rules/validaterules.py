"""Validation rules: TryFrom<RawBoard> for Board (C11 V1-V3, parts of C02, C19)."""
from itertools import product

from . import decision
from .fx import FxBuilder, walk_tree, tree_paths, unstamp, path_value
from .expr import show
from .boardsim import cell, sq, castling_rank_idx, PAWN, KING, ROOK, WHITE, BLACK

TF = "<owlchess::board::Board as core::convert::TryFrom<owlchess::board::RawBoard>>::try_from"
VE = "owlchess::board::ValidateError"
STOP = ("owlchess::board::RawBoard::zobrist_hash", "owlchess::board::Board::is_opponent_king_attacked")
BAD_PAWN_MASK = 0xff000000000000ff


def _tree(facts):
    fn = facts.fns.get(TF)
    if fn is None:
        return None, None
    fb = FxBuilder(facts, stop=STOP)
    return fn, fb.tree(fn)


def _variant(facts, path, idx):
    a = facts.adts.get(path)
    for i, v in enumerate(a["variants"]):
        if i == idx or v["discr"] == idx:
            return v["name"]
    return None


def errors_rule(ctx, facts, rid):
    r = ctx.rule(rid, "validation fails exactly when a validity condition is violated, and the reported reason holds")
    fn, tree = _tree(facts)
    if fn is None:
        r.anchor_missing(TF)
        return

    def rec(d):
        s = show(d)
        if d[0] == "const":
            return ("ignore",)
        if s == "discr(raw.ep_source)":
            return ("discr", "ep")
        if s == "discr(raw.side)":
            return ("discr", "side")
        if d[0] == "bin" and d[1] in ("Ne", "Eq") and all(x[0] == "phi" for x in (d[2], d[3])):
            # rank(p) != enpassant_src_rank(side): both operands are tables over (p >> 3) / side
            return ("pred", "ep_rank_bad", d[1] == "Ne")
        if d[0] == "bin" and d[1] in ("Gt", "Ge", "Lt", "Le") and d[2][0] == "call" and d[2][1].endswith("count_ones") and d[3][0] == "const":
            x = show(d[2][2][0])
            name = {"white@": "white", "black@": "black", "pieces@[2]": "wk", "pieces@[8]": "bk"}.get(x)
            if name:
                return ("cmp", "n_" + name, d[1], d[3][1])
        if d[0] == "bin" and d[1] == "Eq" and d[2] == ("const", 0, "u64"):
            x = show(d[3])
            name = {"pieces@[2]": "wk", "pieces@[8]": "bk"}.get(x)
            if name:
                return ("cmp", "n_" + name, "Eq", 0)
        if d[0] == "bin" and d[1] in ("Ne", "Eq") and ("pieces@[1] BitOr pieces@[7]" in s or "pieces@[7] BitOr pieces@[1]" in s):
            m = [x for x in (d[2], d[3]) if x[0] == "bin" and x[1] == "BitAnd"]
            if m and any(y[0] == "const" and y[1] == BAD_PAWN_MASK for y in (m[0][2], m[0][3])):
                return ("pred", "bad_pawns", d[1] == "Ne")
            return None
        if d[0] == "bin" and d[1] == "BitAnd" and ("pieces@[1] BitOr pieces@[7]" in s or "pieces@[7] BitOr pieces@[1]" in s) \
                and any(y[0] == "const" and y[1] == BAD_PAWN_MASK for y in (d[2], d[3])):
            # the set itself as the scrutinee (`match bits { 0 => .., _ => .. }`): zero exactly when no pawn is misplaced
            return ("pred", "bad_pawns", True)
        if d[0] == "call" and d[1] == "owlchess::board::Board::is_opponent_king_attacked":
            return ("pred", "opp_attacked", True)
        # normalisation tests and loop control do not influence acceptance
        if "raw.cells[" in s or "Iterator>::next" in s or "wrapping_add" in s or s.startswith("((raw.ep_source as Some) Shr 3)") \
                or s.startswith("discr(phi") or s.startswith("discr((phi") or s.startswith("*(<core::iter") or "(1 Le *(" in s or "Le 6)" in s:
            return ("ignore",)
        return None

    def classify(v):
        if v[0] == "agg" and v[2] == "Ok":
            return "Ok"
        if v[0] == "agg" and v[2] == "Err":
            e = v[3][0]
            return e[2] if e[0] == "agg" else show(e)
        return "?" + show(v)[:40]

    counts = {"n_white": (1, 16, 17), "n_black": (1, 16, 17), "n_wk": (0, 1, 2), "n_bk": (0, 1, 2)}
    n = 0
    unknown_seen = set()
    for ep, ep_bad, nw, nb, nwk, nbk, bad_pawns, att in product((0, 1), (False, True), counts["n_white"], counts["n_black"],
                                                                counts["n_wk"], counts["n_bk"], (False, True), (False, True)):
        if ep == 0 and ep_bad:
            continue
        pt = {"ep": ep, "ep_rank_bad": ep_bad, "n_white": nw, "n_black": nb, "n_wk": nwk, "n_bk": nbk, "bad_pawns": bad_pawns,
              "opp_attacked": att}
        holds = {
            "InvalidEnpassant": ep == 1 and ep_bad, "TooManyPieces": nw > 16 or nb > 16, "NoKing": nwk == 0 or nbk == 0,
            "TooManyKings": nwk > 1 or nbk > 1, "InvalidPawn": bad_pawns, "OpponentKingAttacked": att,
        }
        valid = not any(holds.values())
        res = decision.eval_point(tree, pt, rec, classify)
        res = {x for x in res if not (isinstance(x, tuple) and x[0] == "panic")}   # panic freedom is C12/C02-M5
        n += 1
        key = "try_from(%s)" % ",".join("%s=%s" % kv for kv in sorted(pt.items()))
        unk = [x for x in res if isinstance(x, tuple) and x[0] == "?"]
        if unk:
            if unk[0][1] not in unknown_seen:
                unknown_seen.add(unk[0][1])
                r.fail("try_from/conditions/" + unk[0][1][:40], "validation tests a condition this rule does not understand: %s" % unk[0][1],
                       site=ctx.site(fn))
            continue
        if len(res) != 1:
            r.fail(key, "%s: %s outcomes apply %s" % (key, len(res), sorted(map(str, res))), site=ctx.site(fn))
            continue
        got = res.pop()
        if valid:
            r.check(got == "Ok", key, "%s: a valid raw board is refused with %s" % (key, got), site=ctx.site(fn), what=key + " -> Ok")
        else:
            r.check(got != "Ok" and holds.get(got, False), key,
                    "%s: an invalid raw board gives %s, but the conditions that hold are %s" % (key, got, [k for k, v in holds.items() if v]),
                    site=ctx.site(fn), what=key + " -> " + str(got))
    ctx.extra["validation_points"] = n
    # colour arguments of the colour-carrying errors
    for n_, conds, _i in walk_tree(tree):
        pass


def _const_values(e):
    """The constants an expression can take over the alternatives of its phis (`Cell::from_parts(side.inv(), Pawn)` in any spelling)."""
    if e[0] == "const" and isinstance(e[1], int):
        return {e[1]}
    if e[0] == "phi":
        out = set()
        for _l, v in e[3]:
            x = _const_values(v)
            if x is None:
                return None
            out |= x
        return out
    if e[0] == "cast":
        return _const_values(e[2])
    if e[0] == "bin" and e[1] in ("Add", "BitOr", "AddUnchecked"):
        a, b = _const_values(e[2]), _const_values(e[3])
        if a is None or b is None:
            return None
        return {(x + y) if e[1] != "BitOr" else (x | y) for x in a for y in b}
    if e[0] == "field" and e[2] == "#0" and e[1][0] == "bin" and e[1][1] == "AddWithOverflow":
        return _const_values(("bin", "Add", e[1][2], e[1][3]))
    return None


def normalise_rule(ctx, facts, rid):
    r = ctx.rule(rid, "validation changes only the en-passant mark and castling rights, under exactly the documented conditions")
    fn, tree = _tree(facts)
    if fn is None:
        r.anchor_missing(TF)
        return
    # write set on raw
    fields = set()
    for n_, _c, _i in walk_tree(tree):
        if n_[0] == "lstore" and n_[3].startswith("raw."):
            fields.add(n_[3].split(".")[1])
    r.check(fields <= {"ep_source", "castling"} and fields == {"ep_source", "castling"}, "raw-write-set",
            "validation writes raw.%s; only ep_source and castling may be normalised" % sorted(fields), site=ctx.site(fn),
            what="write set on raw = {ep_source, castling}")
    # castling resets: (colour, side) cleared iff the home square does not hold the man
    got = set()
    odd = []
    for n_, conds, _i in walk_tree(tree):
        if n_[0] == "inlined" and n_[1] == "owlchess_base::types::CastlingRights::unset":
            c, s = n_[2][1], n_[2][2]
            if not (c[0] == "const" and s[0] == "const" and "castling" in show(n_[2][0])):
                odd.append(show(n_[2]))
                continue
            inner = conds[-1] if conds else None
            ok = False
            if inner is not None:
                d, lab, _cv = inner
                d = unstamp(d)
                truth = not (lab != "else" and 0 in lab)
                if d[0] == "bin" and d[1] in ("Ne", "Eq"):
                    k, x = (d[2], d[3]) if d[2][0] == "const" else (d[3], d[2])
                    cells = x[0] == "tbl" and show(x[1]) == "raw.cells" and x[2][0] == "const"
                    if k[0] == "const" and cells and (truth == (d[1] == "Ne")):
                        got.add((c[1], s[1], k[1], x[2][1]))
                        ok = True
            if not ok:
                odd.append("unset(%s,%s) under %s" % (c[1], s[1], show(unstamp(inner[0])) if inner else "no condition"))
    want = set()
    for c in (WHITE, BLACK):
        rk = castling_rank_idx(c)
        want |= {(c, 0, cell(c, KING), sq(4, rk)), (c, 1, cell(c, KING), sq(4, rk)),
                 (c, 0, cell(c, ROOK), sq(0, rk)), (c, 1, cell(c, ROOK), sq(7, rk))}
    r.check(got == want and not odd, "castling-resets",
            "castling rights are dropped under %s (+%s); documented: own king not on e1/e8 -> both, own rook not on a-file -> queenside, "
            "own rook not on h-file -> kingside, i.e. %s" % (sorted(got), odd[:3], sorted(want)), site=ctx.site(fn),
            what="8 (colour, side, home man, home square) reset conditions")
    # en-passant reset: no enemy pawn on the marked square, or the square behind it occupied
    resets = []
    for n_, conds, _i in walk_tree(tree):
        if n_[0] == "lstore" and n_[3] == "raw.ep_source" and unstamp(n_[4])[0] == "agg" and unstamp(n_[4])[2] == "None":
            cs = []
            for d, lab, _cv in conds:
                truth = not (lab != "else" and 0 in lab)
                cs.append((show(unstamp(d)), truth))
            resets.append(cs)
    def has(cs, frag, truth):
        return any(frag in s and t == truth for s, t in cs)
    a = [cs for cs in resets if has(cs, "Ne raw.cells[(raw.ep_source as Some)]", True)]
    b = [cs for cs in resets if has(cs, "Ne raw.cells[(raw.ep_source as Some)]", False)
         and has(cs, "(0 Ne raw.cells[wrapping_add((raw.ep_source as Some), ", True)]
    r.check(len(resets) == 2 and len(a) == 1 and len(b) == 1, "ep-reset",
            "the en-passant mark is reset under %s; documented: marked square does not hold an enemy pawn, or the square behind it is occupied"
            % resets, site=ctx.site(fn), what="ep reset iff no enemy pawn on the mark or square behind occupied")
    # the pawn compared is the opponent's pawn, the square behind is p + forward(side)
    okp = False
    for n_, conds, _i in walk_tree(tree):
        if n_[0] == "switch":
            d = unstamp(n_[1])
            if d[0] == "bin" and d[1] in ("Ne", "Eq") and "raw.cells[(raw.ep_source as Some)]" in show(d):
                other = d[3] if "raw.cells[(raw.ep_source as Some)]" in show(d[2]) else d[2]
                vals = _const_values(other)
                if vals is not None:
                    okp = sorted(vals) == [cell(WHITE, PAWN), cell(BLACK, PAWN)]
    r.check(okp, "ep-reset/pawn-colour", "the man expected on the en-passant square is not the opponent's pawn", site=ctx.site(fn),
            what="ep square must hold pawn(side.inv())")


def occupancy_loop_rule(ctx, facts, rid):
    r = ctx.rule(rid, "validation builds the occupancy sets from the cells: colour -> white/black, cell index -> pieces[]; all = white | black")
    fn, tree = _tree(facts)
    if fn is None:
        r.anchor_missing(TF)
        return
    sets = {}
    for n_, conds, _i in walk_tree(tree):
        if n_[0] == "lstore" and n_[3] in ("white", "black"):
            v = unstamp(n_[4])
            cs = [(show(unstamp(d)), lab) for d, lab, _cv in conds]
            col = None
            for s, lab in cs:
                if s.startswith("discr((phi(_0) as Some))") or s.startswith("discr(phi(_0) as Some") or "as Some))" in s and s.startswith("discr("):
                    col = lab
            is_or = v[0] == "bin" and v[1] == "BitOr" and "(1 Shl " in show(v)
            sets[n_[3]] = (col, is_or)
    r.check(sets.get("white") == ((0,), True) and sets.get("black") == ((1,), True), "colour-sets",
            "white/black sets are not `set |= 1 << index` under the cell's colour: %s" % sets, site=ctx.site(fn),
            what="white |= bit(i) if colour White; black |= bit(i) if colour Black")
    # pieces[cell.index()].set(coord) and the final aggregate
    body = fn.body
    has_set = False
    for bi, t in body.calls():
        f = t["f"]
        if "inst" in f and facts.fns[f["inst"]].def_path == "owlchess_base::bitboard::Bitboard::set":
            has_set = True
    agg_ok = False
    for n_, _c, _i in walk_tree(tree):
        if n_[0] == "call" and n_[2] == "owlchess::board::Board::is_opponent_king_attacked":
            a = unstamp(n_[3][0])
            s = show(a)
            agg_ok = "Board::Board{" in s and "white@, black@, (white@ BitOr black@), pieces@}" in s.replace("(black@ BitOr white@)", "(white@ BitOr black@)")
    r.check(has_set and agg_ok, "pieces-and-all", "pieces[] is not filled by Bitboard::set in the loop, or the Board aggregate is not "
            "{raw, hash, white, black, white|black, pieces}", site=ctx.site(fn), what="pieces[cell].set(i); all = white | black")
