"""Abstract interpretation of effect trees: which assertion, panic or unsafe precondition can be reached?

Nothing is executed. For one function instance (a *unit*) the effect tree built by fx.FxBuilder is
explored path by path; along a path the analysis keeps

  * an interval for every expression that was tested or refined (`cons`), plus excluded values (`ne`),
  * the branch taken at every switch (so merged values - phi nodes - resolve to the branch's own value),
  * object facts for slices and strings ("is ASCII", "is valid UTF-8"), lengths as linear forms over
    the lengths of the objects they were cut from,
  * linear equalities that were proved to be loop invariants.

Every integer-typed expression starts from the range of its type; newtypes with a range invariant
(Coord < 64, Cell < 13, CastlingRights < 16) start from the invariant, which is in turn an obligation at
every place such a value is constructed. A branch whose condition is decidable from the current facts
is not explored; the others refine the facts. Obligations (assert terminators, diverging panic calls,
preconditions of std functions with a documented panic, preconditions of unsafe operations) are
discharged when the facts imply them and reported otherwise.

The analysis is modular with demand-driven inlining: each function is first analysed on its own with
unconstrained parameters (only their types and type invariants). A function that discharges all of its
obligations is *total* and is an opaque call for its callers; one that does not is *partial* and is
spliced into each caller, so that its obligations are decided with the caller's facts. What remains
open at an entry point is a finding. Loops: values assigned in a loop are unknown at its head, then
constrained by an interval invariant found by iteration with widening to thresholds; declared linear
invariants are checked to be inductive before they are used.
"""
from .fx import FxBuilder, simplify_variants, walk_tree
from .expr import show, N, body_info

BIG = 1 << 140
TOP = (-BIG, BIG)

TYPE_INV = {
    "owlchess_base::types::Coord": (0, 63),
    "owlchess_base::types::Cell": (0, 12),
    "owlchess_base::types::CastlingRights": (0, 15),
}
TRANSPARENT = {"owlchess_base::bitboard::Bitboard": (0, (1 << 64) - 1),
               "owlchess_base::bitboard::Iter": (0, (1 << 64) - 1)}

CMP = ("Lt", "Le", "Gt", "Ge", "Eq", "Ne")
NEG = {"Lt": "Ge", "Le": "Gt", "Gt": "Le", "Ge": "Lt", "Eq": "Ne", "Ne": "Eq"}
SWAP = {"Lt": "Gt", "Le": "Ge", "Gt": "Lt", "Ge": "Le", "Eq": "Eq", "Ne": "Ne"}


def meet(a, b):
    return (max(a[0], b[0]), min(a[1], b[1]))


def join(a, b):
    return (min(a[0], b[0]), max(a[1], b[1]))


def empty(r):
    return r[0] > r[1]


def last_seg(name):
    """Last path segment of a callee name, without generic arguments."""
    depth = 0
    cur = []
    segs = []
    i = 0
    while i < len(name):
        ch = name[i]
        if ch == "<":
            depth += 1
        elif ch == ">" and not (i > 0 and name[i - 1] == "-"):
            depth -= 1
        if ch == ":" and depth == 0 and name[i:i + 2] == "::":
            segs.append("".join(cur))
            cur = []
            i += 2
            continue
        cur.append(ch)
        i += 1
    segs.append("".join(cur))
    segs = [s for s in segs if s and not s.startswith("<")]
    return segs[-1].split("<")[0] if segs else name


# ------------------------------------------------------------------------------------------ std knowledge
# Every external callee that appears in the facts must be classified here (fail closed on an unknown one).

# never panics for any argument (allocation failure is outside the model), has no unsafe precondition
TOTAL_EXT = {
    "as_ref", "into_iter", "to_string", "into", "try_into", "clone", "deref", "next", "eq", "ne",
    "from_residual", "branch", "default", "bitand", "bitand_assign", "bitor", "bitor_assign", "bitxor",
    "bitxor_assign", "not", "is_empty", "len", "pop", "push", "new", "retain", "then_some", "from",
    "is_ascii_uppercase", "to_ascii_lowercase", "from_str", "write_fmt", "new_binary", "new_display", "new_debug",
    "all", "collect", "enumerate", "fuse", "map", "zip", "saturating_add", "count_ones", "reverse_bits",
    "swap_bytes", "trailing_zeros", "wrapping_mul", "wrapping_neg", "wrapping_sub", "abs_diff", "wrapping_add",
    "is_none", "is_some", "ok_or", "unwrap_or", "unwrap_or_else", "is_err", "is_ok", "map_err", "ok", "first",
    "iter", "split_last", "as_bytes", "bytes", "get", "is_ascii", "split", "split_ascii_whitespace", "from_utf8",
    "and_modify", "or_insert", "entry", "get_mut", "remove", "copied", "cloned", "rev", "chars", "last",
    "is_ascii_digit", "to_digit", "ok_or_else", "as_str", "trim", "eq_ignore_ascii_case", "fmt", "write_str",
    "write_char", "pad", "leading_zeros", "min", "max", "cmp", "partial_cmp", "hash", "as_slice", "lt", "le", "gt", "ge",
    "borrow", "drop", "take", "as_mut", "unwrap_or_default", "and_then", "filter", "count", "sum", "any", "position",
    "find", "is_char_boundary", "checked_sub", "checked_add", "then", "extend", "with_capacity", "reserve", "truncate",
    "clear", "as_mut_slice", "deref_mut", "iter_mut", "try_push", "is_full", "capacity", "starts_with", "ends_with",
    "strip_prefix", "strip_suffix", "split_first", "split_once", "find_map", "try_from", "to_owned", "to_ascii_uppercase",
    "is_ascii_lowercase", "is_ascii_alphabetic", "swap", "contains",
    # further combinators and adapters without a panicking path of their own (closures they call are analysed as units)
    "transpose", "map_or", "map_or_else", "chain", "fold", "flatten", "flat_map", "filter_map", "take_while", "skip_while", "skip", "take_n",
    "peekable", "peek", "by_ref", "nth", "min_by_key", "max_by_key", "min_by", "max_by", "for_each", "try_for_each", "try_fold", "inspect",
    "last_mut", "first_mut", "or", "or_else", "xor", "and", "zip_with", "unzip", "rposition", "is_sorted", "eq_by", "cmp_by", "partial_cmp_by",
    "as_deref", "as_deref_mut", "get_or_insert_with", "insert", "replace", "unwrap_unchecked_never", "copied_iter", "char_indices",
    "split_whitespace", "lines", "trim_start", "trim_end", "to_lowercase", "to_uppercase", "push_str", "as_ptr", "is_digit", "is_alphanumeric",
    "is_whitespace", "len_utf8", "encode_utf8", "saturating_sub", "checked_mul", "checked_div", "wrapping_shl", "wrapping_shr", "rotate_left",
    "rotate_right", "pow_checked", "signum", "is_positive", "is_negative", "unsigned_abs", "from_le_bytes", "to_le_bytes", "from_be_bytes",
    "to_be_bytes", "then_with", "reverse", "is_lt", "is_le", "is_gt", "is_ge", "is_eq", "is_ne", "borrow_mut", "as_any", "type_id",
}
# the ones in TOTAL_EXT that are total only with a qualification
TOTAL_NOTES = {
    "push": "Vec::push (arrayvec::ArrayVec::push is handled as partial: panics when full)",
    "to_string": "panics only if a Display impl returns Err; Display impls are local and analysed",
    "new": "core::fmt::Arguments::new is marked unsafe in MIR but only generated by format_args!",
    "swap": "mem::swap / slice::swap: only mem::swap occurs",
}
PANIC_FNS = ("core::panicking::", "core::option::unwrap_failed", "core::result::unwrap_failed",
             "core::option::expect_failed", "core::slice::index::", "core::str::slice_error_fail",
             "std::panicking::", "core::panicking::panic_fmt")


class St:
    __slots__ = ("cons", "ne", "choices", "flags", "subst", "prov", "may")

    def __init__(self):
        self.cons = {}
        self.ne = {}
        self.choices = {}
        self.flags = set()
        self.subst = {}
        self.prov = {}      # (frame, local) of a `for` loop's iterator temporary -> iterator expression before the loop
        self.may = {}       # expression -> mask of bits that may be set (bitboards)

    def copy(self):
        s = St()
        s.cons = dict(self.cons)
        s.ne = dict(self.ne)
        s.choices = dict(self.choices)
        s.flags = set(self.flags)
        s.subst = dict(self.subst)
        s.prov = dict(self.prov)
        s.may = dict(self.may)
        return s


class Obligation:
    __slots__ = ("kind", "what", "site", "chain", "detail", "status")

    def __init__(self, kind, what, site, chain, detail, status):
        self.kind = kind
        self.what = what
        self.site = site
        self.chain = chain
        self.detail = detail
        self.status = status

    def key(self):
        return (self.kind, self.what, self.site.fn.id, self.site.bi)

    def __repr__(self):
        return "%s %s at %s [%s] %s" % (self.kind, self.what, self.site, self.status, self.detail[:160])


class Unit:
    """Exploration of one function instance."""

    def __init__(self, an, fn, env=None):
        self.an = an
        self.fn = fn
        self.fb = FxBuilder(an.facts, inline=an.inline_pred(fn), max_depth=an.max_depth, max_blocks=10 ** 6,
                            ai_mode=True, invariants=TYPE_INV, agg_watch=an.agg_watch)
        self.tree = self.fb.tree(fn)
        an.spliced |= self.fb.spliced
        self.done_ctx = set()     # (obligation key, call chain) discharged
        self.assumed = {}         # assumption key -> uses
        self.open = {}            # key -> Obligation (not discharged on at least one path)
        self.done = {}            # key -> count of discharges
        self.calls = set()        # opaque local callees (must be total)
        self.ext = {}             # ext callee names seen -> count
        self.board_dep = False
        self.ret_range = None     # join of the ranges of the returned value (integer-like return types)
        self.ret_set = frozenset()  # exact set of returned enum discriminants (None: unknown)
        self.paths = 0
        self.loops = {}           # (fn id, header) -> {var: range}
        self.quiet = 0
        self.canon_memo = {}
        self.steps = 0

    # ---------------------------------------------------------------------------------- types
    def trange(self, e):
        ty = self.fb.etypes.get(e)
        if ty is None:
            if e[0] == "len":
                return (0, (1 << 64) - 1)
            if e[0] == "const" and len(e) > 2 and isinstance(e[2], str):
                return self.an.named_range(e[2])
            return None
        return self.an.type_range(ty)

    def ety(self, e):
        return self.fb.etypes.get(e)

    # ---------------------------------------------------------------------------------- canonical form
    def canon(self, e):
        if not isinstance(e, tuple) or not e or not isinstance(e[0], str):
            return e
        m = self.canon_memo.get(e)
        if m is not None:
            return m
        r = self._canon(e)
        if r != e:
            ty = self.fb.etypes.get(e)
            if ty is not None:
                self.fb.etypes.setdefault(r, ty)
        self.canon_memo[e] = r
        return r

    def _canon(self, e):
        k = e[0]
        if k in ("const", "param", "var", "named", "local"):
            return e
        if k == "ld":
            return ("ld", e[1], self.canon(e[2]))
        if k == "call":
            args = tuple(self.canon(a) for a in e[2])
            ls = last_seg(e[1])
            if ls in ("as_bytes", "as_ref", "as_str", "deref", "as_slice") and len(args) == 1:
                return args[0]
            if ls == "len" and len(args) == 1 and ("slice" in e[1] or "str" in e[1] or "Vec" in e[1] or "ArrayVec" in e[1]):
                return ("len", args[0])
            if ls == "is_empty" and len(args) == 1:
                return ("bin", "Eq", ("len", args[0]), ("const", 0, "usize"))
            return ("call", e[1], args) + tuple(e[3:])
        if k == "un":
            a = self.canon(e[2])
            if e[1] == "PtrMetadata":
                return ("len", a)
            return ("un", e[1], a)
        if k == "downcast":
            inner = self.canon(e[1])
            v = e[2]
            if inner[0] == "agg" and inner[2] == v and len(inner[3]) == 1 and \
                    inner[1].split("::")[-1] in ("Option", "Result", "ControlFlow"):
                return inner[3][0]
            if inner[0] == "call":
                ls = last_seg(inner[1])
                if ls == "branch" and v == "Continue" and "Result<" in inner[1]:
                    return self.canon(("downcast", inner[2][0], "Ok"))
                if ls == "branch" and v == "Continue" and "Option<" in inner[1]:
                    return self.canon(("downcast", inner[2][0], "Some"))
                if ls in ("ok_or", "ok_or_else") and v == "Ok":
                    return self.canon(("downcast", inner[2][0], "Some"))
                if ls == "map_err" and v == "Ok":
                    return self.canon(("downcast", inner[2][0], "Ok"))
                if ls == "ok" and v == "Some":
                    return self.canon(("downcast", inner[2][0], "Ok"))
            return ("downcast", inner, v)
        if k == "discr":
            inner = self.canon(e[1])
            if inner[0] == "call":
                ls = last_seg(inner[1])
                if ls == "branch" and "Result<" in inner[1]:
                    return self.canon(("discr", inner[2][0]))
                if ls == "map_err":
                    return self.canon(("discr", inner[2][0]))
            return ("discr", inner)
        if k == "bin" and e[1] in ("Eq", "Ne"):
            a, b = self.canon(e[2]), self.canon(e[3])
            ea, eb = self._enum_valued(a), self._enum_valued(b)
            if ea or eb:
                # equality of fieldless enum values is equality of their discriminants
                a2 = ("const", a[1], "isize") if a[0] == "const" else (("discr", a) if ea else a)
                b2 = ("const", b[1], "isize") if b[0] == "const" else (("discr", b) if eb else b)
                return ("bin", e[1], a2, b2)
            return ("bin", e[1], a, b)
        if k in ("tbl", "index") and len(e) == 3:
            b = self.canon(e[1])
            i = self.canon(e[2])
            if b[0] == "ref":
                b = b[1]
            return ("tbl" if b[0] == "named" else "index", b, i)
        if k == "field" and isinstance(e[2], str) and e[2].startswith("#"):
            b = self.canon(e[1])
            if b[0] == "agg" and b[1] in ("tuple", "closure") and e[2][1:].isdigit() and int(e[2][1:]) < len(b[3]):
                return b[3][int(e[2][1:])]
            return ("field", b) + tuple(e[2:])
        out = [k]
        for x in e[1:]:
            if isinstance(x, tuple) and x and isinstance(x[0], str):
                out.append(self.canon(x))
            elif isinstance(x, tuple):
                out.append(tuple(self.canon(y) if isinstance(y, tuple) else y for y in x))
            else:
                out.append(x)
        return tuple(out)

    def resolve(self, e, choices):
        """Replace phi nodes by the value of the branch taken on this path (types follow the nodes)."""
        if not isinstance(e, tuple) or not e:
            return e
        if e[0] == "phi":
            lab = choices.get(e[1])
            for l, v in e[3]:
                if l == lab:
                    return self.resolve(v, choices)
            return e
        if e[0] in ("const", "param", "var", "named"):
            return e
        out = []
        changed = False
        for x in e:
            if isinstance(x, tuple):
                if x and isinstance(x[0], str):
                    y = self.resolve(x, choices)
                else:
                    y = tuple(self.resolve(z, choices) if isinstance(z, tuple) else z for z in x)
                changed = changed or y is not x and y != x
                out.append(y)
            else:
                out.append(x)
        if not changed:
            return e
        r = tuple(out)
        ty = self.fb.etypes.get(e)
        if ty is not None:
            self.fb.etypes.setdefault(r, ty)
        return r

    def _enum_valued(self, x):
        if x[0] in ("discr", "bin", "un", "len"):
            return False
        if x[0] == "const":
            return False
        ty = self.ety(x)
        return ty is not None and self.an.is_fieldless_enum(ty)

    def val(self, e, st):
        r = self.resolve(e, st.choices)
        v = simplify_variants(r)
        if v != r:
            ty = self.fb.etypes.get(r)
            if ty is not None:
                self.fb.etypes.setdefault(v, ty)
        return self.canon(v)

    # ---------------------------------------------------------------------------------- objects (slices, strs)
    def obj_parent(self, o):
        """(parent object, relation) for a slice/str cut from another one."""
        k = o[0]
        if k == "call":
            ls = last_seg(o[1])
            if ls == "index" and len(o[2]) == 2:
                return o[2][0], ("index", o[2][1])
            if ls in ("unwrap", "expect") and o[2] and o[2][0][0] == "call" and last_seg(o[2][0][1]) == "from_utf8":
                return o[2][0][2][0], ("same",)
            if ls in ("trim",):
                return o[2][0], ("sub",)
        if k == "downcast":
            inner = o[1]
            if inner[0] == "call":
                ls = last_seg(inner[1])
                if ls == "from_utf8" and o[2] == "Ok":
                    return inner[2][0], ("same",)
                if ls == "get" and o[2] == "Some" and len(inner[2]) == 2:
                    return inner[2][0], ("index", inner[2][1])
        if k == "field":
            b = o[1]
            if b[0] == "call" and last_seg(b[1]) == "split_at" and o[2] in ("#0", "#1"):
                return b[2][0], ("split_at", b[2][1], o[2])
            if b[0] == "downcast" and b[2] == "Some" and b[1][0] == "call" and o[2] == "#1":
                ls = last_seg(b[1][1])
                if ls == "split_last":
                    return b[1][2][0], ("rest_last", b[1])
                if ls == "split_first":
                    return b[1][2][0], ("rest_first", b[1])
        return None

    def is_ascii(self, o, st, depth=0):
        if ("ascii", o) in st.flags:
            return True
        if depth > 12:
            return False
        p = self.obj_parent(o)
        if p is not None:
            return self.is_ascii(p[0], st, depth + 1)
        return False

    def is_utf8(self, o, st, depth=0):
        if ("ascii", o) in st.flags or ("utf8", o) in st.flags:
            return True
        ty = self.ety(o)
        if ty is not None and self.an.is_str_ref(ty):
            return True
        if depth > 12:
            return False
        p = self.obj_parent(o)
        if p is None:
            return False
        par, rel = p
        if rel[0] == "same":
            return self.is_utf8(par, st, depth + 1)
        if self.is_ascii(par, st):
            return True
        if rel[0] in ("rest_last", "rest_first"):
            # removing one byte < 128 from either end of valid UTF-8 leaves valid UTF-8
            if not self.is_utf8(par, st, depth + 1):
                return False
            byte_place = ("deref", ("field", ("downcast", rel[1], "Some"), "#0"))
            for key, r in st.cons.items():
                if key[0] == "ld" and self._same_place(key[2], byte_place) and 0 <= r[0] and r[1] <= 127:
                    return True
            return False
        return False

    @staticmethod
    def _same_place(a, b):
        return a == b or N(a) == N(b)

    # ---------------------------------------------------------------------------------- linear forms
    def lin(self, e, st, depth=0):
        """{atom: coefficient, None: constant}: value of e as an integer linear form (exact, no wrapping)."""
        if not isinstance(e, tuple) or not e:
            return {e: 1}
        k = e[0]
        if k == "const":
            v = e[1]
            if isinstance(v, bool):
                v = int(v)
            if isinstance(v, int):
                return {None: v}
            return {e: 1}
        if e in st.subst:
            return dict(st.subst[e])
        if depth > 6:
            return {e: 1}
        if k == "field" and e[2] == "#0" and e[1][0] == "bin" and e[1][1] in ("AddWithOverflow", "SubWithOverflow", "MulWithOverflow"):
            op = e[1][1][:3]
            r = self._lin_arith(op, e[1][2], e[1][3], e, st, depth)
            if r is not None:
                return r
        if k == "bin" and e[1] in ("Add", "Sub", "Mul", "AddUnchecked", "SubUnchecked", "MulUnchecked"):
            r = self._lin_arith(e[1][:3], e[2], e[3], e, st, depth)
            if r is not None:
                return r
        if k == "bin" and e[1] in ("Shl", "ShlUnchecked") and e[3][0] == "const" and isinstance(e[3][1], int) and 0 <= e[3][1] < 64:
            r = self._lin_arith("Mul", e[2], ("const", 1 << e[3][1], "usize"), e, st, depth)
            if r is not None:
                return r
        if k == "len":
            p = self.obj_parent(e[1])
            if p is not None:
                par, rel = p
                lp = self.lin(("len", par), st, depth + 1)
                if rel[0] == "same":
                    return lp
                if rel[0] == "index":
                    rg = rel[1]
                    if rg[0] == "agg" and rg[2] == "RangeFrom":
                        return self._lsub(lp, self.lin(rg[3][0], st, depth + 1))
                    if rg[0] == "agg" and rg[2] == "Range":
                        return self._lsub(self.lin(rg[3][1], st, depth + 1), self.lin(rg[3][0], st, depth + 1))
                    if rg[0] == "agg" and rg[2] == "RangeTo":
                        return self.lin(rg[3][0], st, depth + 1)
                if rel[0] == "split_at":
                    ln = self.lin(rel[1], st, depth + 1)
                    return ln if rel[2] == "#0" else self._lsub(lp, ln)
                if rel[0] in ("rest_last", "rest_first"):
                    return self._lsub(lp, {None: 1})
        return {e: 1}

    @staticmethod
    def _lsub(a, b):
        out = dict(a)
        for k, v in b.items():
            out[k] = out.get(k, 0) - v
        return {k: v for k, v in out.items() if v != 0 or k is None}

    @staticmethod
    def _ladd(a, b, scale=1):
        out = dict(a)
        for k, v in b.items():
            out[k] = out.get(k, 0) + scale * v
        return {k: v for k, v in out.items() if v != 0 or k is None}

    def _lin_arith(self, op, a, b, whole, st, depth):
        la = self.lin(a, st, depth + 1)
        lb = self.lin(b, st, depth + 1)
        if op == "Add":
            res = self._ladd(la, lb)
        elif op == "Sub":
            res = self._lsub(la, lb)
        else:
            ca = set(la) == {None} or not la
            cb = set(lb) == {None} or not lb
            if cb:
                c = lb.get(None, 0)
                res = {k: v * c for k, v in la.items()}
            elif ca:
                c = la.get(None, 0)
                res = {k: v * c for k, v in lb.items()}
            else:
                return None
        # exact only if the mathematical result fits the type of the expression
        tr = self.trange(whole) or self.trange(a) or self.trange(b)
        if tr is None:
            return None
        rr = self.lin_rng(res, st, depth + 1)
        if rr[0] < tr[0] or rr[1] > tr[1]:
            return None
        return res

    def lin_rng(self, lf, st, depth=0):
        lo = hi = lf.get(None, 0)
        for a, c in lf.items():
            if a is None or c == 0:
                continue
            r = self.rng(a, st, depth + 1, nolin=True)
            if c > 0:
                lo += c * r[0]
                hi += c * r[1]
            else:
                lo += c * r[1]
                hi += c * r[0]
        return (max(lo, -BIG), min(hi, BIG))

    # ---------------------------------------------------------------------------------- may-be-set bits
    def may(self, e, st, depth=0):
        """Mask of the bits that may be set in the (unsigned) value of e."""
        FULL = (1 << 64) - 1
        if not isinstance(e, tuple) or not e:
            return FULL
        k = e[0]
        if k == "const":
            v = e[1]
            if isinstance(v, bool):
                return int(v)
            if isinstance(v, int) and v >= 0:
                return v
            return FULL
        tr = self.trange(e)
        top = FULL
        if tr is not None and 0 <= tr[1] < BIG:
            top = (1 << tr[1].bit_length()) - 1
        m = st.may.get(e)
        if m is not None:
            top &= m
        if depth > 12:
            return top
        if k in ("discr", "ld", "param", "var", "field", "downcast", "call", "len"):
            r = self.rng(e, st, 8, nolin=True)
            if 0 <= r[0] and r[1] < BIG:
                top &= (1 << r[1].bit_length()) - 1
        M = lambda x: self.may(x, st, depth + 1)
        if k == "bin":
            op, a, b = e[1], e[2], e[3]
            if op == "BitAnd":
                return top & M(a) & M(b)
            if op in ("BitOr", "BitXor"):
                return top & (M(a) | M(b))
            if op in ("Shr", "ShrUnchecked") and b[0] == "const" and isinstance(b[1], int) and 0 <= b[1] < 128:
                return top & (M(a) >> b[1])
            if op in ("Shl", "ShlUnchecked") and b[0] == "const" and isinstance(b[1], int) and 0 <= b[1] < 128:
                return top & (M(a) << b[1])
            if op in ("Shl", "ShlUnchecked") and a[0] == "const" and a[1] == 1:
                # 1 << trailing_zeros(x) with x != 0 is the lowest set bit of x: one of the bits x may have
                t = b
                while t[0] == "cast":
                    t = t[2]
                if t[0] == "call" and last_seg(t[1]) == "trailing_zeros" and len(t[2]) == 1:
                    x = t[2][0]
                    if 0 in st.ne.get(x, ()) or self.rng(x, st, 6)[0] > 0:
                        return top & M(x)
            if op in ("Sub", "SubUnchecked"):
                # x - y <= x for unsigned non-wrapping subtraction: no bit above the top bit of x
                ma = M(a)
                return top & ((1 << ma.bit_length()) - 1)
            return top
        if k == "call":
            ls = last_seg(e[1])
            if ls == "wrapping_sub" and len(e[2]) == 2:
                ra = self.rng(e[2][0], st, 6)
                rb = self.rng(e[2][1], st, 6)
                if ra[0] >= rb[1] >= 0:
                    return top & ((1 << M(e[2][0]).bit_length()) - 1)
            return top
        if k == "tbl" and e[1][0] == "named":
            r = self.an.table_or(e[1][1], self.ety(e), self.rng(e[2], st, 6))
            if r is not None:
                return top & r
            return top
        if k == "phi":
            r = 0
            for _l, v in e[3]:
                r |= M(v)
            return top & r
        if k == "cast":
            return top & M(e[2])
        return top

    # ---------------------------------------------------------------------------------- dependent invariants
    def _field_access(self, e):
        """(field name, function building the sibling access of another field of the same object)."""
        if e[0] == "field" and isinstance(e[2], str):
            base = e[1]
            return e[2], base, (lambda nm, idx: ("field", base, nm) + ((idx,) if len(e) > 3 else ()))
        if e[0] == "ld" and e[2][0] == "field" and isinstance(e[2][2], str):
            pl = e[2]
            base = pl[1]
            return pl[2], base, (lambda nm, idx: ("ld", e[1], ("field", base, nm) + ((idx,) if len(pl) > 3 else ())))
        return None, None, None

    def dep_range(self, e, st, depth):
        """Ranges that follow from reviewed invariants relating fields of one object (see Analyzer)."""
        an = self.an
        if an.move_inv and depth < 6:
            nm, base, sib = self._field_access(e)
            if nm in ("src", "dst") and an.is_type(self.ety(e), "owlchess_base::types::Coord"):
                ke = sib("kind", 0)
                if an.is_type(self.ety(ke), "owlchess::moves::base::MoveKind") or an.is_type(self.ety(base), "owlchess::moves::base::Move") \
                        or an.is_type(self.ety(("deref", base)) if base[0] != "deref" else None, "owlchess::moves::base::Move"):
                    kr = self.discr_rng(ke, st, depth + 1)
                    ne = st.ne.get(("discr", ke), ())
                    lo, hi = None, None
                    for kk in range(max(kr[0], 0), min(kr[1], 9) + 1):
                        if kk in ne or kk not in an.move_inv:
                            continue
                        r = an.move_inv[kk][0 if nm == "src" else 1]
                        lo = r[0] if lo is None else min(lo, r[0])
                        hi = r[1] if hi is None else max(hi, r[1])
                    if lo is not None:
                        return (lo, hi)
        if an.ep_inv is not None and e[0] == "downcast" and e[2] == "Some":
            if self.is_valid_ep_place(e[1]):
                return an.ep_inv
        if an.ep_inv is not None and e[0] == "ld" and e[2][0] == "downcast" and e[2][2] == "Some":
            if self.is_valid_ep_place(e[2][1]):
                return an.ep_inv
        return None

    def is_valid_ep_place(self, x):
        """x is a load of `ep_source` from a Board (`.r.ep_source`) or from a RawUndo."""
        pl = x[2] if x[0] == "ld" else x
        if pl[0] != "field" or pl[2] != "ep_source":
            return False
        par = pl[1]
        if par[0] == "ld":
            par = par[2]
        if par[0] == "field" and par[2] == "r":
            return True
        an = self.an
        for cand in (par, ("deref", par)):
            if an.is_type(self.ety(cand), "owlchess::moves::base::RawUndo"):
                return True
        if par[0] == "deref" and an.is_ref_to(self.ety(par[1]), "owlchess::moves::base::RawUndo"):
            return True
        return False

    # ---------------------------------------------------------------------------------- intervals
    def rng(self, e, st, depth=0, nolin=False):
        if not isinstance(e, tuple) or not e:
            return TOP
        k = e[0]
        if k == "const":
            v = e[1]
            if isinstance(v, bool):
                v = int(v)
            if isinstance(v, int):
                return (v, v)
            return TOP
        r = TOP
        t = self.trange(e)
        if t is not None:
            r = meet(r, t)
        c = st.cons.get(e)
        if c is not None:
            r = meet(r, c)
        if depth > 10:
            return r
        s = self.struct_rng(e, st, depth)
        if s is not None:
            r = meet(r, s)
        d = self.dep_range(e, st, depth)
        if d is not None:
            r = meet(r, d)
        if not nolin and depth < 4:
            lf = self.lin(e, st)
            if not (len(lf) == 1 and lf.get(e) == 1):
                r = meet(r, self.lin_rng(lf, st, depth + 1))
        ne = st.ne.get(e)
        if ne:
            lo, hi = r
            while lo in ne and lo <= hi:
                lo += 1
            while hi in ne and lo <= hi:
                hi -= 1
            r = (lo, hi)
        return r

    def struct_rng(self, e, st, depth):
        k = e[0]
        R = lambda x: self.rng(x, st, depth + 1)
        if k == "bin":
            op, a, b = e[1], e[2], e[3]
            if op in CMP:
                t = self.cmp_truth(op, a, b, st, depth)
                if t is True:
                    return (1, 1)
                if t is False:
                    return (0, 0)
                return (0, 1)
            ra, rb = R(a), R(b)
            tr = self.trange(e) or self.trange(a) or TOP
            if op in ("Add", "AddUnchecked", "Sub", "SubUnchecked", "Mul", "MulUnchecked"):
                if op.startswith("Add"):
                    m = (ra[0] + rb[0], ra[1] + rb[1])
                elif op.startswith("Sub"):
                    m = (ra[0] - rb[1], ra[1] - rb[0])
                else:
                    cands = [ra[0] * rb[0], ra[0] * rb[1], ra[1] * rb[0], ra[1] * rb[1]]
                    m = (min(cands), max(cands))
                if tr[0] <= m[0] and m[1] <= tr[1]:
                    return m
                return tr
            if op == "BitAnd":
                if ra[0] >= 0 and rb[0] >= 0:
                    return (0, min(ra[1], rb[1]))
                if ra[0] >= 0:
                    return (0, ra[1])
                if rb[0] >= 0:
                    return (0, rb[1])
                return None
            if op in ("BitOr", "BitXor"):
                if ra[0] == ra[1] and rb[0] == rb[1] and ra[0] >= 0 and rb[0] >= 0:
                    v = ra[0] | rb[0] if op == "BitOr" else ra[0] ^ rb[0]
                    return (v, v)
                if ra[0] >= 0 and rb[0] >= 0 and ra[1] < BIG and rb[1] < BIG and depth < 6 \
                        and self.may(a, st) & self.may(b, st) == 0:
                    return (ra[0] + rb[0], ra[1] + rb[1])       # disjoint bits: or = xor = sum
                if ra[0] >= 0 and rb[0] >= 0 and ra[1] < BIG and rb[1] < BIG:
                    top = (1 << max(ra[1].bit_length(), rb[1].bit_length())) - 1
                    return (max(ra[0], rb[0]) if op == "BitOr" else 0, top)
                return None
            if op in ("Shl", "ShlUnchecked"):
                if ra[0] >= 0 and rb[0] >= 0 and rb[1] < 128 and ra[1] < BIG:
                    m = (ra[0] << rb[0], ra[1] << rb[1])
                    if tr[0] <= m[0] and m[1] <= tr[1]:
                        return m
                return tr if tr != TOP else None
            if op in ("Shr", "ShrUnchecked"):
                if ra[0] >= 0 and rb[0] >= 0 and rb[1] < 256:
                    return (ra[0] >> rb[1], ra[1] >> rb[0])
                return None
            if op == "Rem":
                if rb[0] > 0 and ra[0] >= 0:
                    return (0, min(ra[1], rb[1] - 1))
                return None
            if op == "Div":
                if rb[0] > 0 and ra[0] >= 0:
                    return (ra[0] // rb[1], ra[1] // rb[0])
                return None
            if op in ("AddWithOverflow", "SubWithOverflow", "MulWithOverflow"):
                return None
            return None
        if k == "field" and e[1][0] == "bin" and e[1][1].endswith("WithOverflow"):
            op, a, b = e[1][1][:3], e[1][2], e[1][3]
            ra, rb = R(a), R(b)
            tr = self.trange(a) or self.trange(b)
            if e[2] == "#0":
                tr = self.trange(e) or tr
            if tr is None:
                return None
            if op == "Add":
                m = (ra[0] + rb[0], ra[1] + rb[1])
            elif op == "Sub":
                m = (ra[0] - rb[1], ra[1] - rb[0])
            else:
                cands = [ra[0] * rb[0], ra[0] * rb[1], ra[1] * rb[0], ra[1] * rb[1]]
                m = (min(cands), max(cands))
            fits = tr[0] <= m[0] and m[1] <= tr[1]
            never = m[1] < tr[0] or m[0] > tr[1]
            if e[2] == "#1":
                # exact evaluation through linear forms catches `len - 2` with len >= 2
                lf = self._lin_arith(op, a, b, ("field", e[1], "#0"), st, depth + 1) if depth < 4 else None
                if fits or lf is not None:
                    return (0, 0)
                if never:
                    return (1, 1)
                return (0, 1)
            return m if fits else tr
        if k == "field" and e[2] == "#0" and e[1][0] == "downcast" and e[1][2] == "Some" and e[1][1][0] == "call" \
                and "Enumerate<" in e[1][1][1] and last_seg(e[1][1][1]) == "next" and e[1][1][2]:
            it = e[1][1][2][0]
            if it[0] == "ref" and it[1][0] == "local":
                pv = st.prov.get((it[1][1], it[1][2]))
                n_hi = self._iter_len(pv, st)
                if n_hi is not None:
                    return (0, max(n_hi - 1, 0))
            return None
        if k == "un":
            ra = R(e[2])
            if e[1] == "Not":
                if self.trange(e[2]) == (0, 1) or ra[0] >= 0 and ra[1] <= 1 and self._is_boolish(e[2]):
                    return (1 - ra[1], 1 - ra[0])
                return None
            if e[1] == "Neg":
                return (-ra[1], -ra[0])
            return None
        if k == "cast":
            ra = R(e[2])
            tr = self.an.named_range(e[3])
            if tr is None:
                return None
            if tr[0] <= ra[0] and ra[1] <= tr[1]:
                return ra
            return tr
        if k == "len":
            lo, hi = 0, (1 << 63) - 1
            o = e[1]
            ty = self.ety(o)
            al = self.an.array_len(ty) if ty is not None else None
            if al is not None:
                return (al, al)
            if o[0] == "ref":
                n = self.an.static_len(o[1])
                if n is not None:
                    return (n, n)
            return (lo, hi)
        if k == "discr":
            return self.discr_rng(e[1], st, depth)
        if k == "call" and e[1] in self.an.summary:
            rr = self.an.summary[e[1]].ret_range
            return rr if rr is not None and rr != TOP else None
        if k == "call":
            ls = last_seg(e[1])
            a = e[2]
            if ls in ("count_ones", "trailing_zeros", "leading_zeros") and len(a) == 1:
                w = 64
                tr = self.trange(a[0])
                if tr is not None and tr[1] < BIG:
                    w = max(tr[1].bit_length(), 1)
                if ls == "count_ones":
                    ra = R(a[0])
                    if ra[0] >= 0 and ra[1] < BIG:
                        return (0 if ra[0] == 0 else 1, min(w, ra[1].bit_length()))
                if ls == "trailing_zeros":
                    ra = R(a[0])
                    if ra[0] > 0 or 0 in st.ne.get(a[0], ()):
                        m = self.may(a[0], st)
                        if m:
                            return ((m & -m).bit_length() - 1, m.bit_length() - 1)
                        return (0, w - 1)
                return (0, w)
            if ls == "from" and len(a) == 1:
                ra = R(a[0])
                tr = self.trange(e)
                if tr is None and " for " in e[1]:
                    tr = self.an.named_range(e[1].split(" for ")[-1].split(">")[0])
                if tr is not None and tr[0] <= ra[0] and ra[1] <= tr[1]:
                    return ra
                return None
            if ls == "saturating_add" and len(a) == 2:
                ra, rb = R(a[0]), R(a[1])
                tr = self.trange(e) or TOP
                return (min(ra[0] + rb[0], tr[1]), min(ra[1] + rb[1], tr[1]))
            if ls == "abs_diff" and len(a) == 2:
                ra, rb = R(a[0]), R(a[1])
                return (0, max(ra[1] - rb[0], rb[1] - ra[0], 0))
            if ls in ("wrapping_add", "wrapping_sub") and len(a) == 2:
                ra = R(a[0])
                b = a[1]
                # a signed delta reinterpreted as unsigned: reason with the signed value
                if b[0] == "cast" and b[1] == "IntToIntN":
                    rb = R(b[2])
                else:
                    rb = R(b)
                    if b[0] == "const" and isinstance(b[1], int) and b[1] < 0:
                        rb = (b[1], b[1])
                    elif rb[0] == rb[1] and rb[0] >= (1 << 63):
                        rb = (rb[0] - (1 << 64), rb[0] - (1 << 64))     # same value modulo 2^64
                m = (ra[0] + rb[0], ra[1] + rb[1]) if ls == "wrapping_add" else (ra[0] - rb[1], ra[1] - rb[0])
                tr = self.trange(e) or self.trange(a[0])
                if tr is not None and tr[0] <= m[0] and m[1] <= tr[1]:
                    return m
                return tr
            if ls in ("is_some", "is_none", "is_ok", "is_err") and len(a) == 1:
                d = self.discr_rng(self._deref_arg(a[0]), st, depth)
                if d[0] == d[1]:
                    want = {"is_some": 1, "is_none": 0, "is_ok": 0, "is_err": 1}[ls]
                    return (1, 1) if d[0] == want else (0, 0)
                return (0, 1)
            if ls == "is_ascii" and len(a) == 1 and "str" in e[1]:
                if self.is_ascii(a[0], st):
                    return (1, 1)
                return (0, 1)
            if ls in ("min",) and len(a) == 2:
                ra, rb = R(a[0]), R(a[1])
                return (min(ra[0], rb[0]), min(ra[1], rb[1]))
            if ls in ("max",) and len(a) == 2:
                ra, rb = R(a[0]), R(a[1])
                return (max(ra[0], rb[0]), max(ra[1], rb[1]))
            return None
        if k == "tbl" and e[1][0] == "named":
            return self.an.table_range(e[1][1], self.ety(e), R(e[2]))
        if k == "phi":
            r = None
            for _l, v in e[3]:
                rv = R(v)
                r = rv if r is None else join(r, rv)
            return r
        return None

    def _iter_len(self, pv, st):
        """Upper bound of the number of items of `enumerate(iter(X))` / `enumerate(into_iter(X))`."""
        while pv is not None and pv[0] == "call" and last_seg(pv[1]) == "into_iter" and pv[2]:
            pv = pv[2][0]
        if pv is None or pv[0] != "call" or last_seg(pv[1]) != "enumerate" or not pv[2]:
            return None
        inner = pv[2][0]
        while inner[0] == "call" and last_seg(inner[1]) in ("iter", "into_iter", "iter_mut") and inner[2]:
            inner = inner[2][0]
        if inner[0] == "cast":
            inner = inner[2]
        r = self.rng(("len", inner), st)
        if r[1] >= (1 << 62):
            return None
        return r[1]

    @staticmethod
    def _deref_arg(a):
        return a[1] if a[0] == "ref" else a

    @staticmethod
    def _is_boolish(e):
        return e[0] == "bin" and e[1] in CMP or e[0] == "un" and e[1] == "Not" or e[0] == "const"

    def discr_rng(self, x, st, depth=0):
        """Range of the discriminant of x (Option: None 0 / Some 1; Result: Ok 0 / Err 1)."""
        key = ("discr", x)
        r = TOP
        c = st.cons.get(key)
        if c is not None:
            r = meet(r, c)
        ty = self.ety(x)
        n = self.an.variant_count(ty) if ty is not None else None
        if x[0] == "agg":
            d = self.an.variant_discr(x[1], x[2])
            if d is not None:
                return (d, d)
        if x[0] == "const" and isinstance(x[1], int):
            return (x[1], x[1])
        if x[0] == "call" and x[1] in self.an.summary:
            rr = self.an.summary[x[1]].ret_range
            if rr is not None and rr != TOP and ty is not None and self.an.is_fieldless_enum(ty):
                r = meet(r, rr)
        if x[0] == "call" and depth < 8 and last_seg(x[1]) == "unwrap_or" and len(x[2]) == 2:
            # Option<E>::unwrap_or(default): the default, or the payload
            d = self.discr_rng(x[2][1], st, depth + 1)
            o = x[2][0]
            pr = None
            if o[0] == "call" and last_seg(o[1]) == "map" and len(o[2]) == 2 and o[2][1][0] == "fn" and self.an.is_local(o[2][1][1]):
                fs = self.an.analyse(o[2][1][1])
                rr = fs.ret_range if fs is not None else None
                if rr is not None and rr != TOP:
                    pr = rr
            if pr is None and n is not None:
                pr = (0, n - 1)
            if pr is not None:
                r = meet(r, join(d, pr))
        if x[0] == "call" and depth < 8:
            ls = last_seg(x[1])
            a = x[2]
            if ls in ("first", "last", "split_last", "split_first") and len(a) == 1:
                lr = self.rng(("len", a[0]), st, depth + 1)
                if lr[0] >= 1:
                    return meet(r, (1, 1))
                if lr[1] <= 0:
                    return meet(r, (0, 0))
                return meet(r, (0, 1))
            if ls in ("ok_or", "ok_or_else") and a:
                d = self.discr_rng(a[0], st, depth + 1)
                return meet(r, (1 - d[1], 1 - d[0]))
            if ls == "ok" and a:
                d = self.discr_rng(a[0], st, depth + 1)
                return meet(r, (1 - d[1], 1 - d[0]))
            if ls == "from_utf8" and a:
                if self.is_utf8(a[0], st):
                    return meet(r, (0, 0))
                return meet(r, (0, 1))
            if ls == "get" and len(a) == 2 and "str" in x[1]:
                return meet(r, (0, 1))
            if ls == "branch" and "Option<" in x[1] and a:
                d = self.discr_rng(a[0], st, depth + 1)
                return meet(r, (1 - d[1], 1 - d[0]))
        if n is not None:
            r = meet(r, (0, n - 1))
        elif r == TOP:
            r = (0, 255)
        ne = st.ne.get(key)
        if ne:
            lo, hi = r
            while lo in ne and lo <= hi:
                lo += 1
            while hi in ne and lo <= hi:
                hi -= 1
            r = (lo, hi)
        return r

    def discr_vals(self, x, st):
        """Set of possible discriminants of an enum-valued expression, when it is known exactly."""
        r = self.discr_rng(x, st)
        ne = st.ne.get(("discr", x), ())
        if x[0] == "call" and last_seg(x[1]) == "unwrap_or" and len(x[2]) == 2:
            d = self.discr_rng(x[2][1], st)
            o = x[2][0]
            if d[0] == d[1] and o[0] == "call" and last_seg(o[1]) == "map" and len(o[2]) == 2 and o[2][1][0] == "fn" \
                    and self.an.is_local(o[2][1][1]):
                fs = self.an.analyse(o[2][1][1])
                if fs is not None and fs.ret_set:
                    od = self.discr_rng(o[2][0], st)
                    cand = set()
                    if od[0] <= 0:
                        cand.add(d[0])            # None: the default
                    if od[1] >= 1:
                        cand |= set(fs.ret_set)   # Some(x): f(x)
                    return {v for v in cand if r[0] <= v <= r[1] and v not in ne}
        if r[1] - r[0] > 64:
            return None
        return {v for v in range(r[0], r[1] + 1) if v not in ne}

    def cmp_truth(self, op, a, b, st, depth=0):
        if depth > 8:
            return None
        if op in ("Eq", "Ne") and a == b:
            return op == "Eq"
        if op in ("Eq", "Ne") and a[0] == "agg" and b[0] == "agg" and a[1] == b[1]:
            # two literal enum values (Option<Color> and the like)
            eq = None
            if a[2] != b[2]:
                eq = False
            elif len(a[3]) == len(b[3]):
                eq = True
                for x, y in zip(a[3], b[3]):
                    t = self.cmp_truth("Eq", x, y, st, depth + 1)
                    if t is False:
                        eq = False
                        break
                    if t is None:
                        eq = None
            if eq is None:
                return None
            return eq if op == "Eq" else (not eq)
        d = self._lsub(self.lin(a, st), self.lin(b, st))
        dr = self.lin_rng(d, st, depth + 1)
        ra = self.rng(a, st, depth + 1)
        rb = self.rng(b, st, depth + 1)
        dr = meet(dr, (ra[0] - rb[1], ra[1] - rb[0]))
        if op == "Lt":
            return True if dr[1] < 0 else False if dr[0] >= 0 else None
        if op == "Le":
            return True if dr[1] <= 0 else False if dr[0] > 0 else None
        if op == "Gt":
            return True if dr[0] > 0 else False if dr[1] <= 0 else None
        if op == "Ge":
            return True if dr[0] >= 0 else False if dr[1] < 0 else None
        eq = None
        if dr == (0, 0):
            eq = True
        elif dr[0] > 0 or dr[1] < 0:
            eq = False
        else:
            for x, y in ((a, b), (b, a)):
                if y[0] == "const" and isinstance(y[1], int) and int(y[1]) in st.ne.get(x, ()):
                    eq = False
        if eq is None:
            return None
        return eq if op == "Eq" else (not eq)

    def truth(self, c, st):
        r = self.rng(c, st)
        if r == (1, 1):
            return True
        if r == (0, 0):
            return False
        return None

    # ---------------------------------------------------------------------------------- refinement
    def constrain(self, e, lo, hi, st, depth=0):
        """Intersect the range of e with [lo, hi]; False if that is empty."""
        if e[0] == "const":
            r = self.rng(e, st)
            return not empty(meet(r, (lo, hi)))
        cur = self.rng(e, st)
        new = meet(cur, (lo, hi))
        if empty(new):
            return False
        old = st.cons.get(e, TOP)
        st.cons[e] = meet(old, (lo, hi))
        if depth > 6:
            return True
        return self.propagate(e, new, st, depth + 1)

    def propagate(self, e, r, st, depth):
        k = e[0]
        lo, hi = r
        if k == "discr":
            x = e[1]
            if x[0] == "call":
                ls = last_seg(x[1])
                a = x[2]
                if ls in ("first", "last", "split_last", "split_first") and len(a) == 1:
                    if lo >= 1:
                        return self.constrain(("len", a[0]), 1, BIG, st, depth)
                    if hi <= 0:
                        return self.constrain(("len", a[0]), -BIG, 0, st, depth)
                if ls in ("ok_or", "ok_or_else", "ok") and a:
                    return self.constrain(("discr", a[0]), 1 - hi, 1 - lo, st, depth)
                if ls == "branch" and "Option<" in x[1] and a:
                    return self.constrain(("discr", a[0]), 1 - hi, 1 - lo, st, depth)
                if ls == "get" and len(a) == 2 and lo >= 1:
                    rg = a[1]
                    if rg[0] == "agg" and rg[2] == "Range":
                        end = self.rng(rg[3][1], st)
                        if not self.constrain(("len", a[0]), end[0], BIG, st, depth):
                            return False
                    if rg[0] == "agg" and rg[2] == "RangeFrom":
                        end = self.rng(rg[3][0], st)
                        if not self.constrain(("len", a[0]), end[0], BIG, st, depth):
                            return False
                if ls == "from_utf8" and a and hi <= 0:
                    st.flags.add(("utf8", a[0]))
            return True
        if k == "bin" and e[1] in ("Shr", "ShrUnchecked") and e[3][0] == "const" and isinstance(e[3][1], int):
            sh = e[3][1]
            ra = self.rng(e[2], st)
            if ra[0] >= 0 and 0 <= sh < 64 and hi < BIG:
                return self.constrain(e[2], max(lo, 0) << sh, ((hi + 1) << sh) - 1, st, depth)
            return True
        if k == "bin" and e[1] == "BitAnd":
            # low-bit mask: x & (2^j - 1) in [lo, hi] trims the ends of a short range of x
            for x, m in ((e[2], e[3]), (e[3], e[2])):
                if m[0] == "const" and isinstance(m[1], int) and m[1] > 0 and (m[1] & (m[1] + 1)) == 0 and x[0] != "const":
                    rx = self.rng(x, st)
                    if 0 <= rx[0] and rx[1] - rx[0] <= 4096:
                        nlo, nhi = rx
                        while nlo <= nhi and not (lo <= (nlo & m[1]) <= hi):
                            nlo += 1
                        while nhi >= nlo and not (lo <= (nhi & m[1]) <= hi):
                            nhi -= 1
                        if nlo > nhi:
                            return False
                        if (nlo, nhi) != rx:
                            return self.constrain(x, nlo, nhi, st, depth)
                    break
            return True
        if k == "bin" and e[1] in CMP and lo == hi:
            return self.refine_cond(e, bool(lo), st, depth)
        if k == "un" and e[1] == "Not" and lo == hi and self._is_boolish(e[2]):
            return self.refine_cond(e[2], not bool(lo), st, depth)
        if k == "call":
            ls = last_seg(e[1])
            if ls in ("is_some", "is_none", "is_ok", "is_err", "is_ascii") and lo == hi:
                return self.refine_cond(e, bool(lo), st, depth)
            if ls == "from" and len(e[2]) == 1:
                return self.constrain(e[2][0], lo, hi, st, depth)
            if ls == "count_ones" and len(e[2]) == 1:
                if lo >= 1:
                    return self.exclude(e[2][0], (0,), st)
                if hi <= 0:
                    return self.constrain(e[2][0], 0, 0, st, depth)
                return True
        # single-atom linear form with unit coefficient: move the bound to the atom
        lf = self.lin(e, st)
        atoms = [(a, c) for a, c in lf.items() if a is not None and c != 0]
        if len(atoms) == 1 and atoms[0][0] != e and atoms[0][1] in (1, -1):
            a, c = atoms[0]
            k0 = lf.get(None, 0)
            if c == 1:
                return self.constrain(a, lo - k0 if lo > -BIG else -BIG, hi - k0 if hi < BIG else BIG, st, depth)
            return self.constrain(a, k0 - hi if hi < BIG else -BIG, k0 - lo if lo > -BIG else BIG, st, depth)
        return True

    def exclude(self, e, vals, st):
        cur = set(st.ne.get(e, ()))
        cur |= set(vals)
        st.ne[e] = frozenset(cur)
        r = self.rng(e, st)
        return not empty(r)

    def refine_cond(self, c, truth, st, depth=0):
        """Assume boolean expression c == truth. False if infeasible."""
        t = self.truth(c, st)
        if t is not None:
            return t == truth
        if depth > 8:
            return True
        k = c[0]
        if k == "un" and c[1] == "Not":
            return self.refine_cond(c[2], not truth, st, depth + 1)
        if k == "bin" and c[1] in CMP:
            op, a, b = c[1], c[2], c[3]
            if not truth:
                op = NEG[op]
            ra, rb = self.rng(a, st), self.rng(b, st)
            ok = True
            if op == "Lt":
                ok = self.constrain(a, -BIG, rb[1] - 1, st, depth + 1) and self.constrain(b, ra[0] + 1, BIG, st, depth + 1)
            elif op == "Le":
                ok = self.constrain(a, -BIG, rb[1], st, depth + 1) and self.constrain(b, ra[0], BIG, st, depth + 1)
            elif op == "Gt":
                ok = self.constrain(a, rb[0] + 1, BIG, st, depth + 1) and self.constrain(b, -BIG, ra[1] - 1, st, depth + 1)
            elif op == "Ge":
                ok = self.constrain(a, rb[0], BIG, st, depth + 1) and self.constrain(b, -BIG, ra[1], st, depth + 1)
            elif op == "Eq":
                m = meet(ra, rb)
                if empty(m):
                    return False
                ok = self.constrain(a, m[0], m[1], st, depth + 1) and self.constrain(b, m[0], m[1], st, depth + 1)
            elif op == "Ne":
                if rb[0] == rb[1] and a[0] != "const":
                    ok = self.exclude(a, (rb[0],), st)
                elif ra[0] == ra[1] and b[0] != "const":
                    ok = self.exclude(b, (ra[0],), st)
            if not ok:
                return False
            st.cons[c] = (int(truth), int(truth))
            return True
        if k == "bin" and c[1] in ("BitAnd", "BitOr") and self._bool_operands(c):
            if c[1] == "BitAnd" and truth:
                return self.refine_cond(c[2], True, st, depth + 1) and self.refine_cond(c[3], True, st, depth + 1)
            if c[1] == "BitOr" and not truth:
                return self.refine_cond(c[2], False, st, depth + 1) and self.refine_cond(c[3], False, st, depth + 1)
            st.cons[c] = (int(truth), int(truth))
            return True
        if k == "call":
            ls = last_seg(c[1])
            a = c[2]
            if ls == "is_ascii" and len(a) == 1 and truth and "char" not in c[1] and "u8" not in c[1]:
                st.flags.add(("ascii", a[0]))
            if ls in ("is_some", "is_none", "is_ok", "is_err") and len(a) == 1:
                want = {"is_some": 1, "is_none": 0, "is_ok": 0, "is_err": 1}[ls]
                v = want if truth else 1 - want
                if not self.constrain(("discr", self._deref_arg(a[0])), v, v, st, depth + 1):
                    return False
        st.cons[c] = (int(truth), int(truth))
        return True

    def _bool_operands(self, c):
        return all(self.trange(x) == (0, 1) or self._is_boolish(x) for x in (c[2], c[3]))

    def refine_switch(self, dv, lab, case_vals, st):
        if dv[0] == "const" and isinstance(dv[1], (int, bool)):
            v = int(dv[1])
            if lab == "else":
                return v not in case_vals
            return v in lab
        boolish = self.trange(dv) == (0, 1) or self._is_boolish(dv) or \
            (dv[0] == "call" and last_seg(dv[1]) in ("is_some", "is_none", "is_ok", "is_err", "is_ascii", "eq", "ne"))
        if boolish:
            if lab == "else":
                if set(case_vals) == {0}:
                    return self.refine_cond(dv, True, st)
                if set(case_vals) == {1}:
                    return self.refine_cond(dv, False, st)
                return not {0, 1} <= set(case_vals)
            if set(lab) == {0}:
                return self.refine_cond(dv, False, st)
            if set(lab) == {1}:
                return self.refine_cond(dv, True, st)
            return True
        if lab == "else":
            return self.exclude(dv, case_vals, st) and self.constrain(dv, -BIG, BIG, st)
        lo, hi = min(lab), max(lab)
        if not self.constrain(dv, lo, hi, st):
            return False
        holes = [v for v in range(lo, hi + 1) if v not in lab] if hi - lo < 512 else []
        if holes and not self.exclude(dv, holes, st):
            return False
        return True

    # ---------------------------------------------------------------------------------- obligations
    def explain(self, e, st, ind=0, out=None):
        """Ranges of the sub-expressions of e (diagnostics for an open obligation)."""
        out = [] if out is None else out
        if not isinstance(e, tuple) or not e or not isinstance(e[0], str):
            return out
        out.append("%s%s %s range=%s type=%s" % (" " * ind, e[0], (e[1] if len(e) > 1 and isinstance(e[1], str) else "")[-50:],
                                                 self.rng(e, st), self.fb.etypes.get(e)))
        if ind < 16:
            for x in e[1:]:
                if isinstance(x, tuple):
                    if x and isinstance(x[0], str):
                        self.explain(x, st, ind + 2, out)
                    else:
                        for y in x:
                            self.explain(y, st, ind + 2, out)
        return out

    def oblige(self, kind, what, site, chain, ok, detail, expr=None, st=None):
        if self.quiet:
            return
        if not ok and self.an.debug is not None and expr is not None:
            self.an.debug(self, kind, what, site, expr, st)
        o = Obligation(kind, what, site, chain, detail, "discharged" if ok else "open")
        k = o.key()
        if ok:
            self.done[k] = self.done.get(k, 0) + 1
            self.done_ctx.add((k, tuple(c[1] for c in chain)))
            return
        akey = (kind, what, site.fn.def_path)
        a = self.an.assumed.get(akey)
        if a is not None and not (a[0] == "board" and self.fn.def_path in self.an.board_builders):
            self.assumed[akey] = self.assumed.get(akey, 0) + 1
            self.an.assumed_used[akey] = self.an.assumed_used.get(akey, 0) + 1
            return
        if k not in self.open:
            self.open[k] = o

    # ---------------------------------------------------------------------------------- exploration
    def run(self):
        st = St()
        if self.fn.kind == "Closure" and self.fn.body.argc >= 2:
            r = self.an.closure_arg.get(self.fn.def_path)
            if r is not None:
                st.cons[("param", 2, self.fn.body.names.get(2, "_2"))] = r
            r0 = self.an.closure_arg.get((self.fn.def_path, "#0"))
            if r0 is not None:
                st.cons[self.canon(("field", ("param", 2, self.fn.body.names.get(2, "_2")), "#0"))] = r0
            r3 = self.an.closure_arg.get((self.fn.def_path, 3, "#0"))
            if r3 is not None and self.fn.body.argc >= 3:
                st.cons[self.canon(("field", ("param", 3, self.fn.body.names.get(3, "_3")), "#0"))] = r3
        self.explore(self.tree, 0, st, (), 0, ())
        return self

    def explore(self, seq, i, st, cont, depth, chain):
        """Depth-first walk; st is owned by this call."""
        while True:
            self.steps += 1
            if self.steps > self.an.max_steps:
                raise RuntimeError("step budget exceeded in %s" % self.fn.id)
            if i >= len(seq):
                if not cont:
                    self.paths += 1
                    return
                (seq, i, depth, chain), cont = cont[0], cont[1:]
                continue
            n = seq[i]
            k = n[0]
            if k == "switch":
                dv = self.val(n[1], st)
                for lab, sub in n[2].items():
                    st2 = st.copy()
                    if not self.refine_switch(dv, lab, n[4], st2):
                        continue
                    st2.choices[n[5]] = lab
                    self.explore(sub, 0, st2, ((seq, i + 1, depth, chain),) + cont, depth, chain)
                return
            if k == "inlined":
                callee = self.an.facts.fns[n[1]]
                self.explore(n[3], 0, st, ((seq, i + 1, depth, chain),) + cont, depth + 1, chain + ((n[4], callee.id),))
                return
            if k == "ret":
                if depth == 0 or not cont:
                    self.paths += 1
                    if depth == 0 and not self.quiet:
                        self.note_ret(n[1], st)
                    return
                (seq, i, depth, chain), cont = cont[0], cont[1:]
                continue
            if k == "assert" and n[1] in ("misaligned", "nullptr"):
                self.an.ptr_assert(self, n, st, chain)
            elif k == "assert":
                c = self.val(n[2], st)
                t = self.truth(c, st)
                exp = bool(n[3])
                self.oblige("assert", n[1], n[4], chain, t is not None and t == exp,
                            "%s == %s" % (show(c)[:200], exp), c, st)
                if not self.refine_cond(c, exp, st):
                    self.paths += 1
                    return
            elif k == "panic":
                self.on_panic(n, st, chain)
                self.paths += 1
                return
            elif k == "unreachable":
                self.paths += 1
                return
            elif k == "call":
                self.on_call(n, st, chain)
            elif k == "mk":
                v = self.val(n[2], st)
                r = self.rng(v, st)
                inv = TYPE_INV[n[1]]
                self.oblige("unsafe", "construct " + n[1].split("::")[-1], n[3], chain,
                            inv[0] <= r[0] and r[1] <= inv[1], "%s in %s, invariant %s" % (show(v)[:120], r, inv))
            elif k == "transmute":
                self.on_transmute(n, st, chain)
            elif k == "mkagg":
                self.on_mkagg(n, st, chain)
            elif k == "store":
                self.on_store(n, st, chain)
            elif k == "loophead":
                self.on_loophead(n, seq, i, st, cont, depth, chain)
            elif k == "backedge":
                if self.quiet and self._collect is not None:
                    self._collect(n, st)
                self.paths += 1
                return
            i += 1

    _collect = None

    def note_ret(self, v, st):
        """Range of the returned value (post-condition used at opaque calls of this function)."""
        if self.ret_range == TOP:
            return
        ty = self.fn.body.locals[0]
        if self.an.type_range(ty) is None:
            n = self.an.variant_count(ty) if self.an.is_fieldless_enum(ty) else None
            if n is None:
                self.ret_range = TOP
                return
            r = self.discr_rng(self.val(v, st), st)
            self.ret_range = r if self.ret_range is None else join(self.ret_range, r)
            if r[0] == r[1] and self.ret_set is not None:
                self.ret_set = self.ret_set | {r[0]}
            else:
                self.ret_set = None
            return
        r = self.rng(self.val(v, st), st)
        self.ret_range = r if self.ret_range is None else join(self.ret_range, r)

    def on_panic(self, n, st, chain):
        name = n[1]
        if name.endswith("unreachable_unchecked"):
            self.oblige("unsafe", "unreachable_unchecked", n[3], chain, False, "reached")
            return
        msg = ""
        for a in n[2]:
            if isinstance(a, tuple) and a and a[0] == "const" and isinstance(a[1], str):
                msg = a[1]
        self.oblige("panic", last_seg(name), n[3], chain, False, msg or name)

    def on_transmute(self, n, st, chain):
        if n[1] in ("usize", "u64", "u32", "u16", "u8", "u128", "isize", "i64", "i32", "i16", "i8", "i128") or \
                n[1].startswith(("*const ", "*mut ")):
            return      # every bit pattern is valid for the target
        v = self.val(n[2], st)
        tr = self.an.named_range(n[1])
        r = self.rng(v, st)
        ok = tr is not None and tr[0] <= r[0] and r[1] <= tr[1]
        self.oblige("unsafe", "transmute to " + n[1], n[3], chain, ok, "%s in %s" % (show(v)[:100], r))

    def _ep_ok(self, v, st):
        """v: Option<Coord> value stored as an en-passant source of a Board / RawUndo."""
        inv = self.an.ep_inv
        d = self.discr_rng(v, st)
        if d == (0, 0):
            return True, "None"
        if v[0] == "agg" and v[2] == "Some" and v[3]:
            pay = v[3][0]
        else:
            pay = self.canon(("downcast", v, "Some"))
        r = self.rng(pay, st)
        return inv[0] <= r[0] and r[1] <= inv[1], "%s in %s" % (show(pay)[:100], r)

    def on_store(self, n, st, chain):
        an = self.an
        if an.ep_inv is None:
            return
        pl = n[1]
        if pl[0] == "field" and pl[2] == "ep_source":
            fake = ("ld", 0, pl)
            if self.is_valid_ep_place(fake):
                v = self.val(n[2], st)
                ok, why = self._ep_ok(v, st)
                self.oblige("unsafe", "store ep_source", n[3], chain, ok, "must be None or a square of rank 4/5: " + why)

    def on_mkagg(self, n, st, chain):
        an = self.an
        path, ops, site = n[1], n[2], n[3]
        ops = tuple(self.val(o, st) for o in ops)
        if path == "owlchess::moves::base::Move" and an.move_inv:
            if site.fn.def_path in an.move_gated:
                return
            kind, _cell, src, dst = ops
            kvals = self.discr_vals(kind, st)
            if kvals is None:
                kvals = set(range(10))
            ok = True
            why = []
            for kk in sorted(kvals):
                inv = an.move_inv.get(kk)
                if inv is None:
                    continue
                for nm, v, r in (("src", src, inv[0]), ("dst", dst, inv[1])):
                    rv = self.rng(v, st)
                    if not (r[0] <= rv[0] and rv[1] <= r[1]):
                        ok = False
                        why.append("kind %d %s %s in %s, allowed %s" % (kk, nm, show(v)[:60], rv, r))
            self.oblige("unsafe", "construct Move", site, chain, ok, "; ".join(why[:3]))
        elif path in ("owlchess::moves::base::RawUndo", "owlchess::board::Board") and an.ep_inv is not None:
            fields = an.struct_fields(path)
            if path.endswith("RawUndo"):
                v = ops[fields.index("ep_source")]
            else:
                rv = ops[fields.index("r")]
                v = self.canon(self.fb._field_of(rv, "ep_source", an.struct_fields("owlchess::board::RawBoard").index("ep_source")))
            ok, why = self._ep_ok(v, st)
            self.oblige("unsafe", "construct " + path.split("::")[-1], site, chain, ok, "ep_source must be None or on rank 4/5: " + why)

    # ---- loops
    def on_loophead(self, n, seq, i, st, cont, depth, chain):
        key = (n[3].fn.id, n[1], tuple(c[1] for c in chain))
        lv = n[2]
        # memory may change in the loop: forget what is known about loads
        for d in (st.cons, st.ne):
            for e in [e for e in d if self._has_load(e)]:
                del d[e]
        lin_inv = self.an.linear_invariants.get((n[3].fn.def_path, n[1])) or \
            self.an.linear_invariants.get((n[3].fn.def_path, None))
        # the invariant depends on the values on entry: cache per entry ranges, and re-verify a cached
        # candidate under the facts of this path (one pass over the body) before using it
        entry = []
        for l, (pre, var) in sorted(lv.items()):
            pv = self.val(pre, st)
            entry.append((l, self.rng(pv, st), self.may(pv, st) if self.trange(var) and self.trange(var)[1] >= (1 << 32) - 1 else None))
        key = key + (tuple(entry),)
        inv = self.find_invariant(n, seq, i, st, cont, depth, chain, lin_inv, seed=self.loops.get(key))
        self.loops[key] = inv
        names = {}
        body = n[3].fn.body
        for l, (pre, var) in lv.items():
            names[var[2]] = var
            r = inv["ranges"].get(l)
            if r is not None:
                st.cons[var] = r
            if l in inv.get("mays", {}):
                st.may[var] = inv["mays"][l]
            if len(n) > 4 and len(body_info(body).defs.get(l, ())) == 1:
                # compiler temporary holding the iterator of a `for` loop: only `next` touches it
                pv = self.val(pre, st)
                if pv[0] == "call":
                    st.prov[(n[4], l)] = pv
        if lin_inv and inv.get("linear_ok"):
            self._install_linear(lin_inv, names, st)

    def _install_linear(self, lin_inv, names, st):
        # lin_inv: (target, {name: coef, None: const}) meaning target == sum
        tgt, form = lin_inv
        if tgt not in names:
            return
        lf = {}
        for nm, c in form.items():
            if nm is None:
                lf[None] = c
            elif nm in names:
                lf[names[nm]] = c
            else:
                return
        st.subst[names[tgt]] = lf

    @staticmethod
    def _has_load(e):
        stack = [e]
        while stack:
            x = stack.pop()
            if isinstance(x, tuple):
                if x and x[0] == "ld":
                    return True
                stack.extend(y for y in x if isinstance(y, tuple))
        return False

    def find_invariant(self, n, seq, i, st0, cont, depth, chain, lin_inv, seed=None):
        lv = n[2]
        header = n[1]
        ranges = {}
        base = st0.copy()
        for l, (pre, var) in lv.items():
            pv = self.val(pre, st0)
            r = self.rng(pv, st0)
            tr = self.trange(var)
            if tr is None:
                continue
            ranges[l] = meet(r, tr)
        thresholds = self.an.thresholds(n[3].fn)
        names = {var[2]: var for l, (pre, var) in lv.items()}
        mays = {}
        for l, (pre, var) in lv.items():
            tr = self.trange(var)
            if tr is not None and tr[0] == 0 and tr[1] >= (1 << 32) - 1:
                mays[l] = self.may(self.val(pre, st0), st0)
        linear_ok = False
        if lin_inv:
            # base case: the relation holds for the values on loop entry
            tgt, form = lin_inv
            pre_by_name = {var[2]: self.val(pre, st0) for l, (pre, var) in lv.items()}
            if tgt in pre_by_name and all(nm is None or nm in pre_by_name for nm in form):
                d = {None: form.get(None, 0)}
                for nm, c in form.items():
                    if nm is not None:
                        d = self._ladd(d, self.lin(pre_by_name[nm], st0), c)
                d = self._lsub(d, self.lin(pre_by_name[tgt], st0))
                linear_ok = self.lin_rng(d, st0) == (0, 0)
        if seed is not None:
            for l in ranges:
                if l in seed["ranges"]:
                    ranges[l] = join(ranges[l], seed["ranges"][l])
            for l in mays:
                mays[l] |= seed.get("mays", {}).get(l, 0)
        for it in range(40):
            finals = []

            def collect(be, st, header=header, finals=finals, frame=(n[4] if len(n) > 4 else None)):
                if be[1] == header and (frame is None or len(be) < 5 or be[4] == frame):
                    finals.append((be[3], st.copy()))
            st = base.copy()
            for l, (pre, var) in lv.items():
                if l in ranges:
                    st.cons[var] = ranges[l]
                if l in mays:
                    st.may[var] = mays[l]
            if lin_inv and linear_ok:
                self._install_linear(lin_inv, names, st)
            self.quiet += 1
            saved = self._collect
            self._collect = collect
            try:
                self.explore(seq, i + 1, st, (), depth, chain)
            finally:
                self._collect = saved
                self.quiet -= 1
            new_mays = dict(mays)
            for fin, fst in finals:
                for l in mays:
                    if l in fin:
                        new_mays[l] |= self.may(self.val(fin[l], fst), fst)
            new = dict(ranges)
            for fin, fst in finals:
                for l in ranges:
                    if l not in fin:
                        continue
                    fv = self.val(fin[l], fst)
                    r = self.rng(fv, fst)
                    tr = self.trange(lv[l][1])
                    if tr is not None:
                        r = meet(r, tr)
                    new[l] = join(new[l], r)
            if lin_inv and linear_ok:
                # inductive step: the relation holds for the values at every back edge
                tgt, form = lin_inv
                for fin, fst in finals:
                    by_name = {lv[l][1][2]: self.val(fin[l], fst) for l in lv if l in fin}
                    if tgt not in by_name or any(nm is not None and nm not in by_name for nm in form):
                        linear_ok = False
                        break
                    d = {None: form.get(None, 0)}
                    for nm, c in form.items():
                        if nm is not None:
                            d = self._ladd(d, self.lin(by_name[nm], fst), c)
                    d = self._lsub(d, self.lin(by_name[tgt], fst))
                    if self.lin_rng(d, fst) != (0, 0):
                        linear_ok = False
                        break
            if new == ranges and new_mays == mays:
                break
            mays = new_mays
            if it >= 2:
                # widen unstable bounds to the next threshold
                for l in new:
                    lo, hi = new[l]
                    olo, ohi = ranges[l]
                    tr = self.trange(lv[l][1]) or TOP
                    if hi > ohi:
                        hi = min([t for t in thresholds if t >= hi] + [tr[1]])
                    if lo < olo:
                        lo = max([t for t in thresholds if t <= lo] + [tr[0]])
                    new[l] = (lo, hi)
            ranges = new
        else:
            ranges = {l: self.trange(lv[l][1]) or TOP for l in ranges}
            mays = {}
        return {"ranges": ranges, "linear_ok": linear_ok, "mays": mays}

    # ---- calls
    def on_call(self, n, st, chain):
        name, base, args, site, info = n[1], n[2], n[3], n[4], n[5]
        args = tuple(self.val(a, st) for a in args)
        fns = self.an.facts.fns
        target = None
        if base in fns:
            target = base
        local = self.an.local_target(n)
        if local is not None:
            self.calls.add((local, site, chain))
            cs = self.an.summary.get(local)
            if cs is not None and (local in self.an.partial or self.an.facts.fns[local].safety == "Unsafe"):
                # not spliced (too large / too deep): its open obligations are open here as well
                for o in cs.open.values():
                    self.oblige(o.kind, o.what, o.site, chain + ((site, local),) + o.chain, False,
                                "inherited from %s (not spliced): %s" % (local[-60:], o.detail[:120]))
            return
        ls = last_seg(base or name)
        full = base or name
        self.ext[full] = self.ext.get(full, 0) + 1
        A = lambda j: args[j] if j < len(args) else ("const", 0, "?")
        if ls in ("unwrap", "expect") and ("Option" in full or "Result" in full):
            d = self.discr_rng(A(0), st)
            want = 1 if "Option" in full else 0
            self.oblige("panic", ls, site, chain, d == (want, want), "%s discr in %s" % (show(A(0))[:160], d))
            self.constrain(("discr", A(0)), want, want, st)
            return
        if ls == "index" and "Index<" in full:
            self._index_call(full, args, site, chain, st)
            return
        if ls == "split_at":
            ok = self.cmp_truth("Le", A(1), ("len", A(0)), st) is True
            self.oblige("panic", "split_at", site, chain, ok, "%s <= len(%s)" % (show(A(1))[:80], show(A(0))[:80]))
            self.refine_cond(("bin", "Le", A(1), ("len", A(0))), True, st)
            return
        if ls == "push" and "ArrayVec" in full:
            self.oblige("panic", "ArrayVec::push", site, chain, False, "capacity")
            return
        if ls in ("get_unchecked", "get_unchecked_mut"):
            idx = A(1)
            ln = self.rng(("len", A(0)), st)
            ok = self.cmp_truth("Lt", idx, ("len", A(0)), st) is True
            r = self.rng(idx, st)
            self.oblige("unsafe", ls, site, chain, ok, "index %s in %s, length %s" % (show(idx)[:100], r, ln))
            return
        if ls == "add" and "ptr" in full:
            self.an.ptr_add(self, n, args, st, chain)
            return
        if ls == "push_unchecked":
            self.an.push_unchecked(self, n, args, st, chain)
            return
        if ls == "unreachable_unchecked":
            self.oblige("unsafe", "unreachable_unchecked", site, chain, False, "reached")
            return
        if ls == "map" and "Iterator" in full and len(args) == 2 and args[1][0] == "agg" and args[1][1] == "closure" and args[1][2]:
            # the closure is only ever called with items of the iterator it is mapped over
            it = args[0]
            if it[0] == "agg" and it[2] == "Range" and len(it[3]) == 2:
                lo, hi = self.rng(it[3][0], st), self.rng(it[3][1], st)
                r = (lo[0], hi[1] - 1)
                old = self.an.closure_arg.get(args[1][2])
                self.an.closure_arg[args[1][2]] = r if old is None else join(old, r)
            src = it
            while src[0] == "call" and src[2] and last_seg(src[1]) in ("filter", "into_iter", "rev", "fuse", "peekable", "take_while",
                                                                        "skip_while", "inspect", "skip", "take", "step_by"):
                src = src[2][0]
            if src[0] == "call" and last_seg(src[1]) == "enumerate":
                # items are (index, element) pairs of `enumerate` (possibly filtered): the index is below the length
                n_hi = self._iter_len(src, st)
                if n_hi is not None:
                    r = (0, max(n_hi - 1, 0))
                    ck = (args[1][2], "#0")
                    old = self.an.closure_arg.get(ck)
                    self.an.closure_arg[ck] = r if old is None else join(old, r)
        if ls == "fold" and "Iterator" in full and len(args) == 3 and args[2][0] == "agg" and args[2][1] == "closure" and args[2][2]:
            # `iter.fold(init, |acc, item| ..)`: the closure's second argument is an item of the iterator
            src = args[0]
            while src[0] == "call" and src[2] and last_seg(src[1]) in ("filter", "into_iter", "rev", "fuse", "peekable", "take_while",
                                                                        "skip_while", "inspect", "skip", "take", "step_by"):
                src = src[2][0]
            if src[0] == "call" and last_seg(src[1]) == "enumerate":
                n_hi = self._iter_len(src, st)
                if n_hi is not None:
                    r = (0, max(n_hi - 1, 0))
                    ck = (args[2][2], 3, "#0")
                    old = self.an.closure_arg.get(ck)
                    self.an.closure_arg[ck] = r if old is None else join(old, r)
        if ls in TOTAL_EXT:
            return
        self.oblige("model", "unclassified external callee " + full, site, chain, False, "")

    def _index_call(self, full, args, site, chain, st):
        o, rg = args[0], args[1] if len(args) > 1 else None
        is_str = " for str" in full or self.an.is_str_ref(self.ety(o)) if self.ety(o) is not None else " for str" in full
        ln = ("len", o)
        ok = None
        desc = show(rg)[:80] if rg is not None else "?"
        if rg is not None and rg[0] == "agg" and rg[2] == "RangeFrom":
            ok = self.cmp_truth("Le", rg[3][0], ln, st) is True
            self.refine_cond(("bin", "Le", rg[3][0], ln), True, st)
        elif rg is not None and rg[0] == "agg" and rg[2] == "Range":
            ok = self.cmp_truth("Le", rg[3][0], rg[3][1], st) is True and self.cmp_truth("Le", rg[3][1], ln, st) is True
            self.refine_cond(("bin", "Le", rg[3][1], ln), True, st)
        elif rg is not None and rg[0] == "agg" and rg[2] == "RangeTo":
            ok = self.cmp_truth("Le", rg[3][0], ln, st) is True
        elif rg is not None and self.trange(rg) is not None:
            ok = self.cmp_truth("Lt", rg, ln, st) is True
            self.refine_cond(("bin", "Lt", rg, ln), True, st)
        else:
            ok = False
        if ok and is_str and not self.is_ascii(o, st):
            ok = False
            desc += " (char boundary: string not known to be ASCII)"
        self.oblige("panic", "index", site, chain, bool(ok), "%s within %s (len %s)" % (desc, show(o)[:80], self.rng(ln, st)))


class Analyzer:
    """Modular driver: summaries per function, demand-driven inlining of partial functions."""

    def __init__(self, facts, kinds=("assert", "panic", "unsafe", "model"), max_depth=16, max_steps=6_000_000,
                 small=14, linear_invariants=None, assume=None, crates=("owlchess", "owlchess_base")):
        self.facts = facts
        self.kinds = set(kinds)
        self.max_depth = max_depth
        self.max_steps = max_steps
        self.small = small
        self.crates = crates
        self.linear_invariants = linear_invariants or {}
        self.assume = assume or {}
        self.inline_paths = 6000
        self.small_paths = 200
        self.inline_steps = 600_000
        self.debug = None
        self.assumed = {}         # (kind, what, function def path) -> (class, reason)
        self.assumed_used = {}
        self.board_builders = set()
        self.spliced = set()      # closures decided in the context of a modelled combinator (not entry points of their own)
        self.closure_arg = {}     # closure def path -> range of its argument (items of the Range it is mapped over)
        self.move_inv = None      # kind -> ((src lo, src hi), (dst lo, dst hi)), from the well-formedness reference (C06)
        self.move_gated = set()   # functions that build a Move and release it only after is_well_formed()
        self.ep_inv = None        # range of a Board's / RawUndo's en-passant source square
        self.agg_watch = ()
        self.summary = {}         # fn id -> Unit
        self.partial = set()
        self.stack = []
        self._thr = {}
        self._enum = {}
        self._tables = {}

    # ---- type helpers
    def type_range(self, ty):
        t = self.facts.types[ty]
        k = t["k"]
        if k == "int":
            w = t["w"]
            return (-(1 << (w - 1)), (1 << (w - 1)) - 1) if t["s"] else (0, (1 << w) - 1)
        if k == "bool":
            return (0, 1)
        if k == "char":
            return (0, 0x10FFFF)
        if k == "adt":
            p = t["path"]
            if p in TYPE_INV:
                return TYPE_INV[p]
            if p in TRANSPARENT:
                return TRANSPARENT[p]
        return None

    def is_type(self, ty, path):
        if ty is None:
            return False
        t = self.facts.types[ty]
        return t["k"] == "adt" and t["path"] == path

    def is_ref_to(self, ty, path):
        if ty is None:
            return False
        t = self.facts.types[ty]
        return t["k"] in ("ref", "ptr") and self.is_type(t["to"], path)

    def struct_fields(self, path):
        a = self.facts.adts.get(path)
        return [f["name"] for f in a["variants"][0]["fields"]]

    def table_or(self, name, ety, idx_rng):
        """OR of the integer elements of a constant table over an index range."""
        r = self.table_range(name, ety, idx_rng)
        if r is None:
            return None
        vals = None
        for (nm, w), v in self._tables.items():
            if nm == name:
                vals = v
        if not vals:
            return None
        lo = max(idx_rng[0], 0)
        hi = min(idx_rng[1], len(vals) - 1)
        out = 0
        for v in vals[lo:hi + 1]:
            out |= v
        return out

    def named_range(self, name):
        w = {"u8": 8, "u16": 16, "u32": 32, "u64": 64, "u128": 128, "usize": 64}.get(name)
        if w:
            return (0, (1 << w) - 1)
        w = {"i8": 8, "i16": 16, "i32": 32, "i64": 64, "i128": 128, "isize": 64}.get(name)
        if w:
            return (-(1 << (w - 1)), (1 << (w - 1)) - 1)
        if name == "bool":
            return (0, 1)
        if name == "char":
            return (0, 0x10FFFF)
        if name in TYPE_INV:
            return TYPE_INV[name]
        return None

    def is_str_ref(self, ty):
        if ty is None:
            return False
        t = self.facts.types[ty]
        if t["k"] == "ref":
            return self.facts.types[t["to"]]["k"] == "str"
        return t["k"] == "str"

    def array_len(self, ty):
        t = self.facts.types[ty]
        for _ in range(3):
            if t["k"] in ("ref", "ptr"):
                t = self.facts.types[t["to"]]
        if t["k"] == "array":
            try:
                return int(t["len"])
            except (TypeError, ValueError):
                return None
        return None

    def static_len(self, place):
        """Length of a named const/static array."""
        e = place
        while isinstance(e, tuple) and e and e[0] in ("deref", "ref"):
            e = e[1]
        if isinstance(e, tuple) and e and e[0] == "named":
            return self.facts.table_len(e[1]) if hasattr(self.facts, "table_len") else None
        return None

    def is_fieldless_enum(self, ty):
        t = self.facts.types[ty]
        if t["k"] != "adt":
            return False
        info = self.facts.adts.get(t["key"]) or self.facts.adts.get(t["path"])
        return bool(info and info.get("kind") == "enum" and all(not v.get("fields") for v in info["variants"]))

    def variant_count(self, ty):
        t = self.facts.types[ty]
        if t["k"] == "ref":
            t = self.facts.types[t["to"]]
        if t["k"] != "adt":
            return None
        info = self.facts.adts.get(t["key"]) or self.facts.adts.get(t["path"])
        if not info or info.get("kind") != "enum":
            return None
        return len(info["variants"])

    def variant_discr(self, path, vname):
        if path.endswith("Option"):
            return {"None": 0, "Some": 1}.get(vname)
        if path.endswith("Result"):
            return {"Ok": 0, "Err": 1}.get(vname)
        if path.endswith("ControlFlow"):
            return {"Continue": 0, "Break": 1}.get(vname)
        return None

    def table_range(self, name, ety, idx_rng):
        """(min, max) of the integer elements of a constant table over an index range."""
        if ety is None:
            return None
        t = self.facts.types[ety]
        if t["k"] == "adt" and t["path"] in TRANSPARENT:
            w = 8
        elif t["k"] == "int":
            w = t["w"] // 8
        else:
            return None
        key = (name, w)
        vals = self._tables.get(key)
        if vals is None:
            try:
                b, relocs = self.facts.table_bytes(name)
            except Exception:
                b, relocs = None, None
            if b is None or relocs:
                vals = ()
            else:
                vals = tuple(int.from_bytes(b[i:i + w], "little") for i in range(0, len(b), w))
            self._tables[key] = vals
        if not vals:
            return None
        lo = max(idx_rng[0], 0)
        hi = min(idx_rng[1], len(vals) - 1)
        if lo > hi:
            return None
        sl = vals[lo:hi + 1]
        return (min(sl), max(sl))

    def thresholds(self, fn):
        t = self._thr.get(fn.id)
        if t is None:
            vals = set()
            for b in fn.body.blocks:
                for s in b["stmts"]:
                    self._consts(s, vals)
                self._consts(b["term"], vals)
            t = sorted(v for v in vals if 0 <= v <= 1 << 20)
            self._thr[fn.id] = t
        return t

    def _consts(self, x, out):
        if isinstance(x, dict):
            for key in ("int", "bits"):
                if key in x and isinstance(x[key], int):
                    out.add(x[key])
                    out.add(x[key] - 1)
                    out.add(x[key] + 1)
            for v in x.values():
                self._consts(v, out)
        elif isinstance(x, (list, tuple)):
            for v in x:
                self._consts(v, out)

    # ---- call policy
    def is_local(self, fid):
        f = self.facts.fns.get(fid)
        return f is not None and f.krate in self.crates

    def local_target(self, call_node):
        base = call_node[2]
        if base in self.facts.fns and self.is_local(base):
            return base
        # instantiated callee ids are the `inst` names; fx passes def_path as base: recover through the site
        site = call_node[4]
        t = site.fn.body.blocks[site.bi]["term"]
        f = t.get("f") if t["k"] == "call" else None
        if f:
            tid = f.get("inst") or (f.get("via") if "ext" in f else None)
            if tid and self.is_local(tid):
                return tid
        return None

    def inline_pred(self, unit_fn):
        def pred(callee):
            if not self.is_local(callee.id):
                return False
            if callee.id in self.stack_ids():
                return False
            if callee.safety == "Unsafe":
                return True
            if callee.id in self.partial:
                cs = self.summary.get(callee.id)
                # a partial function is decided in its caller's context, unless it is so large that splicing it
                # would not terminate in reasonable time: then its open obligations are inherited as they are
                return cs is None or (cs.paths <= self.inline_paths and cs.steps <= self.inline_steps)
            if unit_fn.def_path in self.board_builders:
                cs = self.summary.get(callee.id)
                if cs is not None and cs.board_dep:
                    return True     # validity of the Board under construction may not be assumed: decide in context
            if len(callee.body.blocks) <= self.small:
                # few blocks, but closures spliced into it may make it large: a total function with many paths
                # is used through its summary
                cs = self.summary.get(callee.id)
                return cs is None or cs.paths <= self.small_paths
            return False
        return pred

    def stack_ids(self):
        return set(self.stack)

    # ---- hooks for unsafe operations with repository-specific reasoning (set by the check module)
    def ptr_add(self, unit, n, args, st, chain):
        unit.oblige("unsafe", "ptr::add", n[4], chain, False, "no model")

    def ptr_assert(self, unit, n, st, chain):
        unit.oblige("unsafe", "pointer " + n[1], n[4], chain, False, "no model")

    def push_unchecked(self, unit, n, args, st, chain):
        unit.oblige("unsafe", "push_unchecked", n[4], chain, False, "no model")

    # ---- driver
    def analyse(self, fid):
        """Summary of function fid (analysing callees first)."""
        if fid in self.summary:
            return self.summary[fid]
        if fid in self.stack:
            return None
        fn = self.facts.fns[fid]
        self.stack.append(fid)
        try:
            # callees first, so that their partial/total status is known when this unit is built
            deferred = []
            for cid in self.local_callees(fn):
                if cid not in self.summary and cid not in self.stack:
                    if self.facts.fns[cid].kind == "Closure":
                        deferred.append(cid)      # a closure created here: what it is called with is learnt from this function
                    else:
                        self.analyse(cid)
            u = Unit(self, fn).run()
            for cid in deferred:
                if cid not in self.summary and cid not in self.stack:
                    self.analyse(cid)
        finally:
            self.stack.pop()
        self.summary[fid] = u
        u.board_dep = any(self.assumed[k][0] == "board" for k in u.assumed) or \
            any(self.summary[c[0]].board_dep for c in u.calls if c[0] in self.summary)
        if any(o.kind in self.kinds for o in u.open.values()):
            self.partial.add(fid)
        return u

    def local_callees(self, fn):
        out = []
        for b in fn.body.blocks:
            t = b["term"]
            if t["k"] == "call":
                f = t["f"]
                tid = f.get("inst") or (f.get("via") if "ext" in f else None)
                if tid and self.is_local(tid) and tid not in out:
                    out.append(tid)
                for h in f.get("hidden") or ():
                    if self.is_local(h) and h not in out:
                        out.append(h)           # closures handed to a std combinator: called by it
            for st in b["stmts"]:
                if st[0] == "assign" and st[2][0] == "agg" and st[2][1].get("k") == "closure":
                    for inst in self.facts.instances(st[2][1].get("path", "")):
                        if inst.id not in out:
                            out.append(inst.id)
        return out

    def reachable(self, roots):
        seen = []
        stack = list(roots)
        while stack:
            f = stack.pop()
            if f in seen or f not in self.facts.fns:
                continue
            seen.append(f)
            stack.extend(self.local_callees(self.facts.fns[f]))
        return seen
