"""C02 - the safe API yields only valid positions; a move is accepted iff it is legal."""
from . import shared
from . import apirules, sanrules, hashrules, attackrules, validaterules, genrules, witness
from .common import sim_rules

from .aisetup import total_roots_rule


from . import castlingrules as _castlingrules


def run(ctx):
    facts = ctx.facts("dev")
    ctx.decided += [
        "M7c the legality test used by validate/SAN/legal generation examines the king against the occupancy and the attacker set *after* "
        "the move, with the captured man (also the en-passant victim) removed from both (= C01/N4)",
        'M6w E4 witnesses: Unchecked/TryUnchecked::new, make_move_unchecked and Move::new_unchecked need `unsafe`; Board.r is not accessible from another crate',
        "M1/M3 every path of every Make::make_raw that returns Ok has made exactly one make_move_unchecked on a certified move: validated "
        "semilegal on that board and followed by a negative is_opponent_king_attacked test (Move, uci::Move, Uci<S>), or the Ok payload of a "
        "certified legal producer on that board (san::Move, San<S>), or the wrapper's unsafe constructor contract (Unchecked, TryUnchecked)",
        "M3s the semilegality validator accepts a well-formed move exactly under the conditions of the rules (C06/G6, abstract boards)",
        "M2 certified producers: san::Data::into_move returns Ok only after validate or from a LegalFilter-fed searcher (C09/S1)",
        "M4 every path returning Err has not mutated the board, or has rolled back with the same move and the undo record of that make; "
        "Ok paths return exactly (the move made, its undo record)",
        "M4u the rollback itself is exact: do_unmake_move on the abstract post-state of every kind and colour ends in the pre-state, "
        "occupancy sets included (= C04/K2) - so a refused promotion or capture leaves no ghost man in the sets",
        "M6 Board's fields are written only in board.rs and moves/base.rs and are not visible outside the crate; the unchecked API stays unsafe",
        "M7 the pin shortcut is never taken by an en passant capture (C01/N2); validation gate structure is C11/V1",
        "M9 the position left by do_make_move is, per abstract case, the one the rules prescribe, with castling rights re-examined for "
        "every changed home square - so re-validation has nothing to normalise (shared with C03/A0-A2)",
        "M5 the safe make API (Move, uci::Move, san::Move, Uci<S>, San<S>, TryUnchecked, Board::make_move; make and make_raw) reaches no "
        "assertion, panic or unsafe precondition on a valid Board (abstract interpreter, rules/absint.py, under A-KING)",
    ]
    ctx.not_decided += ["that the resulting position *is* valid: it follows if make-move (C03) and the legality filter (C01) are behaviourally "
                        "right; 're-validating reproduces it identically' is supported by C05/C11, not proved here"]
    apirules.make_impl_rules(ctx, facts, "M1", "M4")
    total_roots_rule(ctx, facts, "M5", [
        ("make_move", "Move::make"), ("make_move_raw", "Move::make_raw"), ("make_uci_move", "uci::Move::make"),
        ("make_uci_move_raw", "uci::Move::make_raw"), ("make_san_move", "san::Move::make"), ("make_san_move_raw", "san::Move::make_raw"),
        ("make_uci_str", "Uci(&str)::make"), ("make_uci_str_raw", "Uci(&str)::make_raw"), ("make_san_str", "San(&str)::make"),
        ("make_san_str_raw", "San(&str)::make_raw"), ("make_try_unchecked", "TryUnchecked::make"),
        ("make_try_unchecked_raw", "TryUnchecked::make_raw"), ("board_make_move", "Board::make_move"),
    ], "the safe make API never panics: no assertion, panic or unsafe precondition reachable on a valid Board")
    sanrules.producer_rule(ctx, facts, "M2")
    genrules.semilegal_rule(ctx, facts, "M3s", thorough=True)
    ctx.decided.append("M3w Move::is_well_formed, the gate of Move::new and of every reader that builds a move from text, is the geometric "
                       "predicate on all 532,480 (kind, cell, source, destination) tuples (= C06/WF re-run): a tuple it wrongly admits "
                       "(a pawn stepping onto the last rank without promoting) would be applied by the safe API")
    genrules.wellformed_rule(ctx, facts, "M3w")
    hashrules.writers_rule(ctx, facts, "M6")
    attackrules.prechecker_rule(ctx, facts, "M7")
    attackrules.checker_rule(ctx, facts, "M7c")
    validaterules.errors_rule(ctx, facts, "M8")
    sim_rules(ctx, facts, {
        "M9": ("a made move leaves a raw board that validation would not alter: squares, side, en-passant mark, castling rights "
               "re-examined on every changed home square, counters in range (abstract board, shared with C03)",
               ("cells", "fields", "castling", "counter", "unmodelled"), "make/"),
        "M4u": ("the rollback of a refused move (M4) restores squares, occupancy sets and all scalar fields exactly: do_unmake_move "
                "interpreted on the abstract post-state of every kind (shared with C04/K2)",
                ("undo", "cells", "occupancy", "unmodelled"), "unmake/"),
    })
    ctx.decided += [
        "M9u update_castling, tabulated on all (side, rights, changed home squares) points, removes exactly the rights whose king or rook home "
        "square changed - whichever colour's, also when one move touches home squares of both (= C03/A2u): a stale right would let a later "
        "castling be accepted with no rook to castle with",
    ]
    _castlingrules.update_castling_rule(ctx, facts, "M9u")
    shared.hash_component(ctx, facts, "M9", "re-validating the raw contents reproduces the position identically, hash and sets included")
    attackrules.pinned_rule(ctx, facts, "M7n")
    witness.cf_rule(ctx, 'M6w', ('cf/C02/', 'cf/C19/unsafe-make', 'cf/C19/unsafe-new'),
                    'safe code outside the crate cannot reach the unchecked make/constructors or the raw board inside a Board (compile-fail witnesses)')
