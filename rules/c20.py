"""C20 - core value types convert losslessly and bitboards behave as sets of squares."""
from . import valuerules, witness
from .aisetup import total_roots_rule


def ctfe_rule(ctx, rid, prefix):
    r = ctx.rule(rid, "compile-time witnesses (rustc const evaluation of exhaustive assertions over the public const fns)")
    ok, fails, n, dt, raw = witness.run_ctfe(ctx.repo)
    mine = [f for f in fails if f.startswith(prefix) or f.startswith("BUILD-ERROR")]
    other = [f for f in fails if f not in mine]
    for f in mine:
        r.fail("ctfe/" + f.split(":")[0][:80], "compile-time witness falsified: %s" % f[:300])
    if other and not mine:
        r.note("the witness crate also fails for another property: %s" % other[0][:120])
    if not mine:
        import re
        with open(witness.VERIF + "/witness_ctfe/src/lib.rs") as fh:
            src = fh.read()
        names = sorted(set(re.findall(r'"(%s/[^"]+)"' % prefix, src)))
        if other:
            # evaluation stops at the first falsified assertion of a block: the remaining ones were not confirmed
            r.fail("ctfe/blocked", "witness crate does not build (%s): assertions of this property could not be evaluated" % other[0][:160])
        else:
            for nm in names:
                r.ok(nm)
    r.note("cargo check of witness_ctfe: %.1fs, %d assert! sites" % (dt, n))


def run(ctx):
    facts = ctx.facts("dev")
    ctx.decided += [
        'E4 Coord::from_index(64) and Cell::from_index(13) in a const context are compile errors (E0080), the in-range twins compile',
        "E3 (exhaustive, by rustc's constant evaluator): index round trips of File/Rank/Coord/Piece/Cell/CastlingRights; Coord::{from_parts,"
        "file,rank,flipped_*,diag,antidiag,add}; DIAG/ANTIDIAG/rank()/file()/LIGHT/DARK membership for all 64 squares; Cell::{from_parts,"
        "color,piece}; Color::inv; CastlingRights::{has,has_color,with,without} on 16x2x2; Bitboard::{from_coord,with,without,has,len,"
        "is_empty,shl,shr,flipped_rank,flipped_file} on all one- and two-square sets",
        "E2 from_char accepts exactly the documented spellings (0x300 code points each) and inverts as_char for File/Rank/Color/Cell; "
        "Bitboard's operators are the u64 primitive; Coord::shift tabulated on 64x19x19 points",
    ]
    ctx.not_decided += ["text round trips through Display/FromStr as strings, the values computed by deposit_bits and the iteration order "
                        "(they need evaluation over 64-bit data); their panic freedom is rule E2p"]
    ctfe_rule(ctx, "E3", "C20")
    valuerules.char_tables_rule(ctx, facts, "E2c")
    ctx.decided += [
        "E5 string level: Display/FromStr of Coord (64 values), Cell (13), Color (2), CastlingRights (16) - each value is written in its "
        "documented spelling and read back as itself (models evaluated); 29 near-miss texts are refused without a panic",
    ]
    from . import textrules
    textrules.types_text_rule(ctx, facts, "E5")
    valuerules.operator_rule(ctx, facts, "E2o")
    valuerules.shift_rule(ctx, facts, "E2s")
    total_roots_rule(ctx, facts, "E2p", [
        ("bb_ops", "Bitboard &,|,^,!,has,len,is_empty"), ("bb_assign_ops", "Bitboard op-assign, set, unset"), ("bb_with", "Bitboard::with/without"),
        ("bb_from_coord", "Bitboard::from_coord"), ("bb_flips", "Bitboard::flipped_rank/flipped_file"), ("bb_deposit", "Bitboard::deposit_bits"),
        ("bb_iter", "Bitboard iteration"), ("bb_raw", "Bitboard raw conversions"), ("bbc_rank", "bitboard_consts::rank"),
        ("bbc_file", "bitboard_consts::file"),
    ], "bitboard operations are total: no overflow, shift or bounds assertion is reachable for any operand")
    witness.cf_rule(ctx, 'E4', ('cf/C20/',),
                    'checked constructors reject out-of-range indices already in const evaluation (compile-fail witnesses E0080)')
