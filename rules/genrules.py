"""Generator / validator / well-formedness rules (C06 G1-G5, WF; shared with C01, C19)."""
from . import geom
from .fx import FxBuilder, tree_paths, walk_tree, unstamp, path_value
from .expr import show
from .teval import TreeEval, Unsupported, Panic
from .outcomerules import emitter_set, GEN
from .castlingrules import ref_pass
from .boardsim import cell, sq, castling_rank_idx, PAWN, KING, KNIGHT, BISHOP, ROOK, QUEEN, WHITE, BLACK, KINDS, PROMOTE

MOVE = "owlchess::moves::base::Move"
MK = "owlchess::moves::base::MoveKind"
WRAPPERS = {
    # name: (SIMPLE, CAPTURE, SIMPLE_PROMOTE, CASTLING) - what each generator must cover, from its documentation
    "gen_all": (True, True, True, True),
    "gen_capture": (False, True, False, False),
    "gen_simple": (True, False, True, True),
    "gen_simple_no_promote": (True, False, False, True),
    "gen_simple_promote": (False, False, True, False),
}


def _b(x):
    return "true" if x else "false"


def expected_emitters(col, flags):
    S, C, SP, CA = flags
    out = set()
    if S:
        out.add(("do_gen_pawn_single", col, ("false",), None))
        out.add(("do_gen_pawn_double", col, (), None))
    if SP:
        out.add(("do_gen_pawn_single", col, ("true",), None))
    if C:
        out.add(("do_gen_pawn_capture", col, ("false",), None))
        out.add(("do_gen_pawn_capture", col, ("true",), None))
        out.add(("gen_pawn_enpassant", col, (), None))
    out.add(("do_gen_kn", col, (_b(S), _b(C)), KNIGHT))
    out.add(("do_gen_kn", col, (_b(S), _b(C)), KING))
    out.add(("do_gen_brq", col, (_b(S), _b(C), "true", "false"), BISHOP))
    out.add(("do_gen_brq", col, (_b(S), _b(C), "false", "true"), ROOK))
    out.add(("do_gen_brq", col, (_b(S), _b(C), "true", "true"), QUEEN))
    if CA:
        out.add(("gen_castling", col, (), None))
    return out


def partition_rule(ctx, facts, rid):
    r = ctx.rule(rid, "the five generators cover exactly their move classes: all = capture + simple, simple = no_promote + promote (disjoint)")
    n = 0
    for name, flags in WRAPPERS.items():
        for col in ("White", "Black"):
            insts = [f for f in facts.instances(GEN + name) if "owlchess::generic::" + col in f.args]
            if not insts:
                r.anchor_missing("%s%s (%s)" % (GEN, name, col))
                continue
            seen = set()
            for inst in insts:
                em = frozenset(emitter_set(facts, inst))
                if em in seen:
                    continue
                seen.add(em)
                n += 1
                want = expected_emitters(col, flags)
                missing = sorted(map(str, want - em))
                extra = sorted(map(str, em - want))
                r.check(not missing and not extra, "%s/%s" % (name, col),
                        "%s::<%s> reaches emitters that differ from its documented move class: missing %s, extra %s"
                        % (name, col, missing, extra), site=ctx.site(inst), what="%s<%s>: %d emitters as prescribed" % (name, col, len(want)))
    # the classes themselves partition: quiet / quiet-promotion / capture / castling
    cover = {k: set() for k in WRAPPERS}
    for k, (S, C, SP, CA) in WRAPPERS.items():
        cover[k] = {c for c, on in (("quiet", S), ("capture", C), ("quiet-promotion", SP), ("castling", CA)) if on}
    ok = (cover["gen_all"] == cover["gen_capture"] | cover["gen_simple"] and not (cover["gen_capture"] & cover["gen_simple"])
          and cover["gen_simple"] == cover["gen_simple_no_promote"] | cover["gen_simple_promote"]
          and not (cover["gen_simple_no_promote"] & cover["gen_simple_promote"]))
    r.check(ok, "partition-table", "the reviewed class table is not a partition", what="class table is a partition")
    r.floor(n, 10, "generator wrapper instances")
    # allowed_mask: (simple, capture) -> target squares
    fb = FxBuilder(facts)
    for col, c in (("White", WHITE), ("Black", BLACK)):
        own = "**self.board.white" if c == WHITE else "**self.board.black"
        opp = "**self.board.black" if c == WHITE else "**self.board.white"
        want = {("true", "true"): "Not(%s)" % own, ("true", "false"): "Not(**self.board.all)",
                ("false", "true"): opp, ("false", "false"): "0"}
        done = set()
        for inst in facts.instances(GEN + "allowed_mask"):
            if "owlchess::generic::" + col not in inst.args:
                continue
            key = tuple(a for a in inst.args if a in ("true", "false"))
            if key in done:
                continue
            done.add(key)
            ret = [x[1] for x in fb.tree(inst) if x[0] == "ret"]
            s = show(unstamp(ret[0])) if ret else "?"
            r.check(s == want.get(key), "allowed_mask/%s/%s" % (col, ",".join(key)),
                    "allowed_mask::<%s>(%s) = %s, expected %s" % (",".join(key), col, s, want.get(key)), site=ctx.site(inst),
                    what="allowed_mask<%s>(%s) = %s" % (",".join(key), col, want.get(key)))


def add_move_rule(ctx, facts, rid):
    r = ctx.rule(rid, "every generated move has a constant (kind, piece) pair that matches_piece accepts, the mover's colour, and "
                      "new_unchecked is only reached through add_move")
    fb = FxBuilder(facts)
    pairs = {}
    for fn in facts.fns.values():
        if fn.krate != "owlchess":
            continue
        for bi, t in fn.body.calls():
            f = t["f"]
            if "inst" not in f:
                continue
            callee = facts.fns[f["inst"]]
            if callee.def_path == "owlchess::moves::base::Move::new_unchecked":
                r.check(fn.def_path == GEN + "add_move", "new_unchecked-caller/" + fn.def_path,
                        "%s calls Move::new_unchecked; only MoveGenImpl::add_move may" % fn.def_path, site=ctx.site(fn, bi),
                        what="new_unchecked called from add_move")
            if callee.def_path == GEN + "add_move":
                from .expr import Builder
                b = Builder(facts)
                k = fb.fold(b.operand(fn.body, t["args"][1]))
                p = fb.fold(b.operand(fn.body, t["args"][2]))
                pairs.setdefault((fn.def_path, k[1] if k else None, p[1] if p else None), (fn, bi))
    mp = facts.fns.get("owlchess::moves::base::MoveKind::matches_piece")
    for (caller, k, p), (fn, bi) in sorted(pairs.items(), key=str):
        key = "%s/kind=%s/piece=%s" % (caller.split("::")[-1], KINDS.get(k, k), p)
        if k is None:
            # kind is a run-time value only in san_pawn_capture_candidates: promote.map(MoveKind::from).unwrap_or(Simple) with piece Pawn
            ok = caller.endswith("san_pawn_capture_candidates") and p == PAWN
            r.check(ok, key, "%s emits a move whose kind is not a constant and is not the reviewed promotion-or-simple pawn capture" % caller,
                    site=ctx.site(fn, bi), what=key + " (kind in {Simple, Promote*}, piece Pawn)", )
            continue
        if p is None:
            # piece forwarded from a constant at the caller's caller (do_gen_kn / do_gen_brq / san_candidates): Simple matches any piece
            r.check(k == 1, key, "%s emits kind %s with a non-constant piece" % (caller, KINDS.get(k, k)), site=ctx.site(fn, bi), what=key + " (Simple)")
            continue
        want = (k == 1) or (k in (4, 5, 6, 7, 8, 9) and p == PAWN) or (k in (2, 3) and p == KING)
        r.check(want, key, "%s emits (kind %s, piece %s), which MoveKind::matches_piece rejects" % (caller, KINDS.get(k, k), p),
                site=ctx.site(fn, bi), what=key)
    r.floor(len(pairs), 12, "add_move call sites with distinct (kind, piece)")
    # matches_piece itself, tabulated
    if mp is None:
        r.anchor_missing("MoveKind::matches_piece")
    else:
        for k in range(10):
            for p in range(6):
                tree = fb.tree(mp, env=[("const", k, MK), ("const", p, "owlchess_base::types::Piece")])
                ret = [x[1] for x in tree if x[0] == "ret"]
                got = ret[0][1] if ret and ret[0][0] == "const" else None
                want = int((k == 1) or (k in (4, 5, 6, 7, 8, 9) and p == PAWN) or (k in (2, 3) and p == KING))
                r.check(got == want, "matches_piece(%s,%d)" % (KINDS[k], p), "matches_piece(%s, piece %d) = %r, expected %r" % (KINDS[k], p, got, want),
                        site=ctx.site(mp), what="matches_piece(%s,%d)" % (KINDS[k], p))


# ---------------------------------------------------------------------------------------------- castling agreement

def _cond_key(d):
    """Normalise a castling-related condition: ("right", bit) | ("empty", mask) | ("attacked", colour, square)."""
    d = unstamp(d)
    s = show(d)
    if d[0] == "un" and d[1] == "Not":
        inner = _cond_key(d[2])
        return (inner[0], not inner[1]) if inner is not None else None
    if d[0] == "call" and d[1].startswith("owlchess::movegen::do_is_cell_attacked::<owlchess::generic::"):
        col = d[1].split("generic::")[1].rstrip(">")
        sqe = d[2][1]
        return ("attacked", col, sqe[1] if sqe[0] == "const" else show(sqe)), True
    if d[0] == "bin" and d[1] in ("Ne", "Eq"):
        zero = ("const", 0, "u8")
        zero64 = ("const", 0, "u64")
        for a, b in ((d[2], d[3]), (d[3], d[2])):
            if a in (zero, zero64):
                x = b
                if x[0] == "bin" and x[1] == "BitAnd":
                    p, q = x[2], x[3]
                    c, o = (p, q) if p[0] == "const" else (q, p)
                    if c[0] == "const" and "castling" in show(o):
                        if o[0] == "bin" and o[1] == "Shr" and o[3][0] == "const" and c[1] == 1:
                            return ("right", o[3][1]), d[1] == "Ne"
                        if c[1] in (1, 2, 4, 8) and show(o).rstrip(")").endswith(("castling", "castling.0")):
                            return ("right", c[1].bit_length() - 1), d[1] == "Ne"      # `(rights & (1 << k)) != 0` is the same test
                        return ("anyright", c[1]), d[1] == "Ne"
                    if c[0] == "const" and show(o).endswith(".all"):
                        return ("empty", c[1]), d[1] == "Eq"
    return None


def _castling_conditions(events, choices):
    conds = {}
    for e in events:
        if e[0] != "branch":
            continue
        d = path_value(e[1], choices)
        ck = _cond_key(d)
        if ck is None:
            continue
        key, pos = ck
        truth = not (e[2] != "else" and 0 in e[2])
        conds[key] = truth if pos else (not truth)
    return conds


def castling_rule(ctx, facts, rid):
    r = ctx.rule(rid, "castling: generator and validator demand the same conditions - the right, an empty king/rook path, king square and "
                      "transit square not attacked - and nothing else")
    STOP = ("owlchess::movegen::do_is_cell_attacked",)
    for c, col, opp in ((WHITE, "White", "Black"), (BLACK, "Black", "White")):
        rk = castling_rank_idx(c)
        e_sq = sq(4, rk)
        spec = {
            2: dict(side=1, transit=sq(5, rk), dst=sq(6, rk)),
            3: dict(side=0, transit=sq(3, rk), dst=sq(2, rk)),
        }
        # ---- generator
        insts = [f for f in facts.instances(GEN + "gen_castling") if "owlchess::generic::" + col in f.args]
        if not insts:
            r.anchor_missing(GEN + "gen_castling (%s)" % col)
            continue
        fb = FxBuilder(facts, stop=STOP)
        tree = fb.tree(insts[0])
        gen_conds = {}
        # path-wise: the conditions on the way to each emission, with merged values resolved along the path (so a helper that
        # returns the conjunction, or a local holding it, is looked through)
        for events, choices in tree_paths(tree):
            cs = {}
            for e in events:
                if e[0] == "branch":
                    d = path_value(e[1], choices)
                    ck = _cond_key(d)
                    if ck is None:
                        continue
                    key_, pos = ck
                    truth = not (e[2] != "else" and 0 in e[2])
                    cs[key_] = truth if pos else (not truth)
                elif e[0] == "call" and "push" in e[1] and len(e[3]) > 1:
                    mv = unstamp(path_value(e[3][1], choices))
                    if mv[0] == "agg" and mv[1] == MOVE and mv[3][0][0] == "const":
                        gen_conds.setdefault(mv[3][0][1], []).append((dict(cs), mv))
        for kind, sp in spec.items():
            bit = 2 * c + sp["side"]
            want = {("right", bit): True, ("empty", ref_pass(c, sp["side"])): True, ("attacked", opp, e_sq): False,
                    ("attacked", opp, sp["transit"]): False}
            key = "generator/%s/%s" % (col, KINDS[kind])
            lst = gen_conds.get(kind, [])
            if not lst:
                r.fail(key, "gen_castling::<%s> never emits %s" % (col, KINDS[kind]), site=ctx.site(insts[0]))
                continue
            # the emission may be duplicated in the tree (early returns prevent a join): a condition is *required* iff it
            # holds with the same truth on every occurrence
            common = set(lst[0][0].items())
            for conds, _mv in lst[1:]:
                common &= set(conds.items())
            lst = [(dict(common), lst[0][1])] if all(m == lst[0][1] for _c, m in lst) else lst
            for conds, mv in lst:
                rel = {k: v for k, v in conds.items() if k[0] in ("empty", "attacked") or k == ("right", bit)}
                okm = all(x[0] == "const" for x in mv[3]) and [x[1] for x in mv[3]] == [kind, cell(c, KING), e_sq, sp["dst"]]
                r.check(rel == want and okm, key,
                        "gen_castling::<%s> emits %s under conditions %s (move %s); the rules require exactly %s"
                        % (col, KINDS[kind], sorted(map(str, rel.items())), show(mv), sorted(map(str, want.items()))),
                        site=ctx.site(insts[0]), what=key + ": right, empty path, e-file and transit square not attacked")
        # ---- validator with the castling move as a literal
        val = facts.fns.get("owlchess::moves::base::do_is_move_semilegal::<owlchess::generic::%s>" % col)
        if val is None:
            r.anchor_missing("do_is_move_semilegal::<%s>" % col)
            continue
        for kind, sp in spec.items():
            bit = 2 * c + sp["side"]
            mv = ("agg", MOVE, "Move", (("const", kind, MK), ("const", cell(c, KING), "owlchess_base::types::Cell"),
                                        ("const", e_sq, "owlchess_base::types::Coord"), ("const", sp["dst"], "owlchess_base::types::Coord")))
            fbv = FxBuilder(facts, stop=STOP)
            tree = fbv.tree(val, env=[("param", 1, "b"), mv])
            want = {("right", bit): True, ("empty", ref_pass(c, sp["side"])): True, ("attacked", opp, e_sq): False,
                    ("attacked", opp, sp["transit"]): False}
            key = "validator/%s/%s" % (col, KINDS[kind])
            accept = []
            for events, choices in tree_paths(tree):
                last = events[-1]
                if last[0] != "ret":
                    continue
                conds = _castling_conditions(events, choices)
                ret = unstamp(path_value(last[1], choices))
                if ret == ("const", 0, "bool"):
                    continue
                if ret != ("const", 1, "bool"):
                    # `a && !f(x)` returns the last test itself
                    neg = ret[0] == "un" and ret[1] == "Not"
                    inner = ret[2] if neg else ret
                    ck = _cond_key(inner)
                    if ck is None:
                        accept.append(("?", show(ret)))
                        continue
                    k2, pos = ck
                    conds[k2] = (not neg) if pos else neg
                accept.append(conds)
            rel = []
            for a in accept:
                x = {k: v for k, v in a.items() if k[0] in ("empty", "attacked", "right")} if isinstance(a, dict) else a
                if x not in rel:
                    rel.append(x)
            r.check(len(rel) == 1 and rel[0] == want, key,
                    "do_is_move_semilegal::<%s> accepts %s under %s; the rules (and the generator) require exactly %s"
                    % (col, KINDS[kind], [sorted(map(str, a.items())) if isinstance(a, dict) else a for a in rel], sorted(map(str, want.items()))),
                    site=ctx.site(val), what=key + ": same four conditions as the generator")


# ---------------------------------------------------------------------------------------------- well-formedness table

def wf_ref(kind, c, s, d):
    """Geometric possibility of (kind, cell, src, dst), from the rules of chess."""
    if kind == 0:
        return c == 0 and s == 0 and d == 0
    if c == 0 or s == d:
        return False
    col = WHITE if c <= 6 else BLACK
    piece = (c - 1) % 6
    sf, sr = s & 7, s >> 3
    df, dr = d & 7, d >> 3
    fwd = -1 if col == WHITE else 1          # rank index change of a pawn step
    last = 0 if col == WHITE else 7          # promotion rank index
    home = 6 if col == WHITE else 1          # pawn start rank index
    if kind == 1:
        if piece == PAWN:
            return abs(sf - df) <= 1 and dr == sr + fwd and sr not in (0, 7) and dr not in (0, 7)
        if piece == KING:
            return max(abs(sf - df), abs(sr - dr)) == 1
        if piece == KNIGHT:
            return sorted((abs(sf - df), abs(sr - dr))) == [1, 2]
        diag = abs(sf - df) == abs(sr - dr)
        line = sf == df or sr == dr
        return {BISHOP: diag, ROOK: line, QUEEN: diag or line}[piece]
    if kind in (2, 3):
        rk = 7 if col == WHITE else 0
        return piece == KING and s == sq(4, rk) and d == sq(6 if kind == 2 else 2, rk)
    if piece != PAWN:
        return False
    if kind == 4:
        return sf == df and sr == home and dr == home + 2 * fwd
    if kind == 5:
        return sr == last - 3 * fwd and dr == last - 2 * fwd and abs(sf - df) == 1
    if kind in PROMOTE:
        return sr == last - fwd and dr == last and abs(sf - df) <= 1
    return False


def wellformed_rule(ctx, facts, rid, thorough=False):
    r = ctx.rule(rid, "Move::is_well_formed accepts exactly the geometrically possible (kind, cell, source, destination) tuples")
    fn = facts.fns.get("owlchess::moves::base::Move::is_well_formed")
    if fn is None:
        r.anchor_missing("owlchess::moves::base::Move::is_well_formed")
        return
    te = TreeEval(facts)
    total = 0
    for kind in range(10):
        for c in range(13):
            mv = ("agg", MOVE, "Move", (("const", kind, MK), ("const", c, "owlchess_base::types::Cell"), ("sym", "S"), ("sym", "D")))
            fb = FxBuilder(facts)
            tree = fb.tree(fn, env=[("ref", mv)])
            bad = None
            try:
                for s in range(64):
                    for d in range(64):
                        res = te.run(tree, {"S": s, "D": d})
                        got = bool(res[1]) if res else None
                        total += 1
                        if got != wf_ref(kind, c, s, d):
                            bad = (s, d, got)
                            break
                    if bad:
                        break
            except (Unsupported, Panic) as e:
                r.fail("is_well_formed/%s/cell%d" % (KINDS[kind], c), "is_well_formed(kind %s, cell %d): residual tree not evaluable: %r"
                       % (KINDS[kind], c, e), site=ctx.site(fn))
                continue
            r.check(bad is None, "is_well_formed/%s/cell%d" % (KINDS[kind], c),
                    "is_well_formed(kind %s, cell %d, %s -> %s) = %s, but the tuple is %sgeometrically possible"
                    % (KINDS[kind], c, geom.name(bad[0]) if bad else "", geom.name(bad[1]) if bad else "", bad[2] if bad else "",
                       "" if (bad and wf_ref(kind, c, bad[0], bad[1])) else "not "),
                    site=ctx.site(fn), what="is_well_formed(%s, cell %d) on all 4096 (src,dst)" % (KINDS[kind], c))
    ctx.extra["wellformed_tuples"] = total


def constructors_rule(ctx, facts, rid):
    r = ctx.rule(rid, "a Move is built safely only by Move::new (gated by is_well_formed), from_castling and NULL; fields are private")
    adt = facts.adts.get(MOVE)
    if not adt:
        r.anchor_missing(MOVE)
        return
    for f in adt["variants"][0]["fields"]:
        r.check(f["vis"] not in ("pub", "crate"), "Move.%s" % f["name"], "Move.%s is visible outside moves/base.rs" % f["name"],
                what="Move.%s private (%s)" % (f["name"], f["vis"]))
    # constructors of the aggregate
    allowed = {"owlchess::moves::base::Move::new", "owlchess::moves::base::Move::new_unchecked", "owlchess::moves::base::Move::from_castling",
               "owlchess::moves::base::Move::null", "<owlchess::moves::base::Move as core::clone::Clone>::clone"}
    n = 0
    for fn in facts.fns.values():
        if fn.krate != "owlchess":
            continue
        for bi, si, s in fn.body.iter_stmts():
            if s[0] == "assign" and s[2][0] == "agg" and s[2][1].get("path") == MOVE:
                n += 1
                r.check(fn.def_path in allowed, "construct/" + fn.def_path, "%s builds a Move aggregate directly" % fn.def_path,
                        site=ctx.site(fn, bi), what=fn.def_path + " constructs Move")
    r.floor(n, 3, "Move aggregate constructions")
    # Move::new returns Ok only if is_well_formed
    fn = facts.fns.get("owlchess::moves::base::Move::new")
    if fn is None:
        r.anchor_missing("Move::new")
    else:
        fb = FxBuilder(facts, stop=("owlchess::moves::base::Move::is_well_formed",))
        tree = fb.tree(fn)
        ret = [x[1] for x in tree if x[0] == "ret"]
        s = show(unstamp(ret[0])) if ret else ""
        v = unstamp(ret[0]) if ret else ("?",)
        ok = False
        if v[0] == "call" and "::ok_or::" in v[1] or (v[0] == "call" and v[1].split("::<")[0].endswith("ok_or")):
            inner = v[2][0]
            if inner[0] == "call" and "then_some" in inner[1]:
                g, val = inner[2][0], inner[2][1]
                ok = (g[0] == "call" and g[1] == "owlchess::moves::base::Move::is_well_formed" and g[2][0] == ("ref", val)
                      and val[0] == "agg" and val[1] == MOVE)
        if not ok:
            # any other shape: on every path, Ok(mv) only under `mv.is_well_formed()` tested true on that very aggregate
            n_ok = n_bad = 0
            for events, choices in tree_paths(tree):
                if events[-1][0] != "ret":
                    continue
                rv = unstamp(path_value(events[-1][1], choices))
                if rv[0] == "agg" and rv[2] == "Ok":
                    val = rv[3][0]
                    gated = False
                    for e in events:
                        if e[0] == "branch":
                            d = unstamp(path_value(e[1], choices))
                            truth = not (e[2] != "else" and 0 in e[2])
                            if d[0] == "call" and d[1] == "owlchess::moves::base::Move::is_well_formed" and d[2][0] == ("ref", val) and truth:
                                gated = True
                    if gated and val[0] == "agg" and val[1] == MOVE:
                        n_ok += 1
                    else:
                        n_bad += 1
            ok = n_ok >= 1 and n_bad == 0
        r.check(ok, "Move::new/gate", "Move::new returns Ok(mv) on a path where mv.is_well_formed() was not tested true: %s" % s, site=ctx.site(fn),
                what="Move::new gated by is_well_formed")
    # from_castling yields well-formed moves: evaluated through is_well_formed's own table (4 cases)
    fc = facts.fns.get("owlchess::moves::base::Move::from_castling")
    if fc is None:
        r.anchor_missing("Move::from_castling")
    else:
        fb = FxBuilder(facts)
        for c in (WHITE, BLACK):
            for side in (0, 1):
                tree = fb.tree(fc, env=[("const", c, "owlchess_base::types::Color"), ("const", side, "owlchess_base::types::CastlingSide")])
                ret = [x[1] for x in tree if x[0] == "ret"]
                v = ret[0] if ret else None
                ok = False
                if v and v[0] == "agg" and all(x[0] == "const" for x in v[3]):
                    k, cl, s, d = (x[1] for x in v[3])
                    ok = wf_ref(k, cl, s, d) and k == (2 if side == 1 else 3) and cl == cell(c, KING)
                r.check(ok, "from_castling(%s,%s)" % ("WB"[c], "QK"[side]), "from_castling(%s,%s) = %s is not the well-formed castling move"
                        % ("WB"[c], "QK"[side], show(v) if v else None), site=ctx.site(fc), what="from_castling(%s,%s)" % ("WB"[c], "QK"[side]))
    # NULL
    try:
        raw, _ = facts.table_bytes("owlchess::moves::base::Move::NULL")
        r.check(raw == bytes(len(raw)), "Move::NULL", "Move::NULL is not the all-zero move", what="Move::NULL = (Null, EMPTY, 0, 0)")
    except KeyError:
        pass


# ---------------------------------------------------------------------------------------------- the semilegality validator

SEMI = "owlchess::moves::base::do_is_move_semilegal"


def _ref_semilegal(C, kind, c, s, d, sc):
    """Semilegality of a well-formed move from the rules of chess, on the abstract scenario sc."""
    if kind == 0:
        return False
    if sc["board_src"] != c:
        return False
    col = WHITE if 1 <= c <= 6 else BLACK
    if c == 0 or col != C:
        return False
    dc = sc["dst"]
    if dc != 0 and (WHITE if dc <= 6 else BLACK) == C:
        return False
    piece = (c - 1) % 6
    fwd = -8 if C == WHITE else 8
    if piece == PAWN:
        if kind == 4:
            return sc["mid"] == 0 and dc == 0
        if kind == 5:
            p = sc["ep"]
            return p is not None and p in (s + 1, s - 1) and d == p + fwd
        return ((d & 7) == (s & 7)) == (dc == 0)
    if piece == KING:
        if kind in (2, 3):
            side = 1 if kind == 2 else 0
            nxt = s + 1 if kind == 2 else s - 1
            return bool(sc["right"].get((C, side))) and (ref_pass(C, side) & sc["all"]) == 0 \
                and not sc["attacked"].get(s) and not sc["attacked"].get(nxt)
        return True
    if piece == KNIGHT:
        return True
    dirs = {BISHOP: geom.BISHOP_DIRS, ROOK: geom.ROOK_DIRS, QUEEN: geom.BISHOP_DIRS + geom.ROOK_DIRS}[piece]
    bt = geom.between(s, d, dirs)
    return bt is not None and (bt & sc["all"]) == 0


def _scenarios(C, kind, c, s, d, thorough):
    """Abstract boards around one move: what stands on the destination, blockers, en-passant mark, rights, attacks."""
    own = cell(C, KNIGHT)
    enemy = cell(1 - C, KNIGHT)
    piece = (c - 1) % 6 if c else None
    fwd = -8 if C == WHITE else 8
    out = []
    for board_src in ((c, enemy) if thorough or kind in (1, 4) else (c,)):
        for dc in (0, own, enemy):
            base = {"board_src": board_src, "dst": dc, "mid": 0, "ep": None, "right": {}, "attacked": {}, "all": 0}
            occ = (1 << s) | ((1 << d) if dc else 0)
            if kind == 4:
                for mid in (0, enemy):
                    sc = dict(base, mid=mid, all=occ | ((1 << (s + fwd)) if mid else 0))
                    out.append(sc)
            elif kind == 5:
                lo = s & ~7
                for p in (None, s - 1, s + 1, lo + ((s + 3) & 7)):
                    if p is not None and not (lo <= p <= lo + 7):
                        continue
                    out.append(dict(base, ep=p, all=occ | ((1 << p) if p is not None else 0)))
            elif kind in (2, 3):
                side = 1 if kind == 2 else 0
                nxt = s + 1 if kind == 2 else s - 1
                passbb = ref_pass(C, side)
                blockers = [0] + [1 << b for b in geom.bits(passbb)]
                for right in ({}, {(C, side): True}, {(C, 1 - side): True}, {(1 - C, side): True}):
                    for blk in blockers:
                        for att in ({}, {s: True}, {nxt: True}, {d: True}):
                            out.append(dict(base, right=right, attacked=att, all=occ | blk))
            elif piece in (BISHOP, ROOK, QUEEN):
                dirs = geom.BISHOP_DIRS + geom.ROOK_DIRS
                bt = geom.between(s, d, dirs) or 0
                blks = [0] + [1 << b for b in geom.bits(bt)]
                # a blocker off the line must not matter
                off = [1 << q for q in range(64) if q not in (s, d) and not (bt >> q) & 1][:1]
                for blk in blks + off:
                    out.append(dict(base, all=occ | blk))
            else:
                out.append(dict(base, all=occ))
    return out


def semilegal_rule(ctx, facts, rid, thorough=False):
    r = ctx.rule(rid, "do_is_move_semilegal accepts a well-formed move exactly under the conditions of the rules of chess (abstract boards: "
                      "destination, blockers, en-passant mark, castling right, attacked squares), for both colour instances")
    from .fx import FxBuilder as _FB
    ATT = "owlchess::movegen::do_is_cell_attacked"
    HAS = "owlchess_base::types::CastlingRights::has"
    total = 0
    for C, col in ((WHITE, "White"), (BLACK, "Black")):
        fn = facts.fns.get("%s::<owlchess::generic::%s>" % (SEMI, col))
        if fn is None:
            r.anchor_missing("%s::<%s>" % (SEMI, col))
            continue
        trees = {}
        bad = None
        n_inst = 0
        squares = range(64) if thorough else (0, 3, 7, 9, 27, 28, 36, 54, 56, 60, 63)
        for kind in range(10):
            for c in range(13):
                if bad:
                    break
                key = (kind, c)
                mv = ("agg", "owlchess::moves::base::Move", "Move",
                      (("const", kind, "owlchess::moves::base::MoveKind"), ("const", c, "owlchess_base::types::Cell"), ("sym", "S"), ("sym", "D")))
                tree = None
                for s in range(64):
                    if bad:
                        break
                    piece = (c - 1) % 6 if c else None
                    if kind == 1 and piece in (KNIGHT, BISHOP, ROOK, QUEEN, KING) and s not in squares:
                        continue
                    for d in range(64):
                        if not wf_ref(kind, c, s, d):
                            continue
                        if tree is None:
                            fb = _FB(facts, stop={ATT, HAS})
                            tree = fb.tree(fn, env=[("param", 1, "b"), mv])
                        for sc in _scenarios(C, kind, c, s, d, thorough):
                            def mem(pe_, te, sc=sc, s=s, d=d, C=C):
                                txt = show(pe_)
                                if pe_[0] in ("tbl", "index") and txt.split("[")[0].endswith("b.r.cells"):
                                    idx = te.ev(pe_[2])
                                    if idx == s:
                                        return sc["board_src"]
                                    if idx == d:
                                        return sc["dst"]
                                    if idx == s + (-8 if C == WHITE else 8):
                                        return sc["mid"]
                                    return 13 if (sc["all"] >> idx) & 1 else 0
                                if pe_[0] == "field" and pe_[2] == "ep_source":
                                    return ("agg", "None", ()) if sc["ep"] is None else ("agg", "Some", (sc["ep"],))
                                if pe_[0] == "downcast" and pe_[2] == "Some" and pe_[1][0] == "field" and pe_[1][2] == "ep_source" \
                                        and sc["ep"] is not None:
                                    return sc["ep"]
                                if pe_[0] == "field" and pe_[2] == "all":
                                    return sc["all"]
                                if pe_[0] == "field" and pe_[2] == "castling":
                                    return 0
                                raise Unsupported("memory read " + txt)

                            def oracle(name, args, te, sc=sc):
                                if name.startswith(ATT):
                                    return int(bool(sc["attacked"].get(te.ev(args[1]))))
                                if name == HAS:
                                    return int(bool(sc["right"].get((te.ev(args[1]), te.ev(args[2])))))
                                return None
                            te = TreeEval(facts, mem=mem, oracle=oracle)
                            try:
                                res = te.run(tree, {"S": s, "D": d})
                                got = bool(res[1]) if res else None
                            except (Unsupported, Panic) as e:
                                got = "not evaluable: %r" % (e,)
                            want = _ref_semilegal(C, kind, c, s, d, sc)
                            total += 1
                            if got != want:
                                bad = (kind, c, s, d, sc, got, want)
                                break
                        if bad:
                            break
                if tree is not None and not bad:
                    n_inst += 1
                    r.ok("semilegal/%s/%s/cell%d" % (col, KINDS[kind], c))
        if bad:
            kind, c, s, d, sc, got, want = bad
            r.fail("semilegal/%s/%s" % (col, KINDS[kind]),
                   "do_is_move_semilegal::<%s> answers %s for %s of cell %d from %s to %s, the rules say %s (destination cell %d, blocker set %#x, "
                   "en-passant mark %s, rights %s, attacked %s)" % (col, got, KINDS[kind], c, geom.name(s), geom.name(d), want, sc["dst"],
                                                                   sc["all"], sc["ep"], sorted(sc["right"]), sorted(sc["attacked"])),
                   site=ctx.site(fn))
        if not bad:
            r.floor(n_inst, 20, "(kind, cell) arms of do_is_move_semilegal::<%s>" % col)
    ctx.extra["semilegal_points"] = total
