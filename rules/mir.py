"""Loader and basic graph utilities for the owlscan fact file (instantiated MIR as JSON).

Everything here is read-only over the facts: no library code is executed.
"""
import json
from functools import lru_cache


class Facts:
    def __init__(self, path):
        with open(path) as f:
            d = json.load(f)
        self.path = path
        self.meta = d["meta"]
        self.files = d["files"]
        self.types = d["types"]
        self.adts = d["adts"]
        self.sigs = d["sigs"]
        self.consts = d["consts"]
        self.statics = d["statics"]
        self.allocs = d["allocs"]
        self.ext = d["ext"]
        self.fns = {}
        for k, v in d["fns"].items():
            self.fns[k] = Fn(self, k, v)
        self.by_path = {}
        for f in self.fns.values():
            self.by_path.setdefault(f.def_path, []).append(f)

    # ---- lookup helpers
    def fn(self, ident):
        return self.fns[ident]

    def instances(self, def_path):
        """All instances of a def path (exact match)."""
        return self.by_path.get(def_path, [])

    def find(self, suffix):
        """Instances whose def path ends with `suffix` (at a `::` boundary)."""
        out = []
        for p, lst in self.by_path.items():
            if p == suffix or p.endswith("::" + suffix):
                out.extend(lst)
        return out

    def ty(self, i):
        return self.types[i]

    def ty_str(self, i):
        t = self.types[i]
        k = t["k"]
        if k in ("int", "adt", "fnptr", "other"):
            return t.get("n", k)
        if k == "ref":
            return ("&mut " if t["mut"] else "&") + self.ty_str(t["to"])
        if k == "ptr":
            return ("*mut " if t["mut"] else "*const ") + self.ty_str(t["to"])
        if k == "array":
            return "[%s; %s]" % (self.ty_str(t["of"]), t["len"])
        if k == "slice":
            return "[%s]" % self.ty_str(t["of"])
        if k == "tuple":
            return "(" + ", ".join(self.ty_str(x) for x in t["of"]) + ")"
        if k in ("fndef", "closure"):
            return k + ":" + t["path"]
        return k

    def file_of(self, fi):
        return self.files[fi]

    # ---- tables
    def table_bytes(self, name):
        """Raw bytes + relocations of a const or static table."""
        if name in self.statics:
            m = self.statics[name]["mem"]
            return bytes.fromhex(m["bytes"]), m["relocs"]
        c = self.consts[name]
        v = c["v"]
        if "mem" in v:
            ref = v["mem"]
            a = self.allocs[str(ref["alloc"])]
            b = bytes.fromhex(a["bytes"])
            off = ref["off"]
            return b[off:off + v["size"]], [r for r in a["relocs"]]
        if "bits" in v:
            return int(v["bits"]).to_bytes(v["size"], "little"), []
        raise KeyError(name)

    def table_u64(self, name):
        b, _ = self.table_bytes(name)
        return [int.from_bytes(b[i:i + 8], "little") for i in range(0, len(b), 8)]

    def const_int(self, name):
        v = self.consts[name]["v"]
        return int(v["bits"])


class Fn:
    def __init__(self, facts, ident, d):
        self.facts = facts
        self.id = ident
        self.def_path = d["def_path"]
        self.krate = d["krate"]
        self.kind = d["kind"]
        self.args = d["args"]
        self.file = facts.files[d["file"]]
        self.line = d["line"]
        self.safety = d["safety"]
        self.vis = d["vis"]
        self.body = Body(self, d["body"])
        self.promoted = [Body(self, p) for p in d["promoted"]]

    def __repr__(self):
        return "<Fn %s>" % self.id

    @property
    def short(self):
        return self.id

    def loc(self):
        return "%s:%d" % (self.file, self.line)


class Body:
    def __init__(self, fn, d):
        self.fn = fn
        self.facts = fn.facts
        self.argc = d["argc"]
        self.locals = d["locals"]
        self.names = {}
        for name, place in d["names"]:
            if not place["p"]:
                self.names.setdefault(place["l"], name)
        self.debug_places = d["names"]
        self.blocks = d["blocks"]
        self._succ = None
        self._pred = None
        self._dom = None
        self._pdom = None

    # ---- CFG without unwind edges and cleanup blocks
    def succ(self, bb):
        if self._succ is None:
            self._build()
        return self._succ[bb]

    def pred(self, bb):
        if self._pred is None:
            self._build()
        return self._pred[bb]

    def _build(self):
        n = len(self.blocks)
        succ = [[] for _ in range(n)]
        for i, b in enumerate(self.blocks):
            if b["cleanup"]:
                continue
            t = b["term"]
            k = t["k"]
            out = []
            if k == "goto":
                out = [t["t"]]
            elif k == "switch":
                out = [c[1] for c in t["cases"]] + [t["else"]]
            elif k in ("drop", "assert"):
                out = [t["t"]]
            elif k == "call":
                if t["t"] is not None:
                    out = [t["t"]]
            seen = []
            for o in out:
                if o not in seen:
                    seen.append(o)
            succ[i] = seen
        pred = [[] for _ in range(n)]
        for i, ss in enumerate(succ):
            for s in ss:
                pred[s].append(i)
        self._succ = succ
        self._pred = pred

    def reachable(self):
        seen = set()
        stack = [0]
        while stack:
            b = stack.pop()
            if b in seen:
                continue
            seen.add(b)
            stack.extend(self.succ(b))
        return seen

    def exits(self):
        """Blocks ending in `ret` (normal returns)."""
        return [i for i in self.reachable() if self.blocks[i]["term"]["k"] == "ret"]

    def is_panic_block(self, bb):
        """A block that can only end in a diverging call / unreachable (no normal successor)."""
        t = self.blocks[bb]["term"]
        return t["k"] in ("unreachable", "resume", "terminate") or (t["k"] == "call" and t["t"] is None)

    # ---- dominators (iterative, on the reduced CFG)
    def dominators(self):
        if self._dom is not None:
            return self._dom
        reach = self.reachable()
        order = self._rpo(0, self.succ)
        idx = {b: i for i, b in enumerate(order)}
        idom = {0: 0}
        changed = True
        while changed:
            changed = False
            for b in order[1:]:
                ps = [p for p in self.pred(b) if p in idom and p in reach]
                if not ps:
                    continue
                new = ps[0]
                for p in ps[1:]:
                    new = self._intersect(idom, idx, p, new)
                if idom.get(b) != new:
                    idom[b] = new
                    changed = True
        self._dom = idom
        return idom

    @staticmethod
    def _intersect(idom, idx, a, b):
        while a != b:
            while idx[a] > idx[b]:
                a = idom[a]
            while idx[b] > idx[a]:
                b = idom[b]
        return a

    def _rpo(self, start, succ):
        seen = set()
        out = []
        stack = [(start, iter(succ(start)))]
        seen.add(start)
        while stack:
            b, it = stack[-1]
            adv = False
            for s in it:
                if s not in seen:
                    seen.add(s)
                    stack.append((s, iter(succ(s))))
                    adv = True
                    break
            if not adv:
                out.append(b)
                stack.pop()
        out.reverse()
        return out

    def dominates(self, a, b):
        """Block a dominates block b."""
        idom = self.dominators()
        if b not in idom:
            return False
        while True:
            if a == b:
                return True
            if b == 0:
                return False
            b = idom[b]

    def postdominators(self):
        """Post-dominators w.r.t. normal returns only (panic paths are ignored: blocks that
        cannot reach a return are not in the map)."""
        if self._pdom is not None:
            return self._pdom
        n = len(self.blocks)
        EXIT = n
        exits = self.exits()
        rsucc = {EXIT: list(exits)}
        for b in range(n):
            rsucc[b] = list(self.pred(b))
        rpred = {b: [] for b in list(range(n)) + [EXIT]}
        for b, ss in rsucc.items():
            for s in ss:
                rpred[s].append(b)
        order = self._rpo(EXIT, lambda b: rsucc[b])
        idx = {b: i for i, b in enumerate(order)}
        idom = {EXIT: EXIT}
        changed = True
        while changed:
            changed = False
            for b in order[1:]:
                ps = [p for p in rpred[b] if p in idom]
                if not ps:
                    continue
                new = ps[0]
                for p in ps[1:]:
                    new = self._intersect(idom, idx, p, new)
                if idom.get(b) != new:
                    idom[b] = new
                    changed = True
        self._pdom = idom
        self._EXIT = EXIT
        return idom

    def postdominates(self, a, b):
        """Block a post-dominates block b (on paths that return normally)."""
        pd = self.postdominators()
        if b not in pd:
            return False
        while True:
            if a == b:
                return True
            if b == self._EXIT:
                return False
            nb = pd[b]
            if nb == b:
                return False
            b = nb

    def reaches(self, a, b, avoid=()):
        """Is there a CFG path from block a to block b (length >= 0) avoiding blocks in `avoid`?"""
        seen = set()
        stack = [a]
        while stack:
            x = stack.pop()
            if x == b:
                return True
            if x in seen or (x in avoid and x != a):
                continue
            seen.add(x)
            stack.extend(self.succ(x))
        return False

    # ---- iteration helpers
    def iter_stmts(self):
        for bi in sorted(self.reachable()):
            b = self.blocks[bi]
            for si, s in enumerate(b["stmts"]):
                yield bi, si, s

    def iter_terms(self):
        for bi in sorted(self.reachable()):
            yield bi, self.blocks[bi]["term"]

    def calls(self):
        for bi, t in self.iter_terms():
            if t["k"] == "call":
                yield bi, t

    def local_ty(self, l):
        return self.facts.types[self.locals[l]]

    def local_ty_str(self, l):
        return self.facts.ty_str(self.locals[l])

    def line_of_block(self, bi):
        loc = self.blocks[bi]["loc"]
        return self.facts.files[loc[3]], loc[4]

    def line_of_stmt(self, bi, si):
        loc = self.blocks[bi]["stmts"][si][-1]
        return self.facts.files[loc[3]], loc[4]


# ---------------------------------------------------------------- callee helpers

def callee_name(f):
    """Canonical name of a call target: instance id, external path, or None for indirect."""
    if "inst" in f:
        return f["inst"]
    if "ext" in f:
        return f["ext"]
    if "unresolved" in f:
        return f["unresolved"]
    return None


def callee_base(facts, f):
    """Def path without generic arguments."""
    if "inst" in f:
        return facts.fns[f["inst"]].def_path
    if "ext" in f:
        return f["base"]
    return None


# ---------------------------------------------------------------- pretty printer

def fmt_place(body, p):
    s = body.names.get(p["l"], "_%d" % p["l"])
    if s != "_%d" % p["l"]:
        s = "%s/_%d" % (s, p["l"])
    for e in p["p"]:
        k = e[0]
        if k == "deref":
            s = "(*%s)" % s
        elif k == "field":
            s = "%s.%s" % (s, e[2])
        elif k == "index":
            s = "%s[_%d]" % (s, e[1])
        elif k == "cindex":
            s = "%s[%s%d]" % (s, "-" if e[3] else "", e[1])
        elif k == "subslice":
            s = "%s[%d..%s%d]" % (s, e[1], "-" if e[3] else "", e[2])
        elif k == "downcast":
            s = "(%s as %s)" % (s, e[2])
        else:
            s = "%s.<%s>" % (s, e[1])
    return s


def fmt_const(facts, k):
    v = k.get("v", {})
    name = k.get("name")
    if "bits" in v:
        val = v.get("int", v["bits"])
        t = facts.types[k["ty"]]
        if t["k"] == "bool":
            return "true" if int(v["bits"]) else "false"
        if t["k"] == "char":
            return repr(chr(int(v["bits"])))
        return "%s_%s" % (val, facts.ty_str(k["ty"]))
    if "fn" in v:
        return "fn:" + str(callee_name(v["fn"]))
    if "str" in v:
        return json.dumps(v["str"])
    if "zst" in v:
        return "zst:" + facts.ty_str(k["ty"])
    if name:
        return "const:%s%s" % (name, "[promoted %d]" % k["promoted"] if "promoted" in k else "")
    if "ptr" in v:
        r = v["ptr"]
        if "static" in r:
            return "&static:%s+%d" % (r["static"], r["off"])
        return "&alloc%s+%s" % (r.get("alloc"), r.get("off"))
    return "const<%s>" % facts.ty_str(k["ty"])


def fmt_operand(body, o):
    if "c" in o:
        return fmt_place(body, o["c"])
    if "m" in o:
        return "move " + fmt_place(body, o["m"])
    if "k" in o:
        return fmt_const(body.facts, o["k"])
    return "rt:%s=%s" % (o.get("rt"), o.get("val"))


def fmt_rvalue(body, rv):
    k = rv[0]
    if k == "use":
        return fmt_operand(body, rv[1])
    if k == "ref":
        return ("&mut " if rv[1] else "&") + fmt_place(body, rv[2])
    if k == "rawptr":
        return "&raw " + fmt_place(body, rv[2])
    if k == "bin":
        return "%s(%s, %s)" % (rv[1], fmt_operand(body, rv[2]), fmt_operand(body, rv[3]))
    if k == "un":
        return "%s(%s)" % (rv[1], fmt_operand(body, rv[2]))
    if k == "cast":
        return "%s as %s [%s]" % (fmt_operand(body, rv[2]), body.facts.ty_str(rv[3]), rv[1])
    if k == "agg":
        a = rv[1]
        ops = ", ".join(fmt_operand(body, o) for o in rv[2])
        if a["k"] == "adt":
            return "%s::%s{%s}" % (a["path"], a["vname"], ops)
        return "%s(%s)" % (a["k"], ops)
    if k == "discr":
        return "discr(%s)" % fmt_place(body, rv[1])
    if k == "repeat":
        return "[%s; %s]" % (fmt_operand(body, rv[1]), rv[2])
    if k == "copyderef":
        return "copyderef " + fmt_place(body, rv[1])
    return "other:" + str(rv[1:])


def fmt_stmt(body, s):
    k = s[0]
    if k == "assign":
        return "%s = %s" % (fmt_place(body, s[1]), fmt_rvalue(body, s[2]))
    if k == "setdiscr":
        return "discr(%s) := %d" % (fmt_place(body, s[1]), s[2])
    return "%s %s" % (k, s[1])


def fmt_term(body, t):
    k = t["k"]
    if k == "goto":
        return "goto bb%d" % t["t"]
    if k == "switch":
        cs = ", ".join("%s->bb%d" % (c[0], c[1]) for c in t["cases"])
        return "switch %s [%s, else->bb%d]" % (fmt_operand(body, t["d"]), cs, t["else"])
    if k == "call":
        args = ", ".join(fmt_operand(body, a) for a in t["args"])
        f = t["f"]
        name = callee_name(f) or ("indirect " + fmt_operand(body, f["ind"]))
        tgt = "bb%d" % t["t"] if t["t"] is not None else "!"
        return "%s = %s(%s) -> %s" % (fmt_place(body, t["dest"]), name, args, tgt)
    if k == "assert":
        m = t["msg"]
        return "assert(%s == %s, %s) -> bb%d" % (fmt_operand(body, t["c"]), t["exp"], m["kind"], t["t"])
    if k == "drop":
        return "drop(%s) -> bb%d" % (fmt_place(body, t["p"]), t["t"])
    return k


def dump_fn(fn, out=None):
    import sys
    out = out or sys.stdout
    b = fn.body
    out.write("fn %s  [%s:%d] %s %s\n" % (fn.id, fn.file, fn.line, fn.safety, fn.vis))
    for i, t in enumerate(b.locals):
        nm = b.names.get(i, "")
        out.write("    let _%d: %s%s%s\n" % (i, fn.facts.ty_str(t), "  // " + nm if nm else "",
                                            "  (arg)" if 1 <= i <= b.argc else ""))
    reach = b.reachable()
    for bi, blk in enumerate(b.blocks):
        if bi not in reach:
            continue
        out.write("  bb%d:%s\n" % (bi, " (cleanup)" if blk["cleanup"] else ""))
        for s in blk["stmts"]:
            out.write("      %s    // L%d\n" % (fmt_stmt(b, s), s[-1][4]))
        out.write("      %s    // L%d\n" % (fmt_term(b, blk["term"]), blk["loc"][4]))
