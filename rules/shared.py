"""Component rule sets re-run by every property whose statement depends on the component (a change that breaks a component is then
reported by each property it breaks, not only by the one the component's rules were written for)."""
from . import attackrules, c15
from .common import sim_rules


def attack_component(ctx, facts, p, why):
    ctx.decided.append(
        "%s* (component: attack queries) %s: king/knight/pawn tables equal their geometric definition, every subset of every magic mask "
        "indexes the true sliding attack, attack::rook/bishop are the lookup formula, and do_is_cell_attacked / do_cell_attackers / "
        "Checker::is_attacked reduce to the five reference terms (= C15/T1-T3, C16/Q1-Q4 re-run)" % (p, why))
    c15.t1(ctx, facts, p + "t1")
    c15.t2(ctx, facts)
    c15.t3(ctx, facts)
    attackrules.sibling_rules(ctx, facts, p + "q")
    attackrules.dispatch_rules(ctx, facts, p + "d")


def legality_component(ctx, facts, p, why):
    ctx.decided.append(
        "%s* (component: legality filter) %s: the pin shortcut is never taken by an en passant capture, the pinned set is the set formula "
        "over all pinners, the exact test examines the king on the occupancy after the move (= C01/N2-N4 re-run)" % (p, why))
    attackrules.prechecker_rule(ctx, facts, p + "p")
    attackrules.pinned_rule(ctx, facts, p + "n")
    attackrules.checker_rule(ctx, facts, p + "c")


def undo_component(ctx, facts, p, why):
    ctx.decided.append(
        "%s* (component: undo) %s: the undo record holds the pre-state read before any store, and do_unmake_move on the abstract "
        "post-state of every kind and colour ends exactly in the pre-state, occupancy sets included (= C04/K1-K2 re-run)" % (p, why))
    sim_rules(ctx, facts, {
        p + "k": ("undo record captures the pre-state before any store (shared with C04/K1)", ("undo",), "make/"),
        p + "u": ("unmake restores squares, occupancy sets and all scalar fields (shared with C04/K2)",
                  ("undo", "cells", "occupancy", "unmodelled"), "unmake/"),
    })


def hash_component(ctx, facts, p, why):
    ctx.decided.append(
        "%s* (component: incremental hash and sets) %s: the keys XOR-ed into the hash by every make arm equal zobrist(post)^zobrist(pre), "
        "and the occupancy sets follow the squares in make and unmake (= C05/H2, H5 re-run)" % (p, why))
    sim_rules(ctx, facts, {
        p + "h": ("hash delta of every make arm = zobrist(post)^zobrist(pre) (shared with C05/H2)", ("hash",), "make/"),
        p + "o": ("occupancy sets follow the squares in make and unmake (shared with C05/H5)", ("occupancy", "unmodelled"), ""),
    })


def uci_component(ctx, facts, p, why, thorough=False):
    from . import ucirules, textrules
    ctx.decided.append(
        "%s* (component: UCI reader) %s: kind inference of uci::Move::into_move tabulated (double step, en passant only onto the square "
        "behind a marked pawn, castling, promotion, simple), conversion tables, and the text round trip of every uci::Move "
        "(= C10/X1, X4, X8 re-run)" % (p, why))
    ucirules.conversions_rule(ctx, facts, p + "c")
    ucirules.inference_rule(ctx, facts, p + "i", thorough)
    textrules.uci_text_rule(ctx, facts, p + "t", thorough)


def walker_component(ctx, facts, p, why):
    from . import chainrules
    ctx.decided.append(
        "%s* (component: chain undo paths) %s: pop un-counts, clears the outcome and unmakes with the popped pair; the walker's "
        "set_board_pos loops exit only at the target index, unmaking after the decrement and making before the increment, and next/prev "
        "synchronise the board to the index of the move they return (= C13/L2, C17/W1, W2 re-run)" % (p, why))
    chainrules.pop_rule(ctx, facts, p + "p")
    chainrules.walker_sync_rule(ctx, facts, p + "s")
    chainrules.walker_step_rule(ctx, facts, p + "w")
