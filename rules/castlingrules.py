"""Rules about castling-rights maintenance and castling constants (C03/A2u, A3; C05/H2u; C18)."""
from .fx import FxBuilder, walk_tree, unstamp
from .expr import show
from .boardsim import sq, castling_rank_idx, WHITE, BLACK

QUEEN, KING = 0, 1   # CastlingSide discriminants


def ref_srcs(c, s):
    r = castling_rank_idx(c)
    files = (4, 7) if s == KING else (0, 4)
    return sum(1 << sq(f, r) for f in files)


def ref_pass(c, s):
    r = castling_rank_idx(c)
    files = (5, 6) if s == KING else (1, 2, 3)
    return sum(1 << sq(f, r) for f in files)


def update_castling_rule(ctx, facts, rid):
    r = ctx.rule(rid, "update_castling clears exactly the right whose king/rook home square changed, and keys the hash")
    fn = facts.fns.get("owlchess::moves::base::update_castling")
    if fn is None:
        r.anchor_missing("owlchess::moves::base::update_castling")
        return
    fb = FxBuilder(facts)
    tree = fb.tree(fn)
    change = ("param", 2, fn.body.names.get(2, "_2"))
    found = {}
    guard_all = None
    final = None
    for n, conds, inl in walk_tree(tree):
        if n[0] != "switch":
            continue
        d = n[1]
        if d[0] == "bin" and d[1] in ("Ne", "Eq") and d[3] == ("const", 0, "u64") or (d[0] == "bin" and d[2] == ("const", 0, "u64")):
            other = d[3] if d[2] == ("const", 0, "u64") else d[2]
            if other[0] == "bin" and other[1] == "BitAnd" and change in (other[2], other[3]):
                k = other[3] if other[2] == change else other[2]
                if k[0] == "const":
                    nonzero_branch = "else" if d[1] == "Ne" else (0,)
                    sub = n[2].get(nonzero_branch, [])
                    unsets = [(m[2][1], m[2][2]) for m, _c, _i in walk_tree(sub)
                              if m[0] == "inlined" and m[1] == "owlchess_base::types::CastlingRights::unset"
                              and len(_c) == 0]
                    if unsets:
                        for (c, s) in unsets:
                            if c[0] == "const" and s[0] == "const":
                                found[(c[1], s[1])] = (k[1], n[3])
                    elif guard_all is None and not conds:
                        guard_all = (k[1], d[1], n[3])
        u = unstamp(d)
        if u[0] == "bin" and u[1] == "Ne" and any(show(x) == "*b.r.castling" for x in (u[2], u[3])):
            final = n
    for c in (WHITE, BLACK):
        for s in (QUEEN, KING):
            key = "pair(%s,%s)" % ("WB"[c], "QK"[s])
            if (c, s) not in found:
                r.fail(key, "update_castling never clears the %s right of %s" % (["queenside", "kingside"][s], ["White", "Black"][c]),
                       site=ctx.site(fn))
                continue
            mask, site = found[(c, s)]
            r.check(mask == ref_srcs(c, s), key,
                    "update_castling clears %s/%s when `change` meets %#x, but the king and rook home squares are %#x"
                    % ("WB"[c], "QK"[s], mask, ref_srcs(c, s)), site=ctx.site(site.fn, site.bi), what=key + " mask %#x" % mask)
    allm = 0
    for c in (WHITE, BLACK):
        for s in (QUEEN, KING):
            allm |= ref_srcs(c, s)
    if guard_all is not None:
        r.check(guard_all[0] == allm, "early-exit", "the early exit of update_castling tests %#x, not all six home squares %#x"
                % (guard_all[0], allm), what="early exit mask = all home squares")
    # hash bracket
    ok = False
    why = "no `castling != b.r.castling` block"
    if final is not None:
        sub = final[2].get("else", [])
        ev = [m for m, _c, _i in walk_tree(sub) if m[0] == "store"]
        why = "stores: " + "; ".join("%s := %s" % (show(m[1]), show(m[2])) for m in ev)
        if len(ev) == 3 and show(ev[0][1]) == "*b.hash" and show(ev[1][1]) == "*b.r.castling" and show(ev[2][1]) == "*b.hash":
            def keyed(v, ver):
                terms = _xor_terms(v)
                lds = [t for t in terms if t[0] == "ld" and show(t[2]) == "*b.hash"]
                cast = [t for t in terms if t[0] == "tbl" and t[1] == ("named", "owlchess::zobrist::CASTLING")]
                return (len(terms) == 2 and len(lds) == 1 and len(cast) == 1 and cast[0][2][0] == "ld"
                        and show(cast[0][2][2]) == "*b.r.castling" and cast[0][2][1] == ver)
            v0 = 0
            ok = keyed(ev[0][2], v0) and keyed(ev[2][2], v0 + 1)
    r.check(ok, "hash-bracket", "update_castling does not do hash ^= key(old rights); rights = new; hash ^= key(new rights): " + why,
            site=ctx.site(fn), what="hash ^= CASTLING[old]; store; hash ^= CASTLING[new]")


def _xor_terms(e):
    if e[0] == "bin" and e[1] == "BitXor":
        return _xor_terms(e[2]) + _xor_terms(e[3])
    return [e]


def constants_rule(ctx, facts, rid):
    """castling::{srcs, pass, offset, ALL_SRCS} evaluated by constant folding for the 4 enum combinations."""
    r = ctx.rule(rid, "castling constants decode to the king/rook home squares and king paths")
    fb = FxBuilder(facts)
    for name, ref in (("owlchess::castling::srcs", ref_srcs), ("owlchess::castling::pass", ref_pass)):
        fn = facts.fns.get(name)
        if fn is None:
            r.anchor_missing(name)
            continue
        for c in (WHITE, BLACK):
            for s in (QUEEN, KING):
                env = [("const", c, "owlchess_base::types::Color"), ("const", s, "owlchess_base::types::CastlingSide")]
                tree = fb.tree(fn, env=env)
                ret = [n[1] for n in tree if n[0] == "ret"]
                val = ret[0][1] if ret and ret[0][0] == "const" else None
                key = "%s(%s,%s)" % (name.split("::")[-1], "WB"[c], "QK"[s])
                r.check(val == ref(c, s), key, "%s = %s, expected %#x" % (key, hex(val) if val is not None else ret, ref(c, s)),
                        site=ctx.site(fn), what=key)
    fn = facts.fns.get("owlchess::castling::offset")
    if fn is None:
        r.anchor_missing("owlchess::castling::offset")
    else:
        for c in (WHITE, BLACK):
            tree = fb.tree(fn, env=[("const", c, "owlchess_base::types::Color")])
            ret = [n[1] for n in tree if n[0] == "ret"]
            val = ret[0][1] if ret and ret[0][0] == "const" else None
            r.check(val == 8 * castling_rank_idx(c), "offset(%s)" % "WB"[c], "castling::offset(%s) = %r, expected %d"
                    % ("WB"[c], val, 8 * castling_rank_idx(c)), site=ctx.site(fn), what="offset(%s)" % "WB"[c])
    if "owlchess::castling::ALL_SRCS" not in facts.consts:
        r.anchor_missing("owlchess::castling::ALL_SRCS")
    else:
        allm = 0
        for c in (WHITE, BLACK):
            for s in (QUEEN, KING):
                allm |= ref_srcs(c, s)
        v = facts.table_u64("owlchess::castling::ALL_SRCS")[0]
        r.check(v == allm, "ALL_SRCS", "ALL_SRCS = %#x, expected %#x" % (v, allm), what="ALL_SRCS")
