"""Rules about castling-rights maintenance and castling constants (C03/A2u, A3; C05/H2u; C18)."""
from .fx import FxBuilder, walk_tree, unstamp
from .expr import show
from .boardsim import sq, castling_rank_idx, WHITE, BLACK

QUEEN, KING = 0, 1   # CastlingSide discriminants


def ref_srcs(c, s):
    r = castling_rank_idx(c)
    files = (4, 7) if s == KING else (0, 4)
    return sum(1 << sq(f, r) for f in files)


def ref_pass(c, s):
    r = castling_rank_idx(c)
    files = (5, 6) if s == KING else (1, 2, 3)
    return sum(1 << sq(f, r) for f in files)


def update_castling_rule(ctx, facts, rid):
    r = ctx.rule(rid, "update_castling clears exactly the right whose king/rook home square changed, and keys the hash")
    fn = facts.fns.get("owlchess::moves::base::update_castling")
    if fn is None:
        r.anchor_missing("owlchess::moves::base::update_castling")
        return
    fb = FxBuilder(facts)
    tree = fb.tree(fn)
    # what the function computes, tabulated: for both sides to move, all 16 rights values and every set of changed home squares
    # (with and without an unrelated square) the rights afterwards are the old ones minus exactly those whose king or rook
    # home square changed. The model is evaluated, not matched: early exits, loops, combined masks all come out the same.
    from .machine import Machine, run_function, Stuck
    from .teval import Unsupported, Panic
    has = facts.fns.get("owlchess_base::types::CastlingRights::has")
    if has is None:
        r.anchor_missing("owlchess_base::types::CastlingRights::has")
        return
    try:
        meaning = {cr: frozenset((c, s_) for c in (WHITE, BLACK) for s_ in (QUEEN, KING)
                                 if run_function(facts, has, {1: cr, 2: c, 3: s_}, deref_self=True)[0]) for cr in range(16)}
    except (Stuck, Unsupported, Panic) as ex:
        r.fail("table", "CastlingRights::has not evaluable: %s" % str(ex)[:100], site=ctx.site(has))
        return
    by_meaning = {v: k for k, v in meaning.items()}
    if len(by_meaning) != 16:
        r.fail("table", "CastlingRights::has does not distinguish the 16 values", site=ctx.site(has))
        return
    atree = FxBuilder(facts, ai_mode=True, max_depth=12, max_blocks=400).tree(fn)
    homes = []
    for c in (WHITE, BLACK):
        for s_ in (QUEEN, KING):
            for q in range(64):
                if (ref_srcs(c, s_) >> q) & 1 and q not in homes:
                    homes.append(q)
    other = next(q for q in range(27, 64) if q not in homes)
    bad = None
    n_pts = 0
    for side in (0, 1):
        for r0 in range(16):
            for sub in range(1 << len(homes)):
                for extra in (0, 1 << other):
                    change = extra | sum(1 << homes[i] for i in range(len(homes)) if (sub >> i) & 1)

                    def mem(place, m, r0=r0, side=side):
                        t = show(unstamp(place))
                        if t.endswith("castling") or t.endswith("castling.0"):
                            return r0
                        if t.endswith(".side"):
                            return side
                        return ("sym", "opaque")
                    try:
                        m = Machine(facts, atree, mem=mem)
                        m.syms[2] = change
                        res = m.start()
                        steps = 0
                        while res[0] == "at" and steps < 100:
                            res = m.resume(res[1])
                            steps += 1
                        if res[0] != "ret":
                            bad = "update_castling ends with %s for rights %d, change %#x" % (res[0], r0, change)
                            break
                        hist = [v for k, v in m.memv.items() if k.endswith("castling") or k.endswith("castling.0")]
                        r1 = hist[0][-1] if hist else r0
                    except (Stuck, Unsupported, Panic) as ex:
                        bad = "model not evaluable: %s" % str(ex)[:120]
                        break
                    want = frozenset(p for p in meaning[r0] if not (change & ref_srcs(*p)))
                    if not isinstance(r1, int) or meaning.get(r1) != want:
                        names = lambda st: "".join(ch for (c, s_, ch) in ((0, 1, "K"), (0, 0, "Q"), (1, 1, "k"), (1, 0, "q")) if (c, s_) in st) or "-"
                        bad = "with %s to move, rights %s and changed squares %#x update_castling leaves %s; the rules leave %s" % (
                            "White" if side == 0 else "Black", names(meaning[r0]), change,
                            names(meaning[r1]) if isinstance(r1, int) and r1 in meaning else repr(r1), names(want))
                        break
                    n_pts += 1
                if bad:
                    break
            if bad:
                break
        if bad:
            break
    r.check(bad is None, "table", bad or "", site=ctx.site(fn),
            what="update_castling tabulated on %d (side, rights, changed squares) points: removes exactly the rights whose home squares changed" % n_pts)
    # hash bracket - net effect along every path, whatever the shape of the code:
    #   rights unchanged: hash unchanged;  rights r0 -> r: hash' = hash ^ CASTLING[r0] ^ CASTLING[r]
    from .fx import tree_paths, path_value
    ok = True
    why = ""
    n_changed = 0
    for events, choices in tree_paths(tree):
        if events[-1][0] != "ret":
            continue
        hash_terms = [("hash0",)]
        rights = [("r0",)]              # successive values of b.r.castling along the path

        def canon_idx(idx):
            u = idx
            if u[0] == "ld" and show(unstamp(u[2])) == "*b.r.castling":
                return rights[min(u[1], len(rights) - 1)]
            for i, rv in enumerate(rights):
                if u == rv:
                    return rv
            return ("val", u)
        for e in events:
            if e[0] != "store":
                continue
            tgt = show(unstamp(e[1]))
            val = path_value(e[2], choices)
            if tgt == "*b.r.castling":
                rights.append(canon_idx(val))
            elif tgt == "*b.hash":
                terms = []
                for t in _xor_terms(val):
                    if t[0] == "ld" and show(unstamp(t[2])) == "*b.hash":
                        terms += hash_terms
                    elif t[0] == "tbl" and t[1] == ("named", "owlchess::zobrist::CASTLING"):
                        terms.append(("K", canon_idx(t[2])))
                    else:
                        terms.append(("other", show(unstamp(t))[:60]))
                out = []
                for t in terms:
                    if t in out:
                        out.remove(t)
                    else:
                        out.append(t)
                hash_terms = out
        final = rights[-1]
        if len(rights) == 1:
            good = hash_terms == [("hash0",)]
        else:
            n_changed += 1
            want = [("hash0",)] + ([("K", ("r0",)), ("K", final)] if final != ("r0",) else [])
            good = sorted(map(repr, hash_terms)) == sorted(map(repr, want))
        if not good:
            ok = False
            why = "on a path with %d stores to the rights the hash ends as %s" % (len(rights) - 1, " ^ ".join(
                "hash" if t == ("hash0",) else ("CASTLING[%s]" % ("old" if t[1] == ("r0",) else ("new" if t[1] == final else "intermediate")) if t[0] == "K" else t[1])
                for t in hash_terms))
            break
    if ok and n_changed == 0:
        ok = False
        why = "no path changes the castling rights"
    r.check(ok, "hash-bracket", "update_castling does not leave hash' = hash ^ key(old rights) ^ key(new rights): " + why,
            site=ctx.site(fn), what="hash ^= CASTLING[old]; store; hash ^= CASTLING[new]")


def _xor_terms(e):
    if e[0] == "bin" and e[1] == "BitXor":
        return _xor_terms(e[2]) + _xor_terms(e[3])
    return [e]


def constants_rule(ctx, facts, rid):
    """castling::{srcs, pass, offset, ALL_SRCS} evaluated by constant folding for the 4 enum combinations."""
    r = ctx.rule(rid, "castling constants decode to the king/rook home squares and king paths")
    fb = FxBuilder(facts)
    for name, ref in (("owlchess::castling::srcs", ref_srcs), ("owlchess::castling::pass", ref_pass)):
        fn = facts.fns.get(name)
        if fn is None:
            r.anchor_missing(name)
            continue
        for c in (WHITE, BLACK):
            for s in (QUEEN, KING):
                env = [("const", c, "owlchess_base::types::Color"), ("const", s, "owlchess_base::types::CastlingSide")]
                tree = fb.tree(fn, env=env)
                ret = [n[1] for n in tree if n[0] == "ret"]
                val = ret[0][1] if ret and ret[0][0] == "const" else None
                key = "%s(%s,%s)" % (name.split("::")[-1], "WB"[c], "QK"[s])
                r.check(val == ref(c, s), key, "%s = %s, expected %#x" % (key, hex(val) if val is not None else ret, ref(c, s)),
                        site=ctx.site(fn), what=key)
    fn = facts.fns.get("owlchess::castling::offset")
    if fn is None:
        r.anchor_missing("owlchess::castling::offset")
    else:
        for c in (WHITE, BLACK):
            tree = fb.tree(fn, env=[("const", c, "owlchess_base::types::Color")])
            ret = [n[1] for n in tree if n[0] == "ret"]
            val = ret[0][1] if ret and ret[0][0] == "const" else None
            r.check(val == 8 * castling_rank_idx(c), "offset(%s)" % "WB"[c], "castling::offset(%s) = %r, expected %d"
                    % ("WB"[c], val, 8 * castling_rank_idx(c)), site=ctx.site(fn), what="offset(%s)" % "WB"[c])
    if "owlchess::castling::ALL_SRCS" not in facts.consts:
        r.anchor_missing("owlchess::castling::ALL_SRCS")
    else:
        allm = 0
        for c in (WHITE, BLACK):
            for s in (QUEEN, KING):
                allm |= ref_srcs(c, s)
        v = facts.table_u64("owlchess::castling::ALL_SRCS")[0]
        r.check(v == allm, "ALL_SRCS", "ALL_SRCS = %#x, expected %#x" % (v, allm), what="ALL_SRCS")
