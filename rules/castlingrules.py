"""Rules about castling-rights maintenance and castling constants (C03/A2u, A3; C05/H2u; C18)."""
from .fx import FxBuilder, walk_tree, unstamp
from .expr import show
from .boardsim import sq, castling_rank_idx, WHITE, BLACK

QUEEN, KING = 0, 1   # CastlingSide discriminants


def ref_srcs(c, s):
    r = castling_rank_idx(c)
    files = (4, 7) if s == KING else (0, 4)
    return sum(1 << sq(f, r) for f in files)


def ref_pass(c, s):
    r = castling_rank_idx(c)
    files = (5, 6) if s == KING else (1, 2, 3)
    return sum(1 << sq(f, r) for f in files)


def update_castling_rule(ctx, facts, rid):
    r = ctx.rule(rid, "update_castling clears exactly the right whose king/rook home square changed, and keys the hash")
    fn = facts.fns.get("owlchess::moves::base::update_castling")
    if fn is None:
        r.anchor_missing("owlchess::moves::base::update_castling")
        return
    fb = FxBuilder(facts)
    tree = fb.tree(fn)
    change = ("param", 2, fn.body.names.get(2, "_2"))
    found = {}
    guard_all = None
    final = None
    for n, conds, inl in walk_tree(tree):
        if n[0] != "switch":
            continue
        d = n[1]
        if d[0] == "bin" and d[1] in ("Ne", "Eq") and d[3] == ("const", 0, "u64") or (d[0] == "bin" and d[2] == ("const", 0, "u64")):
            other = d[3] if d[2] == ("const", 0, "u64") else d[2]
            if other[0] == "bin" and other[1] == "BitAnd" and change in (other[2], other[3]):
                k = other[3] if other[2] == change else other[2]
                if k[0] == "const":
                    nonzero_branch = "else" if d[1] == "Ne" else (0,)
                    sub = n[2].get(nonzero_branch, [])
                    unsets = [(m[2][1], m[2][2]) for m, _c, _i in walk_tree(sub)
                              if m[0] == "inlined" and m[1] == "owlchess_base::types::CastlingRights::unset"
                              and len(_c) == 0]
                    if unsets:
                        for (c, s) in unsets:
                            if c[0] == "const" and s[0] == "const":
                                found[(c[1], s[1])] = (k[1], n[3])
                    elif guard_all is None and not conds:
                        guard_all = (k[1], d[1], n[3])
        u = unstamp(d)
        if u[0] == "bin" and u[1] == "Ne" and any(show(x) == "*b.r.castling" for x in (u[2], u[3])):
            final = n
    for c in (WHITE, BLACK):
        for s in (QUEEN, KING):
            key = "pair(%s,%s)" % ("WB"[c], "QK"[s])
            if (c, s) not in found:
                r.fail(key, "update_castling never clears the %s right of %s" % (["queenside", "kingside"][s], ["White", "Black"][c]),
                       site=ctx.site(fn))
                continue
            mask, site = found[(c, s)]
            r.check(mask == ref_srcs(c, s), key,
                    "update_castling clears %s/%s when `change` meets %#x, but the king and rook home squares are %#x"
                    % ("WB"[c], "QK"[s], mask, ref_srcs(c, s)), site=ctx.site(site.fn, site.bi), what=key + " mask %#x" % mask)
    allm = 0
    for c in (WHITE, BLACK):
        for s in (QUEEN, KING):
            allm |= ref_srcs(c, s)
    if guard_all is not None:
        r.check(guard_all[0] == allm, "early-exit", "the early exit of update_castling tests %#x, not all six home squares %#x"
                % (guard_all[0], allm), what="early exit mask = all home squares")
    # hash bracket - net effect along every path, whatever the shape of the code:
    #   rights unchanged: hash unchanged;  rights r0 -> r: hash' = hash ^ CASTLING[r0] ^ CASTLING[r]
    from .fx import tree_paths, path_value
    ok = True
    why = ""
    n_changed = 0
    for events, choices in tree_paths(tree):
        if events[-1][0] != "ret":
            continue
        hash_terms = [("hash0",)]
        rights = [("r0",)]              # successive values of b.r.castling along the path

        def canon_idx(idx):
            u = idx
            if u[0] == "ld" and show(unstamp(u[2])) == "*b.r.castling":
                return rights[min(u[1], len(rights) - 1)]
            for i, rv in enumerate(rights):
                if u == rv:
                    return rv
            return ("val", u)
        for e in events:
            if e[0] != "store":
                continue
            tgt = show(unstamp(e[1]))
            val = path_value(e[2], choices)
            if tgt == "*b.r.castling":
                rights.append(canon_idx(val))
            elif tgt == "*b.hash":
                terms = []
                for t in _xor_terms(val):
                    if t[0] == "ld" and show(unstamp(t[2])) == "*b.hash":
                        terms += hash_terms
                    elif t[0] == "tbl" and t[1] == ("named", "owlchess::zobrist::CASTLING"):
                        terms.append(("K", canon_idx(t[2])))
                    else:
                        terms.append(("other", show(unstamp(t))[:60]))
                out = []
                for t in terms:
                    if t in out:
                        out.remove(t)
                    else:
                        out.append(t)
                hash_terms = out
        final = rights[-1]
        if len(rights) == 1:
            good = hash_terms == [("hash0",)]
        else:
            n_changed += 1
            want = [("hash0",)] + ([("K", ("r0",)), ("K", final)] if final != ("r0",) else [])
            good = sorted(map(repr, hash_terms)) == sorted(map(repr, want))
        if not good:
            ok = False
            why = "on a path with %d stores to the rights the hash ends as %s" % (len(rights) - 1, " ^ ".join(
                "hash" if t == ("hash0",) else ("CASTLING[%s]" % ("old" if t[1] == ("r0",) else ("new" if t[1] == final else "intermediate")) if t[0] == "K" else t[1])
                for t in hash_terms))
            break
    if ok and n_changed == 0:
        ok = False
        why = "no path changes the castling rights"
    r.check(ok, "hash-bracket", "update_castling does not leave hash' = hash ^ key(old rights) ^ key(new rights): " + why,
            site=ctx.site(fn), what="hash ^= CASTLING[old]; store; hash ^= CASTLING[new]")


def _xor_terms(e):
    if e[0] == "bin" and e[1] == "BitXor":
        return _xor_terms(e[2]) + _xor_terms(e[3])
    return [e]


def constants_rule(ctx, facts, rid):
    """castling::{srcs, pass, offset, ALL_SRCS} evaluated by constant folding for the 4 enum combinations."""
    r = ctx.rule(rid, "castling constants decode to the king/rook home squares and king paths")
    fb = FxBuilder(facts)
    for name, ref in (("owlchess::castling::srcs", ref_srcs), ("owlchess::castling::pass", ref_pass)):
        fn = facts.fns.get(name)
        if fn is None:
            r.anchor_missing(name)
            continue
        for c in (WHITE, BLACK):
            for s in (QUEEN, KING):
                env = [("const", c, "owlchess_base::types::Color"), ("const", s, "owlchess_base::types::CastlingSide")]
                tree = fb.tree(fn, env=env)
                ret = [n[1] for n in tree if n[0] == "ret"]
                val = ret[0][1] if ret and ret[0][0] == "const" else None
                key = "%s(%s,%s)" % (name.split("::")[-1], "WB"[c], "QK"[s])
                r.check(val == ref(c, s), key, "%s = %s, expected %#x" % (key, hex(val) if val is not None else ret, ref(c, s)),
                        site=ctx.site(fn), what=key)
    fn = facts.fns.get("owlchess::castling::offset")
    if fn is None:
        r.anchor_missing("owlchess::castling::offset")
    else:
        for c in (WHITE, BLACK):
            tree = fb.tree(fn, env=[("const", c, "owlchess_base::types::Color")])
            ret = [n[1] for n in tree if n[0] == "ret"]
            val = ret[0][1] if ret and ret[0][0] == "const" else None
            r.check(val == 8 * castling_rank_idx(c), "offset(%s)" % "WB"[c], "castling::offset(%s) = %r, expected %d"
                    % ("WB"[c], val, 8 * castling_rank_idx(c)), site=ctx.site(fn), what="offset(%s)" % "WB"[c])
    if "owlchess::castling::ALL_SRCS" not in facts.consts:
        r.anchor_missing("owlchess::castling::ALL_SRCS")
    else:
        allm = 0
        for c in (WHITE, BLACK):
            for s in (QUEEN, KING):
                allm |= ref_srcs(c, s)
        v = facts.table_u64("owlchess::castling::ALL_SRCS")[0]
        r.check(v == allm, "ALL_SRCS", "ALL_SRCS = %#x, expected %#x" % (v, allm), what="ALL_SRCS")
