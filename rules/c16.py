"""C16 - attack and check queries agree with the rules on every position."""
from . import attackrules, c15


def run(ctx):
    facts = ctx.facts("dev")
    ctx.decided += [
        "T2/T3 (shared with C15) the sliding lookups the queries use are exact: every subset of every magic mask indexes the true "
        "sliding attack, and attack::rook/bishop are the lookup formula over their own tables",
        "Q0 king/knight/pawn attack tables of this build equal their geometric definition (shared with C15/T1); sliders are C15",
        "Q1-Q3 do_is_cell_attacked, do_cell_attackers (both colours) and Checker::is_attacked (both attacker colours) each reduce to exactly "
        "the five reference terms: piece set of the attacking colour x attack set at the square, the pawn table of the opposite colour, "
        "diagonal sliders with bishop attacks and line sliders with rook attacks; boolean queries return true iff a term is non-empty",
        "Q4 public dispatch by colour; is_check/checkers = king of the side to move attacked by its opponent; "
        "is_opponent_king_attacked = king of the opponent attacked by the side to move",
        "Q5 piece_diag/piece_line are bishops|queens and rooks|queens",
    ]
    ctx.not_decided += ["that the union of five reverse lookups equals 'can capture pseudo-legally' (a geometric lemma about chess, "
                        "recorded as an assumption)"]
    ctx.assume("reverse-lookup lemma: a man of kind k on square x attacks s iff x is in attack_k(s) (for pawns with the colour inverted)")
    c15.t1(ctx, facts, "Q0")
    c15.t2(ctx, facts)
    c15.t3(ctx, facts)
    attackrules.sibling_rules(ctx, facts, "Q1")
    attackrules.dispatch_rules(ctx, facts, "Q4")
    attackrules.pinned_rule(ctx, facts, "Q5")
    from .shared import hash_component
    hash_component(ctx, facts, "Q6", "the queries read the occupancy sets, not the squares: a set that keeps a captured man's bit answers "
                   "with the attacks of a man that is not there")
