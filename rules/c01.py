"""C01 - legal move generation is exactly the rules of chess (necessary conditions only)."""
from . import shared
from . import attackrules, genrules, emitrules


def run(ctx):
    facts = ctx.facts("dev")
    ctx.decided += [
        'N7 the semilegal generator, read as set algebra over the iterated bitboards (rules/emitrules.py), emits the move S->D of each (kind, piece) exactly when the rules allow it: all 64x64 square pairs x abstract boards (destination, blockers, en-passant mark), both colours; sliding lookups taken as what C15/T2-T3 prove them to be; castling is rule G4/N5; with N1 (legal = semilegal filtered by the checker) and N4 (the checker) this ties legal generation to the rules',
        "N1 each legal::gen_* is its same-named semilegal::gen_* retained by Checker<DefaultPrechecker>::is_legal (un-negated); "
        "LegalFilter forwards a move iff is_legal; Move::validate = semi_validate then is_legal_unchecked (Checker<NilPrechecker>)",
        "N2 the pre-filter answers Some(true) only when not in check, the mover is neither pinned nor the king and the move is not en "
        "passant; it never answers Some(_) on any other path; its pinned set is built for the side to move from same-geometry x-rays",
        "N4 Checker::is_legal evaluates the attack test on the post-move occupancy with every captured man masked out (king move, "
        "en passant, other), negated; is_attacked is the reference five-term attack test (C16/Q1)",
        "N5 castling is generated (and validated) under exactly: the right, empty path, king and transit square not attacked",
        "N6 the five generator families reach exactly the emitters of their move class; the classes partition (subset clause)",
    ]
    ctx.not_decided += ["exactness of the generated set against the rules of chess on all positions (movement geometry of every piece, "
                        "completeness of the semilegal generator): only the legality filter's structure and its agreement between the "
                        "three legality routes are decided here"]
    attackrules.wrappers_rule(ctx, facts, "N1")
    attackrules.prechecker_rule(ctx, facts, "N2")
    attackrules.pinned_rule(ctx, facts, "N3")
    attackrules.checker_rule(ctx, facts, "N4")
    shared.attack_component(ctx, facts, "N8", "is_attacked, the attack test of the legality filter, rests on the attack tables")
    attackrules.sibling_rules(ctx, facts, "N4a")
    genrules.castling_rule(ctx, facts, "N5")
    genrules.partition_rule(ctx, facts, "N6")
    emitrules.emitter_rule(ctx, facts, 'N7')
