"""C13 - a move chain is a faithful, reversible record of the game."""
from . import chainrules, witness
from .common import sim_rules


def run(ctx):
    facts = ctx.facts("dev")
    ctx.decided += [
        'L5 MoveChain::push_unchecked cannot be called from safe code (E4 witness)',
        "L1 for every instantiated push<M>: on the path where make_raw succeeds exactly one (move, undo) pair - the one make_raw returned - "
        "is pushed on the stack and one repetition entry keyed by the new position's hash is added; on every refused path nothing is "
        "recorded and no field is stored",
        "L2 pop: Some-path does stack.pop, repeat.pop (before unmake), clears the outcome and unmakes the live board with the popped pair; "
        "None-path mutates nothing",
        "L3 every field of the chain is written / mutably borrowed only by its owning methods; all fields are private to chain.rs",
        "L4 equality compares start, move count, each move and the stored outcome",
    ]
    ctx.not_decided += ["that the current position equals the replay of the accepted moves: follows from L1-L3 with C03/C04 (per-step "
                        "exactness of make/unmake), not established separately"]
    ctx.decided += [
        "L2u what pop (and the rollback of a refused push) relies on: do_unmake_move, interpreted on the abstract post-state of every kind and "
        "colour, ends exactly in the pre-state - squares, every colour/piece occupancy set, hash, rights, mark, counters (= C04/K1-K2); so "
        "the live board after pop equals the replay of the remaining moves also in the sets that Board's == does not compare",
    ]
    sim_rules(ctx, facts, {
        "L2k": ("undo record captures the pre-state before any store (shared with C04/K1)", ("undo",), "make/"),
        "L2u": ("unmake restores squares, occupancy sets and all scalar fields (abstract board, shared with C04/K2)",
                ("undo", "cells", "occupancy", "unmodelled"), "unmake/"),
    })
    chainrules.push_rule(ctx, facts, "L1")
    chainrules.pop_rule(ctx, facts, "L2")
    chainrules.writers_rule(ctx, facts, "L3")
    chainrules.eq_rule(ctx, facts, "L4")
    witness.cf_rule(ctx, 'L5', ('cf/C13/',),
                    'the unchecked push of the chain is callable only inside `unsafe` (compile-fail witness E0133 with compiling twin)')
