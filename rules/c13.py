"""C13 - a move chain is a faithful, reversible record of the game."""
from . import chainrules, witness


def run(ctx):
    facts = ctx.facts("dev")
    ctx.decided += [
        'L5 MoveChain::push_unchecked cannot be called from safe code (E4 witness)',
        "L1 for every instantiated push<M>: on the path where make_raw succeeds exactly one (move, undo) pair - the one make_raw returned - "
        "is pushed on the stack and one repetition entry keyed by the new position's hash is added; on every refused path nothing is "
        "recorded and no field is stored",
        "L2 pop: Some-path does stack.pop, repeat.pop (before unmake), clears the outcome and unmakes the live board with the popped pair; "
        "None-path mutates nothing",
        "L3 every field of the chain is written / mutably borrowed only by its owning methods; all fields are private to chain.rs",
        "L4 equality compares start, move count, each move and the stored outcome",
    ]
    ctx.not_decided += ["that the current position equals the replay of the accepted moves: follows from L1-L3 with C03/C04 (per-step "
                        "exactness of make/unmake), not established separately"]
    chainrules.push_rule(ctx, facts, "L1")
    chainrules.pop_rule(ctx, facts, "L2")
    chainrules.writers_rule(ctx, facts, "L3")
    chainrules.eq_rule(ctx, facts, "L4")
    witness.cf_rule(ctx, 'L5', ('cf/C13/',),
                    'the unchecked push of the chain is callable only inside `unsafe` (compile-fail witness E0133 with compiling twin)')
