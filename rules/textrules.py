"""Text round trips of value types, tabulated: the model of `Display` is evaluated for every value of a finite domain, the text is
compared with the notation's reference spelling and fed to the model of `FromStr`, which must return the value. Models are the
effect trees read by rules/machine.py; std's string primitives are modelled, nothing of the library runs."""
from .machine import run_function, Stuck
from .teval import Unsupported, Panic

OPT_NONE = ("agg", "None", ())


def some(x):
    return ("agg", "Some", (x,))


def _discrs(facts, path):
    a = facts.adts.get(path)
    return {v["name"]: v["discr"] for v in a["variants"]} if a else {}


def sq_name(c):
    return "abcdefgh"[c & 7] + "87654321"[c >> 3]


def roundtrip(facts, ty, values, ref=None):
    """Returns (n checked, error text or None)."""
    disp = facts.fns.get("<%s as core::fmt::Display>::fmt" % ty)
    frm = facts.fns.get("<%s as core::str::traits::FromStr>::from_str" % ty)
    if disp is None or frm is None:
        return 0, "no Display/FromStr instance of %s among the analysed functions" % ty
    n = 0
    for v in values:
        try:
            out = run_function(facts, disp, {1: v}, deref_self=True)
            text = "".join(out[1])
            if ref is not None:
                want = ref(v)
                if want is not None and text != want:
                    return n, "%s is written %r; the notation is %r" % (show_value(v), text, want)
            res = run_function(facts, frm, {1: ("str", text)})[0]
        except (Stuck, Unsupported, Panic) as ex:
            return n, "model not evaluable on %s: %s" % (show_value(v), str(ex)[:140])
        if res != ("agg", "Ok", (v,)):
            return n, "%s is written %r, which is read back as %s" % (show_value(v), text, show_value(res))
        n += 1
    return n, None


def refused(facts, ty, texts):
    frm = facts.fns.get("<%s as core::str::traits::FromStr>::from_str" % ty)
    n = 0
    for t in texts:
        try:
            res = run_function(facts, frm, {1: ("str", t)})[0]
        except Panic as ex:
            return n, "reading %r panics (%s)" % (t, str(ex)[:60])
        except (Stuck, Unsupported) as ex:
            return n, "model not evaluable on %r: %s" % (t, str(ex)[:140])
        if not (isinstance(res, tuple) and res[0] == "agg" and res[1] == "Err"):
            return n, "%r is accepted as %s" % (t, show_value(res))
        n += 1
    return n, None


def show_value(v):
    if isinstance(v, tuple) and v and v[0] == "agg":
        inner = ", ".join(show_value(x) for x in v[2])
        return "%s(%s)" % (v[1], inner) if v[2] else str(v[1])
    return repr(v)


# ------------------------------------------------------------------ UCI

def uci_text_rule(ctx, facts, rid, thorough=False):
    r = ctx.rule(rid, "uci::Move text: every value is written in coordinate notation (`0000`, or source and destination squares and an "
                      "optional promotion letter n/b/r/q) and read back as itself; near-miss texts are refused")
    U = "owlchess::moves::uci::Move"
    pp = _discrs(facts, "owlchess::moves::base::PromotePiece")
    if sorted(pp) != ["Bishop", "Knight", "Queen", "Rook"]:
        r.anchor_missing("owlchess::moves::base::PromotePiece {Knight, Bishop, Rook, Queen}")
        return
    letter = {pp["Knight"]: "n", pp["Bishop"]: "b", pp["Rook"]: "r", pp["Queen"]: "q"}

    def ref(v):
        if v[1] == "Null":
            return "0000"
        s_, d_, p_ = v[2]
        return sq_name(s_) + sq_name(d_) + (letter[p_[2][0]] if p_[1] == "Some" else "")
    dsts = range(64) if thorough else (0, 7, 9, 27, 36, 54, 56, 63, 4, 60)
    vals = [("agg", "Null", (), U)]
    for s_ in range(64):
        for d_ in dsts:
            for p_ in [OPT_NONE] + [some(k) for k in sorted(letter)]:
                vals.append(("agg", "Move", (s_, d_, p_), U))
    n, err = roundtrip(facts, U, vals, ref)
    fn = facts.fns.get("<%s as core::fmt::Display>::fmt" % U)
    r.check(err is None, "roundtrip", err or "", site=ctx.site(fn) if fn else None, what="%d uci::Move values written in coordinate notation and read back" % n)
    if err is None:
        r.floor(n, 3000, "uci::Move values")
    bad = ["", "0", "000", "00000", "e2", "e2e", "e2e44", "e2e4qq", "e2e4k", "e2e4Q", "E2E4", "i2e4", "e9e4", "e2i4", "e2e0", "e2 e4", " e2e4", "e2e4 ",
           "e2-e4", "0000q", "e2e4=", "e2e4é", "ée2e4", "a1aé", "e2e4n ", "e2́e4"]
    n2, err2 = refused(facts, U, bad)
    r.check(err2 is None, "refused", err2 or "", what="%d near-miss texts refused without a panic" % n2)


# ------------------------------------------------------------------ SAN

def san_text_rule(ctx, facts, rid, thorough=False):
    r = ctx.rule(rid, "san::Move text: every value the formatter can be given (castling, pawn moves, full and abbreviated pawn captures with "
                      "promotions, piece moves with every combination of origin hints and the capture mark, coordinate-notation values, each "
                      "check mark) is written in standard algebraic notation and read back as itself")
    S = "owlchess::moves::san::"
    D = S + "Data"
    pc = _discrs(facts, "owlchess_base::types::Piece")
    pp = _discrs(facts, "owlchess::moves::base::PromotePiece")
    cs = _discrs(facts, "owlchess_base::types::CastlingSide")
    cm = _discrs(facts, S + "CheckMark")
    if not (pc and pp and cs and cm):
        r.anchor_missing("Piece / PromotePiece / CastlingSide / CheckMark")
        return
    pl = {pc[k]: k[0] if k != "Knight" else "N" for k in pc}
    prl = {pp[k]: k[0] if k != "Knight" else "N" for k in pp}
    marks = {None: ""}
    for k, sym in (("Single", "+"), ("Double", "++"), ("Checkmate", "#")):
        if k in cm:
            marks[cm[k]] = sym

    def ref(v):
        data, chk = v[2]
        kind = data[1]
        f_ = data[2]
        if kind == "Castling":
            t = "O-O" if f_[0] == cs.get("King") else "O-O-O"
        elif kind == "PawnMove":
            t = sq_name(f_[0]) + (("=" + prl[f_[1][2][0]]) if f_[1][1] == "Some" else "")
        elif kind == "PawnCapture":
            t = "abcdefgh"[f_[0]] + "x" + sq_name(f_[1]) + (("=" + prl[f_[2][2][0]]) if f_[2][1] == "Some" else "")
        elif kind == "PawnCaptureShort":
            t = "abcdefgh"[f_[0]] + "abcdefgh"[f_[1]] + (("=" + prl[f_[2][2][0]]) if f_[2][1] == "Some" else "")
        elif kind == "Uci":
            u = f_[0]
            t = "0000" if u[1] == "Null" else sq_name(u[2][0]) + sq_name(u[2][1]) + (prl[u[2][2][2][0]].lower() if u[2][2][1] == "Some" else "")
        elif kind == "Simple":
            t = pl[f_[0]] + ("abcdefgh"[f_[1][2][0]] if f_[1][1] == "Some" else "") + ("87654321"[f_[2][2][0]] if f_[2][1] == "Some" else "") \
                + ("x" if f_[3] else "") + sq_name(f_[4])
        else:
            return None
        m = None if chk[1] == "None" else chk[2][0]
        if m not in marks:
            return None
        return t + marks[m]

    def mv(data, chk=None):
        return ("agg", "Move", (data, some(chk) if chk is not None else OPT_NONE), S + "Move")
    vals = []
    for side in sorted(cs.values()):
        for chk in marks:
            vals.append(mv(("agg", "Castling", (side,), D), chk))
    proms = [OPT_NONE] + [some(k) for k in sorted(prl)]
    for d_ in range(64):
        last = (d_ >> 3) in (0, 7)
        for p_ in (proms[1:] if last else proms[:1]):
            vals.append(mv(("agg", "PawnMove", (d_, p_), D)))
            for sf in ((d_ & 7) - 1, (d_ & 7) + 1):
                if 0 <= sf <= 7:
                    vals.append(mv(("agg", "PawnCapture", (sf, d_, p_), D)))
    U = "owlchess::moves::uci::Move"
    for sf in range(8):
        for df in (sf - 1, sf + 1):
            if 0 <= df <= 7:
                for p_ in proms:
                    vals.append(mv(("agg", "PawnCaptureShort", (sf, df, p_), D)))
    vals.append(mv(("agg", "Uci", (("agg", "Null", (), U),), D)))
    for s_, d_ in ((52, 36), (8, 0), (12, 5), (62, 45), (0, 63)):
        for p_ in proms:
            vals.append(mv(("agg", "Uci", (("agg", "Move", (s_, d_, p_), U),), D)))
    for chk in marks:
        vals.append(mv(("agg", "PawnCaptureShort", (4, 3, OPT_NONE), D), chk))
        vals.append(mv(("agg", "Uci", (("agg", "Move", (52, 36, OPT_NONE), U),), D), chk))
    for chk in marks:
        vals.append(mv(("agg", "PawnMove", (36, OPT_NONE), D), chk))
        vals.append(mv(("agg", "PawnCapture", (3, 4, some(sorted(prl)[-1])), D), chk))
    dsts = range(64) if thorough else (0, 7, 28, 35, 63)
    hints_f = [OPT_NONE] + [some(i) for i in range(8)]
    hints_r = [OPT_NONE] + [some(i) for i in range(8)]
    for piece in sorted(pl):
        if piece == pc.get("Pawn"):
            continue
        for hf in hints_f:
            for hr in hints_r:
                for cap in (0, 1):
                    for d_ in dsts:
                        vals.append(mv(("agg", "Simple", (piece, hf, hr, cap, d_), D)))
        for chk in marks:
            vals.append(mv(("agg", "Simple", (piece, some(2), OPT_NONE, 1, 45), D), chk))
    n, err = roundtrip(facts, S + "Move", vals, ref)
    fn = facts.fns.get("<%sMove as core::fmt::Display>::fmt" % S)
    r.check(err is None, "roundtrip", err or "", site=ctx.site(fn) if fn else None, what="%d san::Move values written in algebraic notation and read back" % n)
    if err is None:
        r.floor(n, 4000, "san::Move values")


# ------------------------------------------------------------------ value types

def types_text_rule(ctx, facts, rid):
    r = ctx.rule(rid, "Display/FromStr of Coord (64), Cell (13), Color (2), CastlingRights (16): every value is written in its documented "
                      "spelling and read back as itself; near-miss texts are refused")
    T = "owlchess_base::types::"
    total = 0
    for ty, vals, ref, bad in (
        ("Coord", list(range(64)), sq_name, ["", "a", "a12", "i1", "a9", "a0", "A1", "1a", "é1", "aé", " a1"]),
        ("Cell", list(range(13)), lambda c: ".PKNBRQpknbrq"[c], ["", "PP", "x", "1", "♟", " "]),
        ("Color", [0, 1], lambda c: "wb"[c], ["", "W", "white", "ww", "-"]),
        ("CastlingRights", list(range(16)), None, ["", "KK", "KQkqK", "kx", "--", "K-", " "]),
    ):
        n, err = roundtrip(facts, T + ty, vals, ref)
        fn = facts.fns.get("<%s as core::fmt::Display>::fmt" % (T + ty))
        r.check(err is None, ty + "/roundtrip", err or "", site=ctx.site(fn) if fn else None, what="%d %s values written and read back" % (n, ty))
        n2, err2 = refused(facts, T + ty, bad)
        r.check(err2 is None, ty + "/refused", "%s: %s" % (ty, err2), what="%d near-miss %s texts refused without a panic" % (n2, ty))
        total += n
    # CastlingRights::from_str on every text of 1-4 characters over {K, Q, k, q, -, x}: accepted exactly when it is "-" or a set of
    # distinct right letters, and then denotes that set (CastlingRights::has gives the letters their meaning)
    import itertools
    has = facts.fns.get(T + "CastlingRights::has")
    frm = facts.fns.get("<%sCastlingRights as core::str::traits::FromStr>::from_str" % T)
    if has is None or frm is None:
        r.anchor_missing("CastlingRights::has / from_str")
        return
    bad = None
    n3 = 0
    try:
        meaning = {cr: frozenset(ch for (c, s_, ch) in ((0, 1, "K"), (0, 0, "Q"), (1, 1, "k"), (1, 0, "q"))
                                 if run_function(facts, has, {1: cr, 2: c, 3: s_}, deref_self=True)[0]) for cr in range(16)}
        for ln in (1, 2, 3, 4):
            for tup in itertools.product("KQkq-x", repeat=ln):
                t = "".join(tup)
                res = run_function(facts, frm, {1: ("str", t)})[0]
                ok = isinstance(res, tuple) and res[0] == "agg" and res[1] == "Ok"
                valid = t == "-" or (all(ch in "KQkq" for ch in t) and len(set(t)) == len(t))
                if ok != valid:
                    bad = "%r is %s" % (t, "accepted" if ok else "refused")
                    break
                if ok and meaning.get(res[2][0]) != (frozenset() if t == "-" else frozenset(t)):
                    bad = "%r is read as the rights %s" % (t, "".join(sorted(meaning.get(res[2][0], "?"))) or "-")
                    break
                n3 += 1
            if bad:
                break
    except (Stuck, Unsupported, Panic) as ex:
        bad = "model not evaluable: %s" % str(ex)[:120]
    r.check(bad is None, "CastlingRights/texts", "CastlingRights::from_str: %s" % bad, site=ctx.site(frm),
            what="%d texts over {K,Q,k,q,-,x}: accepted exactly when '-' or distinct right letters, denoting that set" % n3)
