"""C05 - incremental Zobrist hash and occupancy sets equal a from-scratch recomputation."""
from .common import sim_rules
from . import hashrules, castlingrules


def run(ctx):
    facts = ctx.facts("dev")
    ctx.decided += [
        "H2/H5 for both colours x 10 kinds x sub-cases: the multiset (mod 2) of keys XOR-ed into the hash by do_make_move equals "
        "zobrist(post) ^ zobrist(pre) for the squares, side, en-passant mark and castling rights the rules change (castling deltas "
        "checked numerically against the build's PIECES keys); no stale read-modify-write of the hash; every touched square ends in "
        "exactly the colour/piece sets of the cell it holds; `all` is recomputed last; unmake likewise",
        "H2u update_castling brackets the rights store with key(old)/key(new)",
        "H1 only board.rs and moves/base.rs write Board's hash/occupancy fields",
        "H3 key algebra on the build's tables: PIECES[EMPTY][*]=0, CASTLING xor-linear with CASTLING[0]=0",
        "H4 single-feature differences hash differently: per square the 12 piece keys are distinct and non-zero, MOVE_SIDE != 0, the 15 "
        "non-empty castling keys are non-zero and pairwise distinct, the 16 possible en-passant keys are distinct and non-zero; "
        "neither hash function reads the counters",
        "H6 from-scratch hash and validation read the normalised raw board; RawBoard::zobrist_hash uses the same four key families",
    ]
    ctx.not_decided += ["equality of values along whole histories as such: it follows by induction over make/unmake from H2/H5/H7 per "
                        "step; hash collisions between different positions are inherent and out of scope"]
    sim_rules(ctx, facts, {
        "H2": ("hash delta of every make arm = zobrist(post)^zobrist(pre)", ("hash",), "make/"),
        "H5": ("occupancy sets follow the squares in make and unmake", ("occupancy", "unmodelled"), ""),
    })
    castlingrules.update_castling_rule(ctx, facts, "H2u")
    hashrules.writers_rule(ctx, facts, "H1")
    hashrules.key_algebra_rule(ctx, facts, "H3")
    hashrules.key_distinct_rule(ctx, facts, "H4")
    hashrules.from_scratch_rule(ctx, facts, "H6")
    from .shared import undo_component
    undo_component(ctx, facts, "H7", "after an undo the stored hash and the sets are again those of the restored squares: the hash comes back "
                   "from the undo record, so the record must hold the value read before the move touched it")
