"""E3/E4 witness crates: compile-time assertions and compile-fail doctests, run against the repo under analysis."""
import hashlib
import os
import re
import shutil
import subprocess
import time

from . import facts as factsmod

VERIF = factsmod.VERIF
CACHE = factsmod.CACHE


def _prepare(name, repo):
    src = os.path.join(VERIF, name)
    work = os.path.join(CACHE, "%s-%s" % (name, hashlib.sha1(repo.encode()).hexdigest()[:8]))
    os.makedirs(work, exist_ok=True)
    with open(os.path.join(src, "Cargo.toml.in")) as f:
        toml = f.read().replace("@SRC@", os.path.join(src, "src")).replace("@REPO@", repo)
    with open(os.path.join(work, "Cargo.toml"), "w") as f:
        f.write(toml)
    lock = os.path.join(repo, "Cargo.lock")
    if os.path.exists(lock):
        shutil.copy(lock, os.path.join(work, "Cargo.lock"))
    return work


def run_ctfe(repo):
    """cargo check of the const-assert crate. Returns (ok, failures[list of assertion texts], n_assertions, seconds, raw)."""
    work = _prepare("witness_ctfe", repo)
    env = dict(os.environ, CARGO_NET_OFFLINE="true", CARGO_TARGET_DIR=os.path.join(work, "target"))
    env.pop("RUSTC_WRAPPER", None)
    t0 = time.time()
    r = subprocess.run(["cargo", "check", "--offline", "--message-format", "short"], cwd=work, env=env,
                       stdout=subprocess.PIPE, stderr=subprocess.STDOUT, text=True)
    dt = time.time() - t0
    with open(os.path.join(VERIF, "witness_ctfe", "src", "lib.rs")) as f:
        n = len(re.findall(r"\bassert!\(", f.read()))
    fails = []
    if r.returncode != 0:
        for m in re.finditer(r"evaluation panicked: ([^\n]+)", r.stdout):
            fails.append(m.group(1).strip())
        if not fails:
            fails.append("BUILD-ERROR: " + r.stdout[-1500:])
    return r.returncode == 0, fails, n, dt, r.stdout
