"""E3/E4 witness crates: compile-time assertions and compile-fail doctests, run against the repo under analysis."""
import hashlib
import os
import re
import shutil
import subprocess
import time

from . import facts as factsmod

VERIF = factsmod.VERIF
CACHE = factsmod.CACHE


def _prepare(name, repo):
    src = os.path.join(VERIF, name)
    work = os.path.join(CACHE, "%s-%s" % (name, hashlib.sha1(repo.encode()).hexdigest()[:8]))
    os.makedirs(work, exist_ok=True)
    with open(os.path.join(src, "Cargo.toml.in")) as f:
        toml = f.read().replace("@SRC@", os.path.join(src, "src")).replace("@REPO@", repo)
    with open(os.path.join(work, "Cargo.toml"), "w") as f:
        f.write(toml)
    lock = os.path.join(repo, "Cargo.lock")
    if os.path.exists(lock):
        shutil.copy(lock, os.path.join(work, "Cargo.lock"))
    return work


def run_ctfe(repo):
    """cargo check of the const-assert crate. Returns (ok, failures[list of assertion texts], n_assertions, seconds, raw)."""
    work = _prepare("witness_ctfe", repo)
    env = dict(os.environ, CARGO_NET_OFFLINE="true", CARGO_TARGET_DIR=os.path.join(work, "target"))
    env.pop("RUSTC_WRAPPER", None)
    t0 = time.time()
    r = subprocess.run(["cargo", "check", "--offline", "--message-format", "short"], cwd=work, env=env,
                       stdout=subprocess.PIPE, stderr=subprocess.STDOUT, text=True)
    dt = time.time() - t0
    with open(os.path.join(VERIF, "witness_ctfe", "src", "lib.rs")) as f:
        n = len(re.findall(r"\bassert!\(", f.read()))
    fails = []
    if r.returncode != 0:
        for m in re.finditer(r"evaluation panicked: ([^\n]+)", r.stdout):
            fails.append(m.group(1).strip())
        if not fails:
            fails.append("BUILD-ERROR: " + r.stdout[-1500:])
    return r.returncode == 0, fails, n, dt, r.stdout


def cf_labels():
    """{struct name: label} of the compile-fail witnesses, from the crate's doc headings."""
    out = {}
    label = None
    with open(os.path.join(VERIF, "witness_cf", "src", "lib.rs")) as f:
        for line in f:
            m = re.match(r"/// (cf/C\d\d/[\w-]+)", line)
            if m:
                label = m.group(1)
            m = re.match(r"pub struct (\w+);", line)
            if m and label:
                out[m.group(1)] = label
                label = None
    return out


_CF_CACHE = {}


def run_cf(repo):
    """cargo +nightly test --doc of the compile-fail crate against `repo`.
    Returns ({label: (witness_ok, twin_ok)}, seconds, raw output, build_error or None)."""
    if repo in _CF_CACHE:
        return _CF_CACHE[repo]
    work = _prepare("witness_cf", repo)
    env = dict(os.environ, CARGO_NET_OFFLINE="true", CARGO_TARGET_DIR=os.path.join(work, "target"))
    env.pop("RUSTC_WRAPPER", None)
    t0 = time.time()
    r = subprocess.run(["cargo", "+nightly", "test", "--doc", "--offline"], cwd=work, env=env,
                       stdout=subprocess.PIPE, stderr=subprocess.STDOUT, text=True)
    dt = time.time() - t0
    labels = cf_labels()
    res = {}
    for m in re.finditer(r"^test \S+ - (\w+) \(line \d+\) - compile( fail)? \.\.\. (\w+)", r.stdout, re.M):
        name, fail, status = m.group(1), bool(m.group(2)), m.group(3)
        lab = labels.get(name)
        if lab is None:
            continue
        w, t = res.get(lab, (None, None))
        if fail:
            w = status == "ok"
        else:
            t = status == "ok"
        res[lab] = (w, t)
    err = None
    if not res:
        err = r.stdout[-1500:]
    out = (res, dt, r.stdout, err)
    _CF_CACHE[repo] = out
    return out


def cf_rule(ctx, rid, prefixes, desc=None):
    """Rule: the compile-fail witnesses with the given label prefixes are rejected by the compiler with the
    expected error code, and their twins compile."""
    r = ctx.rule(rid, desc or "compile-fail witnesses: programs an external user must not be able to write are rejected (rustc, with error code), their twins compile")
    res, dt, raw, err = run_cf(ctx.repo)
    if err is not None:
        r.fail("cf/BUILD", "the compile-fail witness crate could not be run: %s" % err[-600:])
        return r
    labels = cf_labels()
    want = sorted(l for l in labels.values() if any(l.startswith(p) for p in prefixes))
    for lab in want:
        w, t = res.get(lab, (None, None))
        if t is not True:
            r.fail(lab + "/twin", "the compiling twin of witness %s does not compile any more: the witness proves nothing (API renamed?)" % lab)
        elif w is not True:
            r.fail(lab, "program %s is accepted by the compiler (or fails with a different error): the encapsulation it witnesses is gone" % lab)
        else:
            r.ok(lab)
    r.floor(len(want), 1, "compile-fail witnesses with prefix %s" % "/".join(prefixes))
    r.note("cargo +nightly test --doc of witness_cf: %.1fs" % dt)
    return r
