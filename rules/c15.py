"""C15 - attack and between tables are exact for every square and every occupancy.

Data (T1, T2, T4): the tables of the build under test are read out of the compiler's constant
evaluator (owlscan) and compared entry by entry with the independent reference geometry in geom.py.
Code (T3, T4r): the readers are matched structurally against the formula the data is checked with.
Call sites (B): `*_strict` is only specified on aligned pairs; every call site must guarantee alignment.
"""
from . import geom
from .expr import Builder, PathEval, N, show, match, walk

KINDS = {
    "ROOK": ("owlchess::attack::rook", geom.ROOK_DIRS),
    "BISHOP": ("owlchess::attack::bishop", geom.BISHOP_DIRS),
}


def decode_magic(facts, kind):
    """Decode MAGIC_<kind>: per square (mask, post_mask, lookup offset in elements)."""
    name = "owlchess::attack::MAGIC_" + kind
    raw, relocs = facts.table_bytes(name)
    adt = facts.adts["owlchess::attack::MagicEntry"]
    size = adt["size"]
    offs = adt["offsets"]
    fields = [f["name"] for f in adt["variants"][0]["fields"]]
    fo = dict(zip(fields, offs))
    if len(raw) != 64 * size:
        raise ValueError("unexpected size of %s: %d" % (name, len(raw)))
    rel = {}
    for off, tgt in relocs:
        rel[off] = tgt
    out = []
    for sq in range(64):
        base = sq * size
        mask = int.from_bytes(raw[base + fo["mask"]: base + fo["mask"] + 8], "little")
        post = int.from_bytes(raw[base + fo["post_mask"]: base + fo["post_mask"] + 8], "little")
        r = rel.get(base + fo["lookup"])
        out.append((mask, post, r))
    return out


def run(ctx):
    facts = ctx.facts("dev")
    ctx.decided += [
        "T1 king/knight/pawn attack tables of this build equal the geometric definition (4x64 entries, exhaustive)",
        "T2 magic tables: mask lemma (inner rays <= mask <= rays) + every subset of every mask indexes the "
        "exact sliding attack after post-masking + pointer offset bound; this covers all 2^64 occupancies because "
        "squares outside the inner rays never change a sliding attack (lemma re-checked exhaustively on ray "
        "subsets in the thorough tier)",
        "T3 attack::rook/bishop compute exactly *(E.lookup + (((occ & E.mask) *w MAGIC[i]) >> SHIFT[i])) & E.post_mask "
        "with all three tables of their own kind and i the square argument",
        "T4 between tables: GT[min] & LT[max] is the strictly-between set and NE[a].has(b) the alignment predicate "
        "for all 64x64 pairs; readers matched structurally; every *_strict call site is on an aligned pair (rule B)",
    ]
    ctx.not_decided += ["nothing of the statement is left undecided; `*_strict` on unaligned pairs is unspecified and "
                        "shown never to be consulted"]
    ctx.extra["exhaustive"] = True

    t1(ctx, facts)
    t2(ctx, facts)
    t3(ctx, facts)
    t4(ctx, facts)
    rule_b(ctx, facts)


# ------------------------------------------------------------------------------------------ T1

def t1(ctx, facts, rid="T1"):
    """attack::king / knight / pawn, evaluated for every argument, are the geometric attack sets; where the build's near-attack tables
    exist under their usual names they are compared entry by entry as well (a renamed or merged table is not an alarm: the functions
    the queries call are what is decided)."""
    from .machine import run_function, Stuck
    from .teval import Unsupported, Panic
    r = ctx.rule(rid, "near attacks equal the geometric definition: attack::king/knight/pawn on every argument, and the build's tables entry by entry")
    fspecs = [
        ("owlchess::attack::king", [(None, lambda s: geom.leaper(s, geom.KING_DELTAS))]),
        ("owlchess::attack::knight", [(None, lambda s: geom.leaper(s, geom.KNIGHT_DELTAS))]),
        ("owlchess::attack::pawn", [(0, geom.white_pawn_attacks), (1, geom.black_pawn_attacks)]),
    ]
    for fname, variants in fspecs:
        fn = facts.fns.get(fname)
        if fn is None:
            r.anchor_missing(fname)
            continue
        for colour, ref in variants:
            bad = None
            n = 0
            for sq in range(64):
                try:
                    got = run_function(facts, fn, {1: sq} if colour is None else {1: colour, 2: sq})[0]
                except (Stuck, Unsupported, Panic) as ex:
                    bad = (sq, "not evaluable: %s" % str(ex)[:80])
                    break
                if got != ref(sq):
                    bad = (sq, "%#018x" % got if isinstance(got, int) else repr(got)[:40])
                    break
                n += 1
            label = fname.split("::")[-1] + ("" if colour is None else "(%s)" % ("White", "Black")[colour])
            r.check(bad is None, "attack::" + label,
                    "attack::%s at %s is %s but the geometric definition gives %#018x" % (
                        label, geom.name(bad[0]) if bad else "", bad[1] if bad else "", ref(bad[0]) if bad else 0),
                    site=ctx.site(fn), what="attack::%s on all %d squares" % (label, n))
    specs = [
        ("owlchess::attack::KING_ATTACKS", lambda s: geom.leaper(s, geom.KING_DELTAS)),
        ("owlchess::attack::KNIGHT_ATTACKS", lambda s: geom.leaper(s, geom.KNIGHT_DELTAS)),
        ("owlchess::attack::WHITE_PAWN_ATTACKS", geom.white_pawn_attacks),
        ("owlchess::attack::BLACK_PAWN_ATTACKS", geom.black_pawn_attacks),
    ]
    for name, ref in specs:
        if name not in facts.consts:
            r.note("table %s not present under this name (the functions above are what the queries read)" % name.split("::")[-1])
            continue
        tbl = facts.table_u64(name)
        if len(tbl) != 64:
            r.fail("%s/len" % name, "%s has %d entries, expected 64" % (name, len(tbl)))
            continue
        for sq in range(64):
            want = ref(sq)
            r.check(tbl[sq] == want, "%s[%s]" % (name.split("::")[-1], geom.name(sq)),
                    "%s[%s] = %#018x but the geometric definition gives %#018x" % (name, geom.name(sq), tbl[sq], want),
                    what="%s[%s]" % (name.split("::")[-1], geom.name(sq)))


def t2(ctx, facts):
    r = ctx.rule("T2", "magic tables: mask lemma, every mask subset -> exact sliding attack, pointer bound")
    total_subsets = 0
    for kind, (_fn, dirs) in KINDS.items():
        names = ["owlchess::attack::MAGIC_" + kind, "owlchess::attack::MAGIC_LOOKUP_" + kind]
        cnames = ["owlchess::attack::MAGIC_CONSTS_" + kind, "owlchess::attack::MAGIC_SHIFTS_" + kind]
        missing = [n for n in names if n not in facts.statics] + [n for n in cnames if n not in facts.consts]
        if missing:
            for m in missing:
                r.anchor_missing(m)
            continue
        entries = decode_magic(facts, kind)
        lookup = facts.table_u64(names[1])
        magics = facts.table_u64(cnames[0])
        shifts = facts.table_u64(cnames[1])
        if not (len(magics) == len(shifts) == 64):
            r.fail(kind + "/len", "MAGIC_CONSTS/SHIFTS_%s do not have 64 entries" % kind)
            continue
        for sq in range(64):
            mask, post, rel = entries[sq]
            sqn = geom.name(sq)
            key = "%s[%s]" % (kind, sqn)
            rays = geom.rays_mask(sq, dirs)
            inner = geom.rays_mask_inner(sq, dirs)
            # (a) mask lemma
            r.check((inner & ~mask) == 0 and (mask & ~rays) == 0, key + "/mask",
                    "MAGIC_%s[%s].mask = %#x violates inner-rays <= mask <= rays (inner %#x, rays %#x): occupancy "
                    "bits that matter would be dropped, or irrelevant bits hashed" % (kind, sqn, mask, inner, rays),
                    what=key + " mask lemma")
            # (c) pointer bound
            sh = shifts[sq]
            ok_ptr = (rel is not None and rel.get("static") == names[1] and rel["off"] % 8 == 0 and sh < 64
                      and sh >= 1 and rel["off"] // 8 + (1 << (64 - sh)) <= len(lookup))
            r.check(ok_ptr, key + "/ptr",
                    "MAGIC_%s[%s]: lookup pointer %s with shift %d can index outside MAGIC_LOOKUP_%s (%d entries)"
                    % (kind, sqn, rel, sh, kind, len(lookup)), what=key + " pointer bound")
            if not ok_ptr:
                continue
            base = rel["off"] // 8
            # (b) every subset of the mask
            magic = magics[sq]
            bad = None
            n = 0
            for s in geom.subsets(mask):
                idx = ((s * magic) & geom.FULL) >> sh
                got = lookup[base + idx] & post
                n += 1
                if got != geom.slide(sq, s, dirs):
                    bad = (s, got, geom.slide(sq, s, dirs))
                    break
            total_subsets += n
            r.check(bad is None, key + "/lookup",
                    "MAGIC_%s[%s]: occupancy %#x gives %#x, sliding attack is %#x"
                    % ((kind, sqn) + (bad if bad else (0, 0, 0))), what=key + " all %d mask subsets" % n,
                    detail={"subsets": n})
            if ctx.tier == "thorough":
                # redundant confirmation of the lemma: for every subset of the full rays the attack depends
                # only on the masked occupancy
                bad2 = None
                m = 0
                for s in geom.subsets(rays):
                    m += 1
                    if geom.slide(sq, s, dirs) != geom.slide(sq, s & mask, dirs):
                        bad2 = s
                        break
                total_subsets += m
                r.check(bad2 is None, key + "/lemma", "slide(%s, occ) != slide(%s, occ & mask) for occ=%#x"
                        % (sqn, sqn, bad2 or 0), what=key + " lemma on all %d ray subsets" % m)
    ctx.extra["mask_subsets_checked"] = total_subsets


# ------------------------------------------------------------------------------------------ T3

def t3(ctx, facts):
    r = ctx.rule("T3", "attack::rook/bishop are the magic lookup formula over their own tables")
    b = Builder(facts)
    for kind, (fn_name, _dirs) in KINDS.items():
        fn = facts.fns.get(fn_name)
        if fn is None:
            r.anchor_missing(fn_name)
            continue
        e = N(b.place(fn.body, {"l": 0, "p": []}))
        i = ("param", 1, fn.body.names.get(1, "_1"))
        occ = ("param", 2, fn.body.names.get(2, "_2"))
        E = ("tbl", ("static", "owlchess::attack::MAGIC_" + kind, 0), i)
        M = ("tbl", ("named", "owlchess::attack::MAGIC_CONSTS_" + kind), i)
        S = ("tbl", ("named", "owlchess::attack::MAGIC_SHIFTS_" + kind), i)
        from .expr import norm_bin
        idx = ("bin", "Shr", norm_bin("WrappingMul", norm_bin("BitAnd", occ, ("field", E, "mask")), M), S)
        want = norm_bin("BitAnd",
                        ("deref", ("call", "core::ptr::const_ptr::<impl *const owlchess_base::bitboard::Bitboard>::add",
                                   (("field", E, "lookup"), idx))),
                        ("field", E, "post_mask"))
        r.check(e == want, fn_name + "/shape",
                "%s is not recognisably `*(E.lookup + (((occ & E.mask) *w M[i]) >> S[i])) & E.post_mask` over the %s "
                "tables (fail closed): %s" % (fn_name, kind, show(e)), site=ctx.site(fn),
                what=fn_name + " = magic formula over MAGIC_%s/CONSTS/SHIFTS" % kind, detail={"expr": show(e)})


# ------------------------------------------------------------------------------------------ T4

def t4(ctx, facts):
    r = ctx.rule("T4", "between tables and readers exact for all 64x64 pairs")
    for kind, dirs in (("BISHOP", geom.BISHOP_DIRS), ("ROOK", geom.ROOK_DIRS)):
        names = ["owlchess::between::%s_%s" % (kind, s) for s in ("LT", "GT", "NE")]
        if any(n not in facts.consts for n in names):
            for n in names:
                if n not in facts.consts:
                    r.anchor_missing(n)
            continue
        lt, gt, ne = (facts.table_u64(n) for n in names)
        for a in range(64):
            bad = None
            for b_ in range(64):
                al = geom.aligned(a, b_, dirs)
                if bool((ne[a] >> b_) & 1) != al:
                    bad = ("NE", b_, None, None)
                    break
                if al:
                    lo, hi = min(a, b_), max(a, b_)
                    got = gt[lo] & lt[hi]
                    want = geom.between(a, b_, dirs)
                    if got != want:
                        bad = ("between", b_, got, want)
                        break
            r.check(bad is None, "%s[%s]" % (kind, geom.name(a)),
                    "%s between tables wrong for pair (%s,%s): %s" % (kind, geom.name(a), geom.name(bad[1]) if bad else "", bad),
                    what="%s tables for all 64 partners of %s" % (kind, geom.name(a)))
    # readers: evaluated on all 64x64 pairs (exhaustive constant propagation over their effect trees; shape-independent)
    from .fx import FxBuilder
    from .teval import TreeEval, Unsupported, Panic
    for kind, dirs in (("bishop", geom.BISHOP_DIRS), ("rook", geom.ROOK_DIRS)):
        fn = facts.fns.get("owlchess::between::%s_strict" % kind)
        if fn is None:
            r.anchor_missing("owlchess::between::%s_strict" % kind)
        else:
            tree = FxBuilder(facts).tree(fn, env=[("sym", "S"), ("sym", "D")])
            te = TreeEval(facts)
            bad = None
            n = 0
            try:
                for a in range(64):
                    for b_ in range(64):
                        if not geom.aligned(a, b_, dirs):
                            continue          # unspecified on unaligned pairs (rule B shows they are never asked)
                        res = te.run(tree, {"S": a, "D": b_})
                        n += 1
                        if res is None or res[1] != geom.between(a, b_, dirs):
                            bad = (a, b_, res[1] if res else None)
                            break
                    if bad:
                        break
            except (Unsupported, Panic) as e:
                bad = (-1, -1, "not evaluable: %r" % (e,))
            r.check(bad is None, "between::%s_strict" % kind, "%s_strict(%s, %s) = %s, expected the squares strictly between" % (
                (kind, geom.name(bad[0]) if bad and bad[0] >= 0 else "?", geom.name(bad[1]) if bad and bad[1] >= 0 else "?", bad[2]) if bad else (kind, "", "", "")),
                site=ctx.site(fn), what="%s_strict on all %d aligned pairs" % (kind, n))
        fn = facts.fns.get("owlchess::between::is_%s_valid" % kind)
        if fn is None:
            r.anchor_missing("owlchess::between::is_%s_valid" % kind)
        else:
            tree = FxBuilder(facts).tree(fn, env=[("sym", "S"), ("sym", "D")])
            te = TreeEval(facts)
            bad = None
            try:
                for a in range(64):
                    for b_ in range(64):
                        res = te.run(tree, {"S": a, "D": b_})
                        if res is None or bool(res[1]) != geom.aligned(a, b_, dirs):
                            bad = (a, b_, res[1] if res else None)
                            break
                    if bad:
                        break
            except (Unsupported, Panic) as e:
                bad = (-1, -1, "not evaluable: %r" % (e,))
            r.check(bad is None, "between::is_%s_valid" % kind, "is_%s_valid(%s, %s) = %s, expected the alignment predicate" % (
                (kind, geom.name(bad[0]) if bad and bad[0] >= 0 else "?", geom.name(bad[1]) if bad and bad[1] >= 0 else "?", bad[2]) if bad else (kind, "", "", "")),
                site=ctx.site(fn), what="is_%s_valid on all 4096 pairs" % kind)


# ------------------------------------------------------------------------------------------ B

# Reviewed call-site patterns for `*_strict(a, b)`; `*_strict` is only specified on aligned pairs.
#   pinned:   (p, king) with p iterated from `<kind>_xray(b, ours, king) & ...` - the x-ray set of `king`
#             along the same geometry, so p is aligned with king.
#   guarded:  the call is control-dependent on is_<kind>_valid(a, b) == true on the same operands, or on
#             is_bishop_valid(a, b) == false inside is_queen_semilegal (a queen move that is not diagonal is a
#             line move by well-formedness).
#   wellformed: operands are (mv.src, mv.dst) of a Move whose piece was matched as Bishop/Rook - the reviewed
#             well-formedness invariant of Move (C06/G5) makes the pair aligned.
ALLOWED_CALLERS = {
    "owlchess::legal::DefaultPrechecker::pinned": "pinned",
    "owlchess::moves::base::is_queen_semilegal": "guarded",
    "owlchess::moves::base::do_is_move_semilegal": "wellformed",
}


def rule_b(ctx, facts):
    r = ctx.rule("B", "every call site of between::*_strict is on an aligned pair")
    n = 0
    for fn in facts.fns.values():
        if fn.krate not in ("owlchess", "owlchess_base"):
            continue
        for bi, t in fn.body.calls():
            f = t["f"]
            if "inst" not in f:
                continue
            callee = facts.fns[f["inst"]].def_path
            if callee not in ("owlchess::between::bishop_strict", "owlchess::between::rook_strict"):
                continue
            n += 1
            kind = "bishop" if "bishop" in callee else "rook"
            pat = ALLOWED_CALLERS.get(fn.def_path)
            key = "%s->%s" % (fn.def_path, kind + "_strict")
            if pat is None and fn.kind == "Closure" and ALLOWED_CALLERS.get(fn.def_path.split("::{closure")[0]) == "pinned":
                ok, why = check_mapped_closure(ctx, facts, fn, kind)
                r.check(ok, key, "%s: %s" % (fn.id, why), site=ctx.site(fn, bi), what="%s (closure mapped over the pinners)" % key, detail=why)
                continue
            if pat is None:
                r.fail(key, "%s calls %s_strict from a site that is not in the reviewed list of aligned-pair call sites"
                       % (fn.id, kind), site=ctx.site(fn, bi))
                continue
            ok, why = check_site(ctx, facts, fn, bi, t, kind, pat)
            r.check(ok, key, "%s: %s" % (fn.id, why), site=ctx.site(fn, bi), what="%s (%s)" % (key, pat), detail=why)
    r.floor(n, 6, "between::*_strict call sites")


def check_mapped_closure(ctx, facts, clo, kind):
    """`pinners.into_iter().map(|p| between::X_strict(p, king))` inside pinned(): the closure's item is a pinner of the same
    geometry (the iterator it is mapped over is X_xray(.., king) & sliders) and its second operand the captured king."""
    from .fx import FxBuilder, walk_tree, unstamp
    from .expr import show
    parent = facts.fns.get(clo.def_path.split("::{closure")[0])
    if parent is None:
        return False, "parent function of the closure not found"
    stop = ("owlchess::between::bishop_strict", "owlchess::between::rook_strict", "owlchess::legal::DefaultPrechecker::bishop_xray",
            "owlchess::legal::DefaultPrechecker::rook_xray", "owlchess::board::Board::piece_diag", "owlchess::board::Board::piece_line",
            "owlchess::board::Board::color")
    tree = FxBuilder(facts, stop=stop).tree(parent)
    for n_, _c, _i in walk_tree(tree):
        is_map = n_[0] == "call" and (n_[2] or "").endswith("iterator::Iterator::map") and len(n_[3]) == 2
        is_fold = n_[0] == "call" and (n_[2] or "").endswith("iterator::Iterator::fold") and len(n_[3]) == 3
        if is_map or is_fold:
            # `set.into_iter().map(|p| ..)` or `.fold(init, |acc, p| ..)`: the item is an element of `set`
            src_set, cl = show(unstamp(n_[3][0])), unstamp(n_[3][-1])
            if cl[0] == "agg" and cl[1] == "closure" and cl[2] == clo.def_path:
                king_ok = any(show(unstamp(x)) in ("king", "&king") for x in cl[3])
                if not king_ok:
                    return False, "the closure does not capture the king square"
                if ("%s_xray(" % kind) in src_set and "king)" in src_set:
                    return True, "closure mapped over %s_xray(.., king) & sliders: (p, king) aligned along %s lines" % (kind, kind)
                return False, "the closure calling %s_strict is mapped over %s" % (kind, src_set[:120])
    return False, "the closure is not mapped or folded over an iterator in its parent"


NO_INLINE = ("owlchess::between::is_bishop_valid", "owlchess::between::is_rook_valid")


def check_site(ctx, facts, fn, bi, t, kind, pat):
    b = Builder(facts, no_inline=NO_INLINE)
    args = [N(b.operand(fn.body, a)) for a in t["args"]]
    if pat == "pinned":
        # second operand is the `king` parameter, first operand is a loop variable fed by an iterator over
        # `<kind>_xray(b, ours, king) & piece_<geom>(..)`
        king = ("param", 3, fn.body.names.get(3))
        if args[1] != king:
            return False, "second operand of %s_strict is not the king square parameter" % kind
        # find the x-ray call of the same kind with the same king operand in this function
        want = "owlchess::legal::DefaultPrechecker::%s_xray" % kind
        found = False
        for _bi, ct in fn.body.calls():
            cf = ct["f"]
            if "inst" in cf and facts.fns[cf["inst"]].def_path == want:
                cargs = [N(b.operand(fn.body, a)) for a in ct["args"]]
                if cargs[-1] == king:
                    found = True
        if not found:
            return False, "no %s_xray(.., king) feeding the pinner loop" % kind
        # the loop variable must come from Iterator::next over a set that is derived from that x-ray
        src = args[0]
        if not any(x[0] == "var" for x in walk(src)):
            return False, "first operand is not a loop variable"
        return True, "pair (p, king), p iterates %s_xray(king) & sliders: aligned with king along %s lines" % (kind, kind)
    if pat == "guarded":
        # is_queen_semilegal: bishop_strict under is_bishop_valid(src,dst) true, rook_strict under false
        conds = dominating_conds(facts, fn, bi)
        want = ("call", "owlchess::between::is_bishop_valid", tuple(args))
        for c, val in conds:
            if N(c) == want:
                if kind == "bishop" and val is True:
                    return True, "guarded by is_bishop_valid(src,dst) == true"
                if kind == "rook" and val is False:
                    return True, "is_bishop_valid(src,dst) == false; reviewed: a well-formed queen move is then a line move"
        return False, "no dominating is_bishop_valid test on the same operands"
    if pat == "wellformed":
        mv = ("param", 2, fn.body.names.get(2))
        if args != [("field", mv, "src"), ("field", mv, "dst")]:
            return False, "operands are not (mv.src, mv.dst)"
        # the call must be in the arm of the piece match for the same geometry
        conds = dominating_conds(facts, fn, bi)
        piece_val = {"bishop": 3, "rook": 4}[kind]
        for c, val in conds:
            if isinstance(val, int) and not isinstance(val, bool) and val == piece_val and "discr" in repr(N(c)):
                return True, "arm Piece::%s of the piece match; Move well-formedness (reviewed invariant, C06/G5) " \
                             "gives alignment" % kind.capitalize()
        return False, "not inside the Piece::%s arm" % kind.capitalize()
    return False, "unknown pattern"


def dominating_conds(facts, fn, bi):
    """Branch conditions that hold on every path to block bi: for each dominating switch block whose
    taken edge is forced. Returns [(expr, value)] with value True/False for boolean tests, int for
    discriminant values."""
    body = fn.body
    b = Builder(facts, no_inline=NO_INLINE)
    out = []
    for sb, t in body.iter_terms():
        if t["k"] != "switch" or sb == bi or not body.dominates(sb, bi):
            continue
        # which successors of sb can reach bi?
        succs = {}
        for v, tb in t["cases"]:
            succs.setdefault(tb, []).append(int(v))
        succs.setdefault(t["else"], []).append(None)
        reach = [tb for tb in succs if body.reaches(tb, bi, avoid=(sb,))]
        if len(reach) != 1:
            continue
        vals = succs[reach[0]]
        d = b.operand(body, t["d"])
        ty = facts.types[t["dty"]]["k"]
        if ty == "bool":
            if vals == [0]:
                out.append((d, False))
            elif vals == [None]:
                out.append((d, True))
        else:
            if len(vals) == 1 and vals[0] is not None:
                out.append((d, vals[0]))
            else:
                out.append((d, tuple(vals)))
    return out
