"""C19 - unchecked internals never go out of bounds on any valid position.

Every unsafe operation of the library (get_unchecked on tables and boards, unchecked constructors of the
range-limited newtypes, unreachable_unchecked, magic-table pointer arithmetic, push_unchecked into the
move list) is an obligation of the abstract interpreter (rules/absint.py). Type invariants (Coord < 64,
Cell < 13, CastlingRights < 16, well-formed Move per kind, en-passant source rank of a Board) are assumed
where such a value is read and proved where it is constructed or stored."""
import re
from .absint import last_seg
from .aisetup import RepoAnalyzer, ASSUMED, MAGIC_FNS
from . import c15, witness, validaterules

CAPACITY_BOUND = 256          # the property's statement: the move list holds 256 moves
UNSAFE_EXT_MODELLED = {"get_unchecked", "get_unchecked_mut", "add", "unreachable_unchecked", "push_unchecked"}
# floors: (site, calling context) pairs discharged on the pinned tree, by kind - well below what was counted (514/479/545/19/179/...): refactorings move call sites around (fail closed below)
FLOORS = {"get_unchecked": 200, "construct Coord": 150, "construct Cell": 150, "construct CastlingRights": 6,
          "construct Move": 50, "construct Board": 2, "construct RawUndo": 2, "store ep_source": 4, "ptr::add": 2, "push_unchecked": 1}
# the only creators of an UnsafeMoveList (each fills it with exactly one generation run of one position)
LIST_CREATORS = {"owlchess::movegen::semilegal::gen_all", "owlchess::movegen::semilegal::gen_capture",
                 "owlchess::movegen::semilegal::gen_simple", "owlchess::movegen::semilegal::gen_simple_no_promote",
                 "owlchess::movegen::semilegal::gen_simple_promote"}
PRIVATE_FIELDS = [
    ("owlchess_base::types::Coord", "0"), ("owlchess_base::types::Cell", "0"), ("owlchess_base::types::CastlingRights", "0"),
    ("owlchess::moves::base::Move", "kind"), ("owlchess::moves::base::Move", "src"), ("owlchess::moves::base::Move", "dst"),
    ("owlchess::moves::base::Move", "src_cell"), ("owlchess::board::Board", "r"), ("owlchess::board::Board", "pieces"),
    ("owlchess::moves::base::RawUndo", "ep_source"),
]


def is_entry(fn):
    if fn.safety != "Safe":
        return False
    if fn.krate == "verif_roots" or fn.kind == "Closure":
        return True
    return not (fn.vis.startswith("in:") or fn.vis == "crate")


def okey(o):
    return "%s in %s" % (o.what, o.site.fn.def_path)


def analyse_all(ctx, facts, cfg):
    an = RepoAnalyzer(facts, kinds=("unsafe", "model"), capacity_ok=True)
    local = [fid for fid, fn in facts.fns.items() if fn.krate in ("owlchess", "owlchess_base", "verif_roots")]
    errors = []
    for phase in (0, 1):
        for fid in local:
            if (facts.fns[fid].kind == "Closure") != (phase == 1):
                continue
            try:
                an.analyse(fid)
            except RuntimeError as ex:
                errors.append((fid, str(ex)))
    return an, local, errors


def run(ctx):
    cfgs = ["dev", "release"] if ctx.tier == "thorough" else ["dev"]
    ctx.decided += [
        "U2 every unsafe operation reachable in the library is discharged: get_unchecked/get_unchecked_mut indices are below the table "
        "length, unchecked constructors receive values inside the type's range, unreachable_unchecked is unreachable, stores keep the "
        "en-passant rank invariant, constructed moves are inside their kind's square ranges - decided per function with type invariants as "
        "pre- and post-conditions, partial helpers decided in every caller's context",
        "U1 every unsafe std operation used is modelled (fail closed); U4 pointer arithmetic occurs only in the magic lookups (bound: C15 "
        "T1-T4, re-run here); U5 an UnsafeMoveList is created only by the five semilegal generators; U6 its capacity is at least %d; "
        "U7 the fields carrying the invariants are not public; U8 the validator still enforces the limits the capacity argument rests "
        "on (at most 16 men per side, exactly one king, no pawns on the back ranks) - rule V1 of C11 re-run" % CAPACITY_BOUND,
    ]
    ctx.not_decided += [
        "A256: that no valid position has more than 256 semilegal moves is a statement about all positions (a counting argument over "
        "chess positions); the check decides only that the capacity is the stated bound and that nothing else pushes unchecked",
    ]
    ctx.assume("A256: at most 256 semilegal moves in any valid position (stated in the property; not derivable from the code's shape)")
    for k, (cls, why) in ASSUMED.items():
        if k[0] == "unsafe":
            ctx.assume("%s %s in %s: %s" % (k[0], k[1], k[2], why))
    u1 = ctx.rule("U1", "unsafe std operations are modelled; no unclassified external callee")
    u2 = ctx.rule("U2", "no unsafe precondition is open at a safe entry point (public function, closure, root)")
    u4 = ctx.rule("U4", "raw pointer arithmetic only inside the magic lookups, offsets bounded (C15 rules)")
    u5 = ctx.rule("U5", "UnsafeMoveList is created only by the reviewed generator entry points")
    u6 = ctx.rule("U6", "the unchecked move list has capacity >= %d" % CAPACITY_BOUND)
    u7 = ctx.rule("U7", "fields that carry a range invariant are not public")
    for cfg in cfgs:
        facts = ctx.facts(cfg)
        an, local, errors = analyse_all(ctx, facts, cfg)
        for fid, msg in errors:
            u2.fail("BUDGET " + facts.fns[fid].def_path, "analysis budget exceeded in %s [%s]: nothing certified for it" % (fid, cfg))
        seen = set()
        by_kind = {}
        n_entries = 0
        for fid in local:
            u = an.summary.get(fid)
            if u is None:
                continue
            fn = facts.fns[fid]
            for k, ch in u.done_ctx:
                if k[0] == "unsafe":
                    by_kind.setdefault(k[1], set()).add((k[2], k[3], (fid,) + ch))
            if not is_entry(fn) or (fn.kind == "Closure" and fid in an.spliced):
                continue
            n_entries += 1
            for o in u.open.values():
                if o.kind == "model":
                    key = o.what
                    if key not in seen:
                        seen.add(key)
                        u1.fail(key, "%s (in %s) [%s]" % (o.what, fn.def_path, cfg), ctx.site(o.site.fn, o.site.bi))
                elif o.kind == "unsafe":
                    key = okey(o) + " @ " + fn.def_path
                    if key in seen:
                        continue
                    seen.add(key)
                    chain = " > ".join(c[1].split("::")[-1] for c in o.chain) or "-"
                    u2.fail(key, "unsafe precondition `%s` is not established when reached from %s [%s]: %s; call path: %s"
                            % (o.what, fn.def_path, cfg, o.detail[:220], chain), ctx.site(o.site.fn, o.site.bi))
        for kind in sorted(by_kind):
            u2.ok("%s: %d sites in %d calling contexts [%s]" % (kind, len({x[:2] for x in by_kind[kind]}), len(by_kind[kind]), cfg))
        for kind, fl in FLOORS.items():
            pre = kind
            n = sum(len(v) for k, v in by_kind.items() if k.startswith(pre))
            u2.floor(n, fl, "%s obligations discharged [%s]" % (kind, cfg))
        u2.note("[%s] %d functions analysed, %d safe entry points, %d distinct unsafe obligation sites discharged" %
                (cfg, len(an.summary), n_entries, sum(len(v) for v in by_kind.values())))
        # U1: inventory of external callees that look unsafe
        for name in sorted(facts.ext):
            ls = last_seg(name)
            suspicious = "unchecked" in ls or "::ptr::" in name or ls in ("assume_init", "transmute", "from_raw_parts", "read", "write",
                                                                           "offset", "add", "sub") and "ptr" in name
            if suspicious:
                u1.check(ls in UNSAFE_EXT_MODELLED, "ext " + name, "unsafe std callee %s has no model [%s]" % (name, cfg), what=name + " [" + cfg + "]")
        # U4: where does pointer arithmetic happen - in the magic lookups, or in an unsafe helper that only they call (its body is
        # then part of the formula C15/T3 compares)
        callers = {}
        for fid in local:
            for bi, t in facts.fns[fid].body.calls():
                tgt = t["f"].get("inst")
                if tgt in facts.fns:
                    callers.setdefault(facts.fns[tgt].def_path, set()).add(facts.fns[fid].def_path)

        def magic_only(fn):
            if fn.def_path in MAGIC_FNS:
                return True
            cs = callers.get(fn.def_path, set())
            return fn.safety == "Unsafe" and bool(cs) and all(c in MAGIC_FNS for c in cs)
        for fid in local:
            fn = facts.fns[fid]
            for bi, t in fn.body.calls():
                f = t["f"]
                base = f.get("base") or ""
                if f.get("ext") and "::ptr::" in base and last_seg(base) in ("add", "offset", "sub", "byte_add"):
                    u4.check(magic_only(fn), "ptr " + fn.def_path, "raw pointer arithmetic outside the magic lookups: %s in %s [%s]"
                             % (base, fn.def_path, cfg), ctx.site(fn, bi), what="%s in %s [%s]" % (last_seg(base), fn.def_path, cfg))
        # U5 / U6
        creators = set()
        caps = set()
        for fid in local:
            fn = facts.fns[fid]
            for bi, t in fn.body.calls():
                f = t["f"]
                tgt = f.get("inst") or ""
                if tgt and facts.fns[tgt].def_path == "owlchess::movegen::UnsafeMoveList::new":
                    creators.add(fn.def_path)
                ext = f.get("ext") or ""
                if ext.endswith("::push_unchecked") and "ArrayVec" in ext:
                    m = re.search(r",\s*(\d+)>::push_unchecked$", ext)
                    caps.add((int(m.group(1)) if m else -1, fn.def_path))
        for c in sorted(creators):
            u5.check(c in LIST_CREATORS, "creator " + c, "UnsafeMoveList::new is called from %s, which is not one of the reviewed generators [%s]"
                     % (c, cfg), what="%s [%s]" % (c, cfg))
        u5.floor(len(creators), 1, "callers of UnsafeMoveList::new [%s]" % cfg)
        for cap, where in sorted(caps):
            u6.check(cap >= CAPACITY_BOUND, "capacity " + where, "push_unchecked into an ArrayVec of capacity %d in %s: below the %d moves "
                     "the property states [%s]" % (cap, where, CAPACITY_BOUND, cfg), what="capacity %d in %s [%s]" % (cap, where, cfg))
            u6.check(where == "<owlchess::movegen::UnsafeMoveList as owlchess::movegen::MovePush>::push", "pusher " + where,
                     "push_unchecked used outside UnsafeMoveList::push: %s [%s]" % (where, cfg), what="only pusher: %s [%s]" % (where, cfg))
        u6.floor(len(caps), 1, "push_unchecked call sites [%s]" % cfg)
        # U7
        for path, fld in PRIVATE_FIELDS:
            a = facts.adts.get(path)
            if not a:
                u7.anchor_missing(path)
                continue
            fl = [x for x in a["variants"][0]["fields"] if x["name"] == fld]
            if not fl:
                u7.anchor_missing("%s.%s" % (path, fld))
                continue
            u7.check(fl[0]["vis"] != "pub", "%s.%s" % (path, fld), "%s.%s is public: safe code can break the invariant the unchecked "
                     "accesses rely on [%s]" % (path, fld, cfg), what="%s.%s is %s [%s]" % (path, fld, fl[0]["vis"], cfg))
    # the offset bound of the magic lookups itself (C15's proof rules) on the current tree
    validaterules.errors_rule(ctx, ctx.facts("dev"), "U8")
    witness.cf_rule(ctx, "U7w", ("cf/C19/", "cf/C06/", "cf/C02/private"),
                    "an external crate cannot read or forge the invariant-carrying fields, and the unchecked operations need `unsafe` (compile-fail witnesses)")
    c15.t2(ctx, ctx.facts("dev"))
    c15.t3(ctx, ctx.facts("dev"))
