"""Fact production and caching: runs the owlscan driver over the roots crate.

A fact file is reused only when the hash of every source file that feeds the build
(/repo sources, the roots crate, the driver source) is identical; otherwise a fresh scan is
made in a fresh CARGO_TARGET_DIR (cargo's freshness cache would silently skip the wrapper).
"""
import fcntl
import hashlib
import os
import shutil
import subprocess
import sys
import time

VERIF = os.path.dirname(os.path.dirname(os.path.abspath(__file__)))
CACHE = os.path.join(VERIF, ".cache")
DRIVER_DIR = os.path.join(VERIF, "owlscan")
DRIVER = os.path.join(DRIVER_DIR, "target", "debug", "owlscan")
ROOTS = os.path.join(VERIF, "roots")


class AnalysisError(Exception):
    pass


def repo_path():
    return os.environ.get("OWLCHESS_REPO", "/repo")


def _iter_source_files(repo):
    tops = ["Cargo.toml", "Cargo.lock", "chess", "chess_base"]
    for t in tops:
        p = os.path.join(repo, t)
        if os.path.isfile(p):
            yield p
        elif os.path.isdir(p):
            for root, dirs, files in os.walk(p):
                dirs[:] = sorted(d for d in dirs if d not in ("target", ".git"))
                for f in sorted(files):
                    yield os.path.join(root, f)


def source_hash(repo):
    h = hashlib.sha256()
    n = 0
    for p in _iter_source_files(repo):
        rel = os.path.relpath(p, repo)
        h.update(rel.encode())
        h.update(b"\0")
        with open(p, "rb") as f:
            h.update(f.read())
        h.update(b"\0")
        n += 1
    for p in (os.path.join(DRIVER_DIR, "src", "main.rs"), os.path.join(ROOTS, "src", "lib.rs"),
              os.path.join(ROOTS, "Cargo.toml.in")):
        with open(p, "rb") as f:
            h.update(f.read())
    return h.hexdigest()[:20], n


def sysroot():
    return subprocess.check_output(["rustc", "+nightly", "--print", "sysroot"], text=True).strip()


def ensure_driver():
    src = os.path.join(DRIVER_DIR, "src", "main.rs")
    if os.path.exists(DRIVER) and os.path.getmtime(DRIVER) >= os.path.getmtime(src):
        return
    env = dict(os.environ)
    env["CARGO_NET_OFFLINE"] = "true"
    r = subprocess.run(["cargo", "build", "--offline"], cwd=DRIVER_DIR, env=env,
                       stdout=subprocess.PIPE, stderr=subprocess.STDOUT, text=True)
    if r.returncode != 0 or not os.path.exists(DRIVER):
        raise AnalysisError("cannot build owlscan driver:\n" + r.stdout[-3000:])


CONFIGS = {
    # name: (cargo profile args, features)
    "dev": ([], ""),
    "release": (["--release"], ""),
    "selftest": ([], ', features = ["selftest"]'),
}


def get_facts(cfg="dev", repo=None):
    """Return the path of an up-to-date fact file for the given configuration."""
    repo = repo or repo_path()
    os.makedirs(CACHE, exist_ok=True)
    h, nfiles = source_hash(repo)
    out = os.path.join(CACHE, "facts-%s-%s.json" % (h, cfg))
    if os.path.exists(out) and os.path.getsize(out) > 1000:
        return out
    lock = open(os.path.join(CACHE, "scan.lock"), "w")
    fcntl.flock(lock, fcntl.LOCK_EX)
    try:
        if os.path.exists(out) and os.path.getsize(out) > 1000:
            return out
        ensure_driver()
        _scan(repo, cfg, out)
        _prune_cache(keep=out)
    finally:
        fcntl.flock(lock, fcntl.LOCK_UN)
        lock.close()
    return out


def _prune_cache(keep):
    # keep the cache small: at most 12 fact files, oldest first
    files = [os.path.join(CACHE, f) for f in os.listdir(CACHE) if f.startswith("facts-")]
    files.sort(key=os.path.getmtime)
    while len(files) > 12:
        f = files.pop(0)
        if f != keep:
            try:
                os.remove(f)
            except OSError:
                pass


def _scan(repo, cfg, out):
    prof, feats = CONFIGS[cfg]
    work = os.path.join(CACHE, "scan-%d-%d" % (os.getpid(), int(time.time() * 1000)))
    os.makedirs(work)
    try:
        with open(os.path.join(ROOTS, "Cargo.toml.in")) as f:
            toml = f.read()
        toml = toml.replace("@SRC@", os.path.join(ROOTS, "src")).replace("@REPO@", repo).replace("@FEATURES@", feats)
        with open(os.path.join(work, "Cargo.toml"), "w") as f:
            f.write(toml)
        lockfile = os.path.join(repo, "Cargo.lock")
        if os.path.exists(lockfile):
            shutil.copy(lockfile, os.path.join(work, "Cargo.lock"))
        tmp_out = os.path.join(work, "facts.json")
        env = dict(os.environ)
        env.update({
            "LD_LIBRARY_PATH": os.path.join(sysroot(), "lib") + ":" + env.get("LD_LIBRARY_PATH", ""),
            "RUSTFLAGS": "-Zmir-opt-level=0 -Zalways-encode-mir -Awarnings",
            "RUSTC_WRAPPER": DRIVER,
            "OWLSCAN_OUT": tmp_out,
            "CARGO_TARGET_DIR": os.path.join(work, "target"),
            "CARGO_NET_OFFLINE": "true",
        })
        env.pop("RUSTC_WORKSPACE_WRAPPER", None)
        t0 = time.time()
        r = subprocess.run(["cargo", "+nightly", "check", "--offline", "-j", "16"] + prof, cwd=work, env=env,
                           stdout=subprocess.PIPE, stderr=subprocess.STDOUT, text=True)
        if r.returncode != 0:
            raise AnalysisError("scan failed (cfg=%s): the tree does not compile under the driver\n%s"
                                % (cfg, r.stdout[-4000:]))
        if not os.path.exists(tmp_out) or os.path.getsize(tmp_out) < 1000:
            raise AnalysisError("scan produced no fact file (cfg=%s)\n%s" % (cfg, r.stdout[-2000:]))
        # source paths relative to the repository root: the cache is keyed by content, not by location
        with open(tmp_out) as f:
            data = f.read()
        data = data.replace('"' + os.path.realpath(repo).rstrip("/") + "/", '"').replace('"' + repo.rstrip("/") + "/", '"')
        with open(tmp_out, "w") as f:
            f.write(data)
        os.replace(tmp_out, out)
        sys.stderr.write("[facts] scanned %s cfg=%s in %.1fs -> %s\n" % (repo, cfg, time.time() - t0, out))
    finally:
        shutil.rmtree(work, ignore_errors=True)
