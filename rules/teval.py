"""Evaluator for *residual* effect trees: after the enum-typed inputs of a pure function have been made
literal and folded away, the remaining tree over a few small symbolic inputs (squares) is evaluated
for every value of those inputs. This is exhaustive constant propagation over a finite domain
(<= 64 x 64 points per tree); it is only applied to pure functions (no stores, no opaque calls)."""

M64 = (1 << 64) - 1


class Unsupported(Exception):
    pass


class Panic(Exception):
    pass


class TreeEval:
    def __init__(self, facts, mem=None, opaque=(), oracle=None):
        self.facts = facts
        self._tables = {}
        self.mem = mem
        self.opaque = tuple(opaque)
        self.oracle = oracle        # oracle(name, evaluated args, evaluator) -> value or None: stated result of a call left opaque

    def table(self, name):
        if name not in self._tables:
            self._tables[name] = self.facts.table_u64(name)
        return self._tables[name]

    def run(self, nodes, syms):
        """Evaluate a residual tree; returns the value of the outermost `ret`."""
        self.syms = syms
        self.choices = {}
        return self._seq(nodes, 0)

    def _seq(self, nodes, depth):
        for n in nodes:
            k = n[0]
            if k == "switch":
                v = self.ev(n[1])
                if isinstance(v, tuple):
                    raise Unsupported("switch on aggregate")
                taken = "else"
                for lab in n[2]:
                    if lab != "else" and v in lab:
                        taken = lab
                if taken not in n[2]:
                    raise Unsupported("no branch for value %r" % (v,))
                self.choices[n[5]] = taken
                r = self._seq(n[2][taken], depth)
                if r is not None:
                    return r
            elif k == "inlined":
                self._seq(n[3], depth + 1)   # the callee's `ret` only leaves the callee
            elif k == "ret":
                if depth == 0:
                    return ("ret", self.ev(n[1]))
                return ("leave",)
            elif k == "panic":
                raise Panic(n[1])
            elif k in ("assert", "lstore"):
                continue
            elif k == "call":
                continue  # value-only calls are evaluated where their result is used
            elif k == "store":
                raise Unsupported("store in a pure function")
            elif k in ("unreachable", "backedge"):
                raise Unsupported(k)
        return None

    def ev(self, e):
        k = e[0]
        if k == "const":
            return e[1]
        if k == "sym":
            return self.syms[e[1]]
        if k == "ld":
            if self.mem is not None:
                return self.mem(e[2], self)
            raise Unsupported("memory read")
        if k == "phi":
            lab = self.choices.get(e[1])
            for l, v in e[3]:
                if l == lab:
                    return self.ev(v)
            raise Unsupported("phi without a taken branch")
        if k == "bin":
            op = e[1]
            if op.endswith("WithOverflow"):
                a, b = self.ev(e[2]), self.ev(e[3])
                base = op[:-len("WithOverflow")]
                r = {"Add": a + b, "Sub": a - b, "Mul": a * b}[base]
                return ("ovf", r)
            a, b = self.ev(e[2]), self.ev(e[3])
            if op in ("Eq", "Ne") and (isinstance(a, tuple) or isinstance(b, tuple)):
                return int((a == b) == (op == "Eq"))
            if op == "Eq":
                return int(a == b)
            if op == "Ne":
                return int(a != b)
            if op == "Lt":
                return int(a < b)
            if op == "Le":
                return int(a <= b)
            if op == "Gt":
                return int(a > b)
            if op == "Ge":
                return int(a >= b)
            if op in ("Add", "AddUnchecked"):
                return (a + b) & M64
            if op in ("Sub", "SubUnchecked"):
                return (a - b) & M64
            if op in ("Mul", "MulUnchecked", "WrappingMul"):
                return (a * b) & M64
            if op == "BitAnd":
                return a & b
            if op == "BitOr":
                return a | b
            if op == "BitXor":
                return a ^ b
            if op in ("Shl", "ShlUnchecked"):
                return (a << b) & M64
            if op in ("Shr", "ShrUnchecked"):
                return a >> b
            raise Unsupported("bin " + op)
        if k == "un":
            a = self.ev(e[2])
            if e[1] == "Not":
                if a in (0, 1) and _boolish(e[2]):
                    return 1 - a
                return (~a) & M64
            raise Unsupported("un " + e[1])
        if k == "cast":
            return self.ev(e[2])
        if k == "discr":
            v = self.ev(e[1])
            if isinstance(v, tuple) and v[0] == "agg":
                return {"None": 0, "Some": 1, "Ok": 0, "Err": 1, "Continue": 0, "Break": 1}[v[1]]
            return v
        if k in ("named", "mem"):
            try:
                raw, _rel = self.facts.table_bytes(e[1]) if k == "named" else (None, None)
            except KeyError:
                raw = None
            if raw is not None and raw == bytes(len(raw)):
                return ("zero",)
            raise Unsupported("constant " + str(e[1]))
        if k == "field" and e[2] not in ("#0", "#1"):
            v = self.ev(e[1])
            if v == ("zero",):
                return 0
            raise Unsupported("field " + str(e[2]))
        if k == "field":
            if e[2] in ("#0", "#1"):
                v = self.ev(e[1])
                if isinstance(v, tuple) and v[0] == "ovf":
                    return (v[1] & M64) if e[2] == "#0" else int(not (0 <= v[1] <= M64))
                if isinstance(v, tuple) and v[0] == "agg":
                    return v[2][int(e[2][1:])]
            raise Unsupported("field " + str(e[2]))
        if k == "tbl":
            base = e[1]
            if base[0] == "named":
                return self.table(base[1])[self.ev(e[2])]
            raise Unsupported("table read of " + str(base[0]))
        if k == "agg":
            return ("agg", e[2], tuple(self.ev(x) for x in e[3]))
        if k == "downcast":
            v = self.ev(e[1])
            if isinstance(v, tuple) and v[0] == "agg" and v[1] == e[2] and len(v[2]) == 1:
                return v[2][0]
            raise Unsupported("downcast")
        if k == "call":
            name = e[1]
            if name in self.opaque:
                return ("opaque", name, tuple(self.ev(a) for a in e[2]))
            if self.oracle is not None:
                ov = self.oracle(name, e[2], self)
                if ov is not None:
                    return ov
            segs = [x for x in name.split("::") if not x.startswith("<")]
            last = segs[-1].split("<")[0] if segs else ""
            args = [self.ev(a) for a in e[2]]
            if last == "abs_diff":
                return abs(args[0] - args[1])
            if last == "count_ones":
                return bin(args[0]).count("1")
            if last == "trailing_zeros":
                return (args[0] & -args[0]).bit_length() - 1 if args[0] else 64
            if last == "wrapping_add":
                return (args[0] + args[1]) & M64
            if last == "wrapping_sub":
                return (args[0] - args[1]) & M64
            if last in ("unwrap", "expect") and isinstance(args[0], tuple) and args[0][1] in ("Some", "Ok"):
                return args[0][2][0]
            if last in ("is_some", "is_none") and isinstance(args[0], tuple) and args[0][0] == "agg":
                return int((args[0][1] == "Some") == (last == "is_some"))
            if last == "contains" and "core::ops::range::Range" in name and isinstance(args[0], tuple) and args[0][0] == "agg":
                lo, hi = args[0][2][0], args[0][2][1]
                if args[0][1] == "Range":
                    return int(lo <= args[1] < hi)
                if args[0][1] == "RangeInclusive":
                    return int(lo <= args[1] <= hi)
            if last == "new" and "RangeInclusive" in name and len(args) == 2:
                return ("agg", "RangeInclusive", (args[0], args[1]))
            raise Unsupported("call " + name)
        if k == "ref":
            from .fx import is_memory_place
            if self.mem is not None and is_memory_place(e[1]):
                return self.mem(e[1], self)
            return self.ev(e[1])
        if k == "zst":
            return 0
        raise Unsupported(k)


def _boolish(e):
    return e[0] == "bin" and e[1] in ("Eq", "Ne", "Lt", "Le", "Gt", "Ge") or (e[0] == "const" and e[2] == "bool") or e[0] == "phi" \
        or (e[0] == "un" and e[1] == "Not" and _boolish(e[2])) \
        or (e[0] == "call" and e[1].split("<")[0].rstrip(":").split("::")[-1].startswith(("is_", "has", "do_is_")))
