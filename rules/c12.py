"""C12 - every text parser is total: malformed input gives an error, never a panic.

Decided by abstract interpretation (rules/absint.py) of every function reachable from the parsing entry
points: each assert terminator, diverging panic call, std call with a documented panic (slicing, split_at,
unwrap, ...) and unsafe precondition must be unreachable for every input string (and every Board that
satisfies the stated validity assumptions)."""
from .absint import TOTAL_EXT, last_seg
from .aisetup import RepoAnalyzer, ASSUMED

# entry points (monomorphic wrappers in the roots crate) -> the API they stand for
ROOTS = [
    ("parse_raw_board", "RawBoard::from_str"),
    ("parse_raw_board_fen", "RawBoard::from_fen"),
    ("parse_board", "Board::from_str (parse + validate)"),
    ("parse_board_fen", "Board::from_fen"),
    ("parse_uci_move", "uci::Move::from_str"),
    ("parse_san_data", "san::Data::from_str"),
    ("parse_san_move", "san::Move::from_str"),
    ("parse_coord", "Coord::from_str"),
    ("parse_cell", "Cell::from_str"),
    ("parse_color", "Color::from_str"),
    ("parse_castling", "CastlingRights::from_str"),
    ("move_from_uci", "Move::from_uci"),
    ("move_from_uci_semilegal", "Move::from_uci_semilegal"),
    ("move_from_uci_legal", "Move::from_uci_legal"),
    ("move_from_san", "Move::from_san"),
    ("chain_push_uci_list", "MoveChain::push_uci_list"),
    ("chain_from_uci_list", "MoveChain::from_uci_list"),
    ("chain_from_fen", "MoveChain::from_fen"),
    ("make_uci_str", "make::Uci(&str).make"),
    ("make_uci_str_raw", "make::Uci(&str).make_raw"),
    ("make_san_str", "make::San(&str).make"),
    ("make_san_str_raw", "make::San(&str).make_raw"),
]
# counted on the pinned tree (fail closed when the analysis sees fewer)
FLOOR_UNITS = 150
FLOOR_DISCHARGED = 400


def key_of(o):
    return "%s %s in %s" % (o.kind, o.what, o.site.fn.def_path)


def run(ctx):
    an = run_cfg(ctx, "dev", first=True)
    # the second clause: a returned value, formatted, parses back to itself - decided as value -> text -> value over every value
    from . import textrules, fenrules
    facts = ctx.facts("dev")
    ctx.decided += [
        "P2 (round trip of returned values) every value a parser can return is written by its formatter as a text the parser reads back "
        "as the same value: tabulated through the Display/FromStr models for uci::Move (P2u), san::Move (P2s), Coord/Cell/Color/"
        "CastlingRights (P2t) and, for FEN, the five scalar fields end to end (P2f) with the piece placement as writer/reader automata "
        "(P2w, P2r) - the parsers return only such values (a raw board read from text always has its mark on the rank for its side)",
    ]
    textrules.uci_text_rule(ctx, facts, "P2u", ctx.tier == "thorough")
    textrules.san_text_rule(ctx, facts, "P2s", ctx.tier == "thorough")
    textrules.types_text_rule(ctx, facts, "P2t")
    fenrules.fields_rule(ctx, facts, "P2f", False)
    fenrules.writer_rule(ctx, facts, "P2w")
    fenrules.reader_rule(ctx, facts, "P2r")
    if ctx.tier == "thorough":
        # optimised build: no overflow or debug assertions, arithmetic wraps - the explicit panics and std preconditions remain
        run_cfg(ctx, "release", first=False)
    return an


def run_cfg(ctx, cfg, first):
    facts = ctx.facts(cfg)
    an = RepoAnalyzer(facts, capacity_ok=True)
    if not first:
        return _rules(ctx, facts, an, cfg)
    ctx.decided += [
        "P1 no reachable panic: for each of the %d entry points, every assert terminator (overflow, bounds, ...), diverging panic call, "
        "std call with a documented panic and unsafe precondition in every reachable function is unreachable for all strings "
        "(interval + length/ASCII/UTF-8 object facts + checked loop invariants); demand-driven inlining decides partial helpers in "
        "their callers' context" % len(ROOTS),
        "P0 every external (std) callee reachable from a parser is classified total / partial-with-model (fail closed on a new one)",
    ]
    ctx.not_decided += [
        "allocation failure; the UCI move *list* round trip is the per-move one (P2u) plus the separator rule C17/W4",
        "position-dependent stages are analysed under the listed assumptions (A-KING, A-UNFINISHED) and the invariants checked by "
        "C06 (well-formed moves), C11 (validator) and C15 (magic offsets)",
    ]
    return _rules(ctx, facts, an, cfg)


def _rules(ctx, facts, an, cfg):
    sfx = "" if cfg == "dev" else "-" + cfg
    r1 = ctx.rule("P1" + sfx, "no assertion, panic or unsafe precondition is reachable from a parsing entry point [%s build]" % cfg)
    r0 = ctx.rule("P0" + sfx, "external callees reachable from parsers are classified (total, or partial with a precondition model) [%s build]" % cfg)
    units = set()
    discharged = 0
    seen_open = set()
    for root, api in ROOTS:
        if root not in facts.fns:
            r1.anchor_missing("root " + root)
            continue
        try:
            u = an.analyse(root)
        except RuntimeError as ex:
            r1.fail("BUDGET " + root, "analysis budget exceeded for %s (%s): nothing is certified for it" % (api, ex))
            continue
        reach = an.reachable([root])
        opens = [o for o in u.open.values() if o.kind in an.kinds]
        # closures handed to std combinators are called by std with arguments of their parameter types: entry points of their own
        for fid in reach:
            if facts.fns[fid].kind == "Closure" and fid not in an.spliced:
                cu = an.analyse(fid)
                if cu is not None:
                    opens += [o for o in cu.open.values() if o.kind in an.kinds]
        for o in opens:
            k = key_of(o)
            if o.kind == "model":
                if k not in seen_open:
                    r0.fail(k, "%s (reached from %s)" % (o.what, api), ctx.site(o.site.fn, o.site.bi))
                seen_open.add(k)
                continue
            if (k, root) in seen_open:
                continue
            seen_open.add((k, root))
            chain = " > ".join(c[1].split("::")[-1] if "::" in c[1] else c[1] for c in o.chain) or "-"
            r1.fail(k + " [" + root + "]",
                    "%s: %s `%s` can be reached (%s); call path: %s" % (api, o.kind, o.what, o.detail[:200], chain),
                    ctx.site(o.site.fn, o.site.bi))
        if not opens:
            n = 0
            for fid in reach:
                s = an.summary.get(fid)
                if s is not None:
                    n += len(s.done)
            r1.ok("%s (%s)" % (api, root), {"reachable_functions": len(reach), "obligations_discharged": n})
        units.update(reach)
    for fid in units:
        s = an.summary.get(fid)
        if s is not None:
            discharged += len(s.done)
    exts = {}
    for fid in units:
        s = an.summary.get(fid)
        if s is not None:
            for nm, c in s.ext.items():
                exts[nm] = exts.get(nm, 0) + c
    for nm in sorted(exts):
        r0.ok(nm, {"class": "total" if last_seg(nm) in TOTAL_EXT else "partial/modelled"})
    r1.floor(len(units), FLOOR_UNITS, "functions reachable from the parser roots")
    r1.floor(discharged, FLOOR_DISCHARGED, "obligations discharged")
    r1.note("%d functions analysed as units, %d obligations discharged, %d partial functions decided in their callers" %
            (len(units), discharged, len([f for f in units if f in an.partial])))
    for k, n in sorted(an.assumed_used.items()):
        ctx.assume("%s %s in %s: %s" % (k[0], k[1], k[2], ASSUMED[k][1]))
    ctx.assume("std functions behave as documented (rules/absint.py TOTAL_EXT and the partial models: index, split_at, unwrap, "
               "get_unchecked, from_utf8, first/split_last, get)")
    ctx.extra["assumed_obligations"] = {"%s %s in %s" % k: n for k, n in an.assumed_used.items()}
    return an
