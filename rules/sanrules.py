"""SAN rules (C09 S1-S4) and certified producers (C02 M2)."""
from itertools import product

from .fx import FxBuilder, tree_paths, walk_tree, unstamp, path_value
from .expr import show, walk
from .apirules import API_STOP, PathFacts, VALIDATE, norm_val, _strip_payload

SAN = "owlchess::moves::san::"
GEOM_STOP = {
    "owlchess_base::types::Coord::rank", "owlchess_base::types::Coord::file", "owlchess_base::types::Coord::add",
    "owlchess_base::types::Coord::from_parts", "owlchess_base::geometry::promote_dst_rank", "owlchess_base::geometry::pawn_forward_delta",
    "owlchess_base::geometry::double_move_src_rank", "owlchess::board::RawBoard::ep_dest", "owlchess_base::types::Color::inv",
    "owlchess::board::Board::get", "owlchess_base::types::Cell::from_parts", "owlchess::board::Board::side",
}


def producer_rule(ctx, facts, rid):
    r = ctx.rule(rid, "san::Data::into_move returns Ok(mv) only for a move that passed Move::validate on the same board, or that came out of a "
                      "searcher fed exclusively through the legality-filtered candidate generators")
    fn = facts.fns.get(SAN + "Data::into_move")
    if fn is None:
        r.anchor_missing(SAN + "Data::into_move")
        return
    stop = set(API_STOP) | GEOM_STOP | {SAN + "AmbigSearcher::new", SAN + "AmbigSearcher::get_move"}
    fb = FxBuilder(facts, stop=stop)
    tree = fb.tree(fn)
    b = ("param", 2, fn.body.names.get(2, "_2"))
    n_ok = n_search = 0
    for events, choices in tree_paths(tree):
        last = events[-1]
        if last[0] != "ret":
            continue
        pf = PathFacts(events, choices)
        ret = unstamp(pf.ret)
        arm = None
        for e in events:
            if e[0] == "branch" and show(unstamp(e[1])) == "discr(self)" and e[2] != "else":
                arm = e[2][0]
        if ret[0] == "agg" and ret[1] == "core::result::Result" and ret[2] == "Ok":
            n_ok += 1
            mv = norm_val(ret[3][0])
            ok = any(m == mv and bb == b for m, bb in pf.legal)
            r.check(ok, "into_move/arm%s/validated" % arm,
                    "san::Data::into_move (variant %s) returns Ok(%s) on a path where that move was not validated on this board"
                    % (arm, show(mv)), site=ctx.site(fn), what="arm %s: Ok(mv) after mv.validate(b)" % arm)
        elif ret[0] == "call" and ret[1] == SAN + "AmbigSearcher::get_move":
            n_search += 1
            det = ret[2][0]
            feeds = [e for e in events if e[0] == "call" and e[2] in ("owlchess::movegen::san_candidates", "owlchess::movegen::san_pawn_capture_candidates")]
            other = [e for e in events if e[0] == "call" and e[5]["mutargs"] and any(unstamp(e[3][i]) == unstamp(det) for i in e[5]["mutargs"])
                     and e not in feeds]
            ok = len(feeds) == 1 and unstamp(feeds[0][3][-1]) == unstamp(det) and norm_val(feeds[0][3][0]) == b and not other
            r.check(ok, "into_move/arm%s/searcher" % arm,
                    "san::Data::into_move (variant %s) returns a searcher result, but the searcher is not fed exactly once by "
                    "san_candidates / san_pawn_capture_candidates on this board" % arm, site=ctx.site(fn),
                    what="arm %s: result of a searcher fed by the legality-filtered generator" % arm)
        elif ret[0] == "agg" and ret[2] == "Err":
            continue
        else:
            r.fail("into_move/arm%s/unknown" % arm, "san::Data::into_move returns %s on some path (not understood)" % show(ret), site=ctx.site(fn))
    r.check(n_ok >= 4 and n_search >= 2, "into_move/shape", "into_move has %d validated Ok paths and %d searcher paths; expected >=4 and >=2" % (n_ok, n_search),
            site=ctx.site(fn), what="4 validated arms + 2 searcher arms found")
    # the candidate generators wrap their sink into a LegalFilter
    for name in ("owlchess::movegen::san_candidates", "owlchess::movegen::san_pawn_capture_candidates"):
        for inst in facts.instances(name):
            callees = [(t["f"].get("inst") or "") for _bi, t in inst.body.calls()]
            okf = any(c.startswith("owlchess::movegen::LegalFilter::<") and c.endswith("::new") for c in callees)
            gen = [c for c in callees if "MoveGenImpl" in c and name.split("::")[-1] in c]
            okg = len(gen) == 2 and all("LegalFilter<" in c for c in gen)
            r.check(okf and okg, name.split("::")[-1] + "/" + (inst.args[0] if inst.args else ""),
                    "%s does not run the generator into a LegalFilter for both colours" % inst.id, site=ctx.site(inst),
                    what="%s -> LegalFilter" % inst.id.split("::")[-1])
    # Move::from_san / san::Move::into_move forward it
    f2 = facts.fns.get(SAN + "Move::into_move")
    if f2 is not None:
        fb2 = FxBuilder(facts, stop={SAN + "Data::into_move"})
        ret = [x[1] for x in fb2.tree(f2) if x[0] == "ret"]
        s = show(unstamp(ret[0])) if ret else ""
        r.check(s == "into_move(self.data, b)", "san::Move::into_move", "san::Move::into_move is not data.into_move(b): %s" % s, site=ctx.site(f2),
                what="san::Move::into_move forwards Data::into_move")


def searcher_rule(ctx, facts, rid):
    r = ctx.rule(rid, "AmbigSearcher honours the origin hints and reports ambiguity; AmbigDetector computes the minimal disambiguation")
    fb = FxBuilder(facts)
    # --- AmbigSearcher::new: mask = FULL & file(f) & rank(r)
    fn = facts.fns.get(SAN + "AmbigSearcher::new")
    if fn is None:
        r.anchor_missing(SAN + "AmbigSearcher::new")
    else:
        OPTF, OPTR = "core::option::Option", "core::option::Option"
        files = facts.table_u64("owlchess_base::bitboard_consts::FILE")
        ranks = facts.table_u64("owlchess_base::bitboard_consts::RANK")
        bad = None
        n = 0
        for f, rk in product([None] + list(range(8)), [None] + list(range(8))):
            fe = ("agg", OPTF, "None", ()) if f is None else ("agg", OPTF, "Some", (("const", f, "owlchess_base::types::File"),))
            re_ = ("agg", OPTR, "None", ()) if rk is None else ("agg", OPTR, "Some", (("const", rk, "owlchess_base::types::Rank"),))
            tree = fb.tree(fn, env=[fe, re_])
            ret = [x[1] for x in tree if x[0] == "ret"]
            v = unstamp(ret[0]) if ret else None
            want = (1 << 64) - 1
            if f is not None:
                want &= files[f]
            if rk is not None:
                want &= ranks[rk]
            n += 1
            got = v[3][0][1] if v and v[0] == "agg" and v[3] and v[3][0][0] == "const" else None
            st = v[3][1] if v and v[0] == "agg" and len(v[3]) > 1 else None
            if got != want or not (st and st[0] == "agg" and st[2] == "Empty"):
                bad = (f, rk, got, want)
        r.check(bad is None, "AmbigSearcher::new", "AmbigSearcher::new(file=%s, rank=%s) builds mask %s, expected %s (state Empty)" % (bad or (0, 0, 0, 0)),
                site=ctx.site(fn), what="AmbigSearcher::new on all %d (file, rank) hints" % n)
    # --- AmbigSearcher::push / get_move transition table
    fn = facts.fns.get("<owlchess::moves::san::AmbigSearcher as owlchess::movegen::MovePush>::push")
    if fn is None:
        r.anchor_missing("AmbigSearcher::push")
    else:
        tree = fb.tree(fn)
        table = {}
        for events, choices in tree_paths(tree):
            if events[-1][0] != "ret":
                continue
            has = None
            st = None
            for e in events:
                if e[0] != "branch":
                    continue
                s = show(unstamp(path_value(e[1], choices)))
                truth = not (e[2] != "else" and 0 in e[2])
                if "*self.srcs Shr mv.src" in s:
                    has = truth
                if s == "discr(*self.state)" and e[2] != "else":
                    st = e[2][0]
            stores = [e for e in events if e[0] == "store" and show(unstamp(e[1])).startswith("*self.state")]
            new = show(unstamp(path_value(stores[-1][2], choices))) if stores else None
            table[(has, st)] = new
        want = {
            (False, None): None,
            (True, 0): "AmbigSearcherState::Found{mv}",
            (True, 1): "AmbigSearcherState::Ambiguity{mv, (*self.state as Found)}",
        }
        ok = all(table.get(k) == v for k, v in want.items())
        amb = table.get((True, 2))
        ok = ok and (amb is None or amb == "*self.state")
        r.check(ok, "AmbigSearcher::push", "AmbigSearcher::push transitions are %s; expected: ignored unless srcs.has(mv.src); Empty->Found(mv); "
                "Found(x)->Ambiguity(mv,x); Ambiguity stays" % table, site=ctx.site(fn), what="push: hint filter + Empty->Found->Ambiguity")
    fn = facts.fns.get(SAN + "AmbigSearcher::get_move")
    if fn is None:
        r.anchor_missing(SAN + "AmbigSearcher::get_move")
    else:
        tree = fb.tree(fn)
        table = {}
        for events, choices in tree_paths(tree):
            if events[-1][0] != "ret":
                continue
            st = None
            for e in events:
                if e[0] == "branch" and show(unstamp(e[1])) == "discr(*self.state)" and e[2] != "else":
                    st = e[2][0]
            table[st] = show(unstamp(path_value(events[-1][1], choices)))
        ok = (table.get(0, "").startswith("Result::Err{IntoMoveError::NotFound") and table.get(1) == "Result::Ok{(*self.state as Found)}"
              and table.get(2, "").startswith("Result::Err{IntoMoveError::Ambiguity{"))
        r.check(ok, "AmbigSearcher::get_move", "get_move table is %s; expected Empty->Err(NotFound), Found(m)->Ok(m), Ambiguity->Err(Ambiguity)" % table,
                site=ctx.site(fn), what="get_move: NotFound / Ok / Ambiguity")
    # --- AmbigDetector::{file, rank} over the 8 flag combinations = standard disambiguation
    for meth in ("file", "rank"):
        fn = facts.fns.get(SAN + "AmbigDetector::" + meth)
        if fn is None:
            r.anchor_missing(SAN + "AmbigDetector::" + meth)
            continue
        adt = facts.adts.get(SAN + "AmbigDetector")
        names = [f["name"] for f in adt["variants"][0]["fields"]]
        bad = None
        for any_, sf, sr in product((0, 1), repeat=3):
            vals = {"mv": ("sym", "mv"), "sim_any": ("const", any_, "bool"), "sim_file": ("const", sf, "bool"), "sim_rank": ("const", sr, "bool")}
            selfv = ("ref", ("agg", SAN + "AmbigDetector", "AmbigDetector", tuple(vals[n_] for n_ in names)))
            fbx = FxBuilder(facts, stop=GEOM_STOP | {"owlchess::moves::base::Move::src"})
            tree = fbx.tree(fn, env=[selfv])
            ret = [x[1] for x in tree if x[0] == "ret"]
            v = unstamp(ret[0]) if ret else ("?",)
            got = v[0] == "agg" and v[2] == "Some"
            # standard: no hint if unique; file if no other candidate shares the file; else rank if no other shares the rank; else both
            if not any_:
                want_file = want_rank = False
            elif not sf:
                want_file, want_rank = True, False
            elif not sr:
                want_file, want_rank = False, True
            else:
                want_file = want_rank = True
            want = want_file if meth == "file" else want_rank
            if got != want:
                bad = (any_, sf, sr, got, want)
        r.check(bad is None, "AmbigDetector::" + meth, "AmbigDetector::%s with (other candidate, shares file, shares rank)=%s gives %s, standard "
                "disambiguation says %s" % ((meth,) + ((bad[:3], bad[3], bad[4]) if bad else ((), "", ""))), site=ctx.site(fn),
                what="AmbigDetector::%s over 8 flag combinations" % meth)
    fn = facts.fns.get("<owlchess::moves::san::AmbigDetector as owlchess::movegen::MovePush>::push")
    if fn is None:
        r.anchor_missing("AmbigDetector::push")
    else:
        fbx = FxBuilder(facts, stop=GEOM_STOP | {"owlchess::moves::base::Move::src", "<owlchess::moves::base::Move as core::cmp::PartialEq>::eq"})
        tree = fbx.tree(fn)
        # semantic, whatever the shape (guarded `flag = true` or `flag |= cond`): for every abstract input the flags after push are
        #   unchanged if the candidate is the move itself; else any' = true, file' = file | same_file, rank' = rank | same_rank
        class _U(Exception):
            pass

        def ev(e, sc):
            e = unstamp(e)
            t = show(e)
            if e[0] == "const":
                return int(bool(e[1]))
            if e[0] == "ld" or t.startswith("*self.sim_"):
                for nm in ("any", "file", "rank"):
                    if t.endswith("sim_" + nm):
                        return sc["old_" + nm]
            if e[0] == "call" and e[1].endswith("PartialEq>::eq") and "self.mv" in t and "mv" in t:
                return sc["same_move"]
            if e[0] == "call" and e[1].endswith("PartialEq>::ne") and "self.mv" in t:
                return 1 - sc["same_move"]
            if e[0] == "bin" and e[1] in ("Eq", "Ne") and all(("file(" in show(x)) for x in (e[2], e[3])) and "self.mv" in t:
                return sc["same_file"] if e[1] == "Eq" else 1 - sc["same_file"]
            if e[0] == "bin" and e[1] in ("Eq", "Ne") and all(("rank(" in show(x)) for x in (e[2], e[3])) and "self.mv" in t:
                return sc["same_rank"] if e[1] == "Eq" else 1 - sc["same_rank"]
            if e[0] == "bin" and e[1] in ("BitOr", "BitAnd", "BitXor", "Eq", "Ne"):
                a, b = ev(e[2], sc), ev(e[3], sc)
                return {"BitOr": a | b, "BitAnd": a & b, "BitXor": a ^ b, "Eq": int(a == b), "Ne": int(a != b)}[e[1]]
            if e[0] == "un" and e[1] == "Not":
                return 1 - ev(e[2], sc)
            raise _U(t[:80])
        bad = None
        npts = 0
        paths = tree_paths(tree)
        for bits in product((0, 1), repeat=6):
            sc = dict(zip(("same_move", "same_file", "same_rank", "old_any", "old_file", "old_rank"), bits))
            got = None
            try:
                for events, choices in paths:
                    if events[-1][0] != "ret":
                        continue
                    flags = {"any": sc["old_any"], "file": sc["old_file"], "rank": sc["old_rank"]}
                    feasible = True
                    for e in events:
                        if e[0] == "branch":
                            v = ev(path_value(e[1], choices), dict(sc, old_any=flags["any"], old_file=flags["file"], old_rank=flags["rank"]))
                            taken = (v in e[2]) if e[2] != "else" else (v not in e[4])
                            if not taken:
                                feasible = False
                                break
                        elif e[0] == "store":
                            tgt = show(unstamp(e[1]))
                            for nm in flags:
                                if tgt.endswith("sim_" + nm):
                                    flags[nm] = ev(path_value(e[2], choices), dict(sc, old_any=flags["any"], old_file=flags["file"], old_rank=flags["rank"]))
                    if feasible:
                        got = flags if got is None else "two paths apply"
            except _U as ex:
                got = "not evaluable: %s" % ex
            if sc["same_move"]:
                want = {"any": sc["old_any"], "file": sc["old_file"], "rank": sc["old_rank"]}
            else:
                want = {"any": 1, "file": sc["old_file"] | sc["same_file"], "rank": sc["old_rank"] | sc["same_rank"]}
            npts += 1
            if got != want and bad is None:
                bad = (sc, got, want)
        r.check(bad is None, "AmbigDetector::push", "AmbigDetector::push on %s leaves flags %s, expected %s (flags are raised only by candidates other "
                "than the move itself: any always, file/rank when the source file/rank coincides)" % (bad or ("", "", "")), site=ctx.site(fn),
                what="push: flag updates over %d abstract inputs" % npts)


def from_move_rule(ctx, facts, rid):
    r = ctx.rule(rid, "SAN formatting: disambiguation among legal candidates, capture flag, check/mate mark from the successor position")
    fn = facts.fns.get(SAN + "Move::from_move")
    if fn is None:
        r.anchor_missing(SAN + "Move::from_move")
    else:
        fb = FxBuilder(facts, stop={SAN + "Data::from_move", "owlchess::board::Board::is_check", "owlchess::movegen::has_legal_moves",
                                    "<owlchess::moves::base::Move as owlchess::moves::make::Make>::make"})
        tree = fb.tree(fn)
        table = {}
        for events, choices in tree_paths(tree):
            if events[-1][0] != "ret":
                continue
            made = chk = legal = None
            for e in events:
                if e[0] != "branch":
                    continue
                s = show(unstamp(path_value(e[1], choices)))
                truth = not (e[2] != "else" and 0 in e[2])
                if s.startswith("is_check(&"):
                    chk = truth
                elif s.startswith("has_legal_moves(&"):
                    legal = truth
                elif s.startswith("discr(") and "::make(&mv, b))" in s and "Try>::branch(" in s:
                    made = (e[2] != "else" and 0 in e[2])
            ret = show(unstamp(path_value(events[-1][1], choices)))
            table[(made, chk, legal)] = ret
        def mark(s):
            if "Result::Err" in s:
                return "err"
            if s.endswith("Option::Some{0}}}"):
                return "+"
            if s.endswith("Option::Some{2}}}"):
                return "#"
            if s.endswith("Option::None{}}}"):
                return ""
            return "?"
        got = {k: mark(v) for k, v in table.items()}
        want = {(True, True, True): "+", (True, True, False): "#", (True, False, None): "", (False, None, None): "err"}
        r.check(got == want, "from_move/check-mark", "san::Move::from_move check marks by (move made, successor in check, successor has legal "
                "moves) are %s; expected %s" % (got, want), site=ctx.site(fn), what="'+' iff check with legal reply, '#' iff check without")
        uses = [show(unstamp(n_[3][0])) for n_, _c, _i in walk_tree(tree) if n_[0] == "call" and n_[2] in ("owlchess::board::Board::is_check", "owlchess::movegen::has_legal_moves")]
        r.check(len(uses) == 2 and len(set(uses)) == 1 and "make(&mv, b)" in uses[0], "from_move/successor",
                "check and mate are not both evaluated on the position after mv.make(b): %s" % uses, site=ctx.site(fn),
                what="check/mate evaluated on the successor position")
    fn = facts.fns.get(SAN + "Data::from_move")
    if fn is None:
        r.anchor_missing(SAN + "Data::from_move")
        return
    fb = FxBuilder(facts, stop=GEOM_STOP | {"owlchess::movegen::san_candidates", SAN + "AmbigDetector::file", SAN + "AmbigDetector::rank",
                                             SAN + "AmbigDetector::new", "owlchess_base::types::Cell::piece", "owlchess::moves::base::Move::src_cell",
                                             "owlchess::moves::base::Move::dst", "owlchess::moves::base::Move::src", "owlchess::moves::base::Move::kind"})
    tree = fb.tree(fn)
    # every non-pawn Simple/Promote path builds Data::Simple from a detector fed by san_candidates(b, piece, mv.dst)
    simple = []
    for events, choices in tree_paths(tree):
        if events[-1][0] != "ret":
            continue
        ret = unstamp(path_value(events[-1][1], choices))
        if ret[0] == "agg" and ret[2] == "Simple":
            feeds = [e for e in events if e[0] == "call" and e[2] == "owlchess::movegen::san_candidates"]
            simple.append((ret, feeds))
    ok = bool(simple)
    why = ""
    for ret, feeds in simple:
        fields = dict(zip(("piece", "file", "rank", "is_capture", "dst"), ret[3]))
        if len(feeds) != 1:
            ok = False
            why = "san_candidates called %d times" % len(feeds)
            continue
        a = [unstamp(x) for x in feeds[0][3]]
        if not (show(a[0]) == "b" and a[1] == unstamp(fields["piece"]) and show(a[2]) == "dst(&mv)" and show(unstamp(fields["dst"])) == "dst(&mv)"):
            ok = False
            why = "candidates are not generated for (b, the move's piece, the move's destination): %s" % [show(x) for x in a]
        if not (show(unstamp(fields["file"])).startswith("file(&") and show(unstamp(fields["rank"])).startswith("rank(&")):
            ok = False
            why = "file/rank hints do not come from the detector"
        if "get(b, dst(&mv))" not in show(unstamp(fields["is_capture"])):
            ok = False
            why = "capture flag is not `destination occupied`: %s" % show(unstamp(fields["is_capture"]))
    r.check(ok, "Data::from_move/simple", "Data::from_move for a piece move: %s" % why, site=ctx.site(fn),
            what="piece moves: hints from AmbigDetector over san_candidates(b, piece, dst); capture = dst occupied")


def text_faithful_rule(ctx, facts, rid):
    """The squares of the move that into_move returns are those written in the SAN text."""
    r = ctx.rule(rid, "san::Data::into_move: a move built directly from the data takes its squares from the data (never from a search of the "
                      "board), and only the variants that name both squares may bypass the hint-honouring searcher")
    fn = facts.fns.get(SAN + "Data::into_move")
    if fn is None:
        r.anchor_missing(SAN + "Data::into_move")
        return
    variants = {v["discr"]: v["name"] for v in facts.adts[SAN + "Data"]["variants"]}
    direct_ok = {"Uci", "Castling", "PawnMove", "PawnCapture"}       # these spell out destination (and source file) in full
    stop = set(API_STOP) | GEOM_STOP | {SAN + "AmbigSearcher::new", SAN + "AmbigSearcher::get_move"}
    fb = FxBuilder(facts, stop=stop)
    tree = fb.tree(fn)
    seen = 0
    for events, choices in tree_paths(tree):
        last = events[-1]
        if last[0] != "ret":
            continue
        pf = PathFacts(events, choices)
        ret = unstamp(pf.ret)
        arm = None
        for e in events:
            if e[0] == "branch" and show(unstamp(e[1])) == "discr(self)" and e[2] != "else":
                arm = variants.get(e[2][0], str(e[2][0]))
        if ret[0] == "agg" and ret[1] == "core::result::Result" and ret[2] == "Ok":
            seen += 1
            mv = norm_val(ret[3][0])
            if not r.check(arm in direct_ok, "into_move/%s/direct" % arm,
                           "san::Data::into_move builds the move of a %s directly instead of searching the candidates that match the written "
                           "origin hints: the hints are ignored" % arm, site=ctx.site(fn), what="%s: direct construction allowed" % arm):
                continue
            # the squares handed to the constructor
            ctor = mv
            while ctor[0] in ("payload", "downcast") or (ctor[0] == "call" and ctor[1].endswith(("unwrap", "branch"))):
                ctor = ctor[1] if ctor[0] != "call" else ctor[2][0]
            if ctor[0] == "call" and ctor[1] == "owlchess::moves::base::Move::new":
                args = ctor[2][-2:]
            elif ctor[0] == "call" and ctor[1] in ("owlchess::moves::base::Move::from_castling", "owlchess::moves::uci::Move::into_move"):
                args = ()
            else:
                r.fail("into_move/%s/ctor" % arm, "san::Data::into_move (%s) returns Ok(%s): not a recognised constructor" % (arm, show(mv)[:120]),
                       site=ctx.site(fn))
                continue
            bad = None
            for a in args:
                for x in walk(unstamp(a)):
                    if x[0] == "call" and x[1].startswith("owlchess::board::") and not x[1].endswith("::side"):
                        bad = show(x)[:80]
                    if x[0] in ("ld", "field") and "b.r." in show(x) and not show(x).endswith("b.r.side"):
                        bad = show(x)[:80]
            r.check(bad is None, "into_move/%s/squares" % arm,
                    "san::Data::into_move (%s): a square of the returned move is read from the board (%s) instead of the text" % (arm, bad),
                    site=ctx.site(fn), what="%s: squares are functions of the text and the side to move" % arm)
    r.floor(seen, 4, "directly constructed Ok paths of into_move")
