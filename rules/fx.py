"""Structured effect trees with sequential (program-order) value reconstruction.

For a function instance the CFG (reducible: it comes from structured Rust) is folded back into a tree
of events using post-dominators, and every local is given the expression assigned to it *at that
point of the program*. Reads through pointers are stamped with a memory version, so "the value of
b.hash before the first store" and "after it" are different expressions:

  ("ld", ver, place_expr)    ver = number of earlier (visible) writes that may alias the place

Events:
  ("store", place_expr, value_expr, site)
  ("call", name, base, args, site, info)            call that was not spliced (info: dest, mutargs, ret)
  ("inlined", callee_id, args, subtree, site, ret)  call to a local function, effects spliced
  ("switch", discr_expr, {labels: subtree}, site, case_vals)   labels = tuple of ints, or "else"
  ("assert", kind, cond_expr, expected, site, msg)
  ("panic", name, args, site)                       diverging call
  ("ret", value_expr, site) / ("unreachable", site) / ("backedge", block, site)

Branches whose condition is a compile-time constant (generic colour, const-generic flags, a literal
`inv` argument of a spliced helper) are pruned by constant folding. Nothing is executed: values are
expression trees, never concrete board contents.
"""
from .expr import Builder, N, norm_bin, norm_call, body_info, NEWTYPES
from .mir import callee_name

INT_W = {"u8": 8, "u16": 16, "u32": 32, "u64": 64, "u128": 128, "usize": 64,
         "i8": 8, "i16": 16, "i32": 32, "i64": 64, "i128": 128, "isize": 64,
         # transparent newtypes (N() drops the wrapper, constants keep the wrapper's name)
         "owlchess_base::bitboard::Bitboard": 64, "owlchess_base::types::Coord": 8, "owlchess_base::types::Cell": 8,
         "owlchess_base::types::CastlingRights": 8}

# external callees that take a `&mut` argument only to hand out a pointer into it (no write happens)
NO_WRITE_EXT = (
    "get_unchecked_mut", "deref_mut", "as_mut", "iter_mut", "as_mut_slice", "borrow_mut", "get_mut",
    "core::slice::<impl [T]>::get_unchecked_mut",
)


NEWTYPES_EQ = ("owlchess_base::bitboard::Bitboard", "owlchess_base::types::Coord", "owlchess_base::types::Cell",
               "owlchess_base::types::CastlingRights")


class Site:
    __slots__ = ("fn", "bi", "si")

    def __init__(self, fn, bi, si=None):
        self.fn = fn
        self.bi = bi
        self.si = si

    def __repr__(self):
        return "%s bb%d" % (self.fn.id, self.bi)


class Frame:
    _next = [0]

    def __init__(self, fn, env, depth):
        Frame._next[0] += 1
        self.id = Frame._next[0]
        self.fn = fn
        self.body = fn.body
        self.env = env
        self.state = {}
        self.depth = depth
        self.rets = []
        self.unroll = {}
        self.loopvars = {}


def apath(e):
    """Access path of a place expression: (root, field, field, ...) with "*" for any index; root is
    ("param", i) for memory reached through pointer parameter i, ("static", name), or ("?",)."""
    if not isinstance(e, tuple):
        return (("?",),)
    k = e[0]
    if k == "ld":
        # pointer loaded from memory and then dereferenced: unknown target
        return (("?",),)
    if k == "deref":
        inner = e[1]
        if inner[0] == "param":
            return (("param", inner[1]),)
        if inner[0] == "ref":
            return apath(inner[1])
        return (("?",),)
    if k == "field":
        return apath(e[1]) + (e[2],)
    if k in ("tbl", "index"):
        return apath(e[1]) + ("*",)
    if k == "downcast":
        return apath(e[1])
    if k == "static":
        return (("static", e[1]),)
    if k == "named":
        return (("const", e[1]),)
    if k == "discr":
        return apath(e[1])
    return (("?",),)


def may_alias(p, q):
    if p[0] == ("?",) or q[0] == ("?",):
        return p[0][0] != "const" and q[0][0] != "const"
    if p[0] != q[0]:
        return False
    for a, b in zip(p[1:], q[1:]):
        if a == "*" or b == "*":
            continue
        if a != b:
            return False
    return True


def is_memory_place(e):
    """Does the place expression read through a pointer / static (as opposed to a local value)?"""
    while isinstance(e, tuple):
        k = e[0]
        if k in ("deref", "static"):
            return True
        if k in ("field", "tbl", "index", "downcast"):
            e = e[1]
            continue
        return False
    return False


class FxBuilder(Builder):
    def __init__(self, facts, inline=None, max_depth=8, crates=("owlchess", "owlchess_base"), max_blocks=120,
                 stop=(), ai_mode=False, invariants=None, agg_watch=(), array_stores=False):
        super().__init__(facts)
        self.array_stores = array_stores
        # ai_mode: keep value-changing integer casts, emit ("mk", type, value, site) where a newtype with a
        # range invariant is constructed, and ("loophead", block, {local: (pre, var)}, site) / backedge finals
        self.ai_mode = ai_mode
        self.invariants = invariants or {}
        self.agg_watch = set(agg_watch)     # struct paths whose construction is an event ("mkagg", path, operands, site)
        self.crates = crates
        self.max_depth = max_depth
        self.max_blocks = max_blocks
        self.stop = set(stop)
        self.inline_pred = inline or self.default_inline
        self._enum_cache = {}
        self.writes = []          # (apath, branch_path)
        self.branch = ()
        self.frames = {}
        self._value_eq = None
        self.discr_domain = {}
        self.etypes = {}
        self.spliced = set()      # closures whose body was spliced into a modelled combinator (decided in that context)
        self._serial = 0
        self._callseq = 0
        self._tbl_cache = {}
        self._model_nodes = []

    def _initvar(self, fr, l):
        """Initial (never assigned) value of a local; distinct per inlined frame."""
        nm = fr.body.names.get(l, "_%d" % l)
        if fr.depth == 0:
            return ("var", l, nm)
        return ("var", l, nm, ("f", fr.id))

    def _havoc(self, l, nm):
        """A fresh unknown value (each havoc is a distinct expression, so facts learnt about an earlier
        value of the same local never transfer)."""
        self._serial += 1
        return ("var", l, nm, self._serial)

    def operand_type(self, fr, o):
        if "k" in o:
            return o["k"].get("ty")
        p = o.get("c") or o.get("m")
        return self.place_type(fr, p) if p else None

    def int_range(self, ty):
        """(lo, hi) of an integer-like type index (None if not integer-like)."""
        if ty is None:
            return None
        t = self.facts.types[ty]
        k = t["k"]
        if k == "int":
            w = t["w"]
            return (-(1 << (w - 1)), (1 << (w - 1)) - 1) if t["s"] else (0, (1 << w) - 1)
        if k == "bool":
            return (0, 1)
        if k == "char":
            return (0, 0x10FFFF)
        return None

    def _widening(self, src, dst):
        a, b = self.int_range(src), self.int_range(dst)
        if a is None or b is None:
            return False
        return b[0] <= a[0] and a[1] <= b[1]

    def place_type(self, fr, p, inv=False):
        """Type index of a MIR place. With inv=True the single field of a newtype that carries a range
        invariant is given the newtype's type (N() makes the wrapper transparent, the invariant stays)."""
        ty = fr.body.locals[p["l"]]
        n = len(p["p"])
        for i, el in enumerate(p["p"]):
            t = self.facts.types[ty]
            k = el[0]
            if k == "deref":
                ty = t.get("to", ty)
            elif k == "field":
                if inv and i == n - 1 and el[3] in self.invariants:
                    break
                ty = el[4]
            elif k in ("index", "cindex"):
                ty = t.get("of", ty)
        return ty

    def note_type(self, e, ty):
        if isinstance(e, tuple) and e and e[0] not in ("const", "agg", "phi", "zst"):
            self.etypes.setdefault(e, ty)

    def default_inline(self, fn):
        return fn.krate in self.crates and len(fn.body.blocks) <= self.max_blocks and fn.def_path not in self.stop

    # ------------------------------------------------------------------ constant folding
    def enum_info(self, path):
        if path not in self._enum_cache:
            a = self.facts.adts.get(path)
            if not (a and a["kind"] == "enum"):
                a = None
                for key, x in self.facts.adts.items():
                    if x and x.get("path") == path and x["kind"] == "enum":
                        a = x
                        break
            self._enum_cache[path] = a
        return self._enum_cache[path]

    def fold(self, e):
        """Return a ("const", v, ty) if e is a compile-time constant, else None."""
        if not isinstance(e, tuple):
            return None
        k = e[0]
        if k == "const":
            return e
        if k == "agg" and not e[3]:
            info = self.enum_info(e[1])
            if info and all(not v["fields"] for v in info["variants"]):
                for v in info["variants"]:
                    if v["name"] == e[2]:
                        return ("const", v["discr"], e[1])
            return None
        if k == "discr":
            c = self.fold(e[1])
            if c is not None:
                return ("const", c[1], "isize")
            inner = e[1]
            if inner[0] == "agg":
                info = self.enum_info(inner[1])
                if info:
                    for v in info["variants"]:
                        if v["name"] == inner[2] and v["discr"] is not None:
                            return ("const", v["discr"], "isize")
            return None
        if k == "cast":
            c = self.fold(e[2])
            if c is None:
                return None
            w = INT_W.get(e[3])
            if w is None:
                return ("const", c[1], e[3])
            v = c[1] & ((1 << w) - 1)
            if e[3].startswith("i") and v >> (w - 1):
                v -= 1 << w
            return ("const", v, e[3])
        if k == "un":
            c = self.fold(e[2])
            if c is None:
                return None
            if e[1] == "Not":
                if c[2] == "bool":
                    return ("const", 0 if c[1] else 1, "bool")
                w = INT_W.get(c[2])
                if w:
                    return ("const", (~c[1]) & ((1 << w) - 1), c[2])
            if e[1] == "Neg":
                return ("const", -c[1], c[2])
            return None
        if k == "bin":
            a = self.fold(e[2])
            b = self.fold(e[3])
            if a is None or b is None:
                return None
            op = e[1]
            x, y = a[1], b[1]
            ty = a[2]
            w = INT_W.get(ty)
            cmpops = {"Eq": x == y, "Ne": x != y, "Lt": x < y, "Le": x <= y, "Gt": x > y, "Ge": x >= y}
            if op in cmpops:
                return ("const", 1 if cmpops[op] else 0, "bool")
            res = None
            if op in ("Add", "AddUnchecked", "WrappingAdd"):
                res = x + y
            elif op in ("Sub", "SubUnchecked", "WrappingSub"):
                res = x - y
            elif op in ("Mul", "MulUnchecked", "WrappingMul"):
                res = x * y
            elif op == "BitAnd":
                res = x & y
            elif op == "BitOr":
                res = x | y
            elif op == "BitXor":
                res = x ^ y
            elif op in ("Shl", "ShlUnchecked"):
                res = x << y if y < 256 else None
            elif op in ("Shr", "ShrUnchecked"):
                res = x >> y if y < 256 else None
            if res is None:
                return None
            if w and not ty.startswith("i"):
                res &= (1 << w) - 1
            if ty == "bool":
                res = 1 if res else 0
            return ("const", res, ty)
        if k in ("tbl", "index") and e[2][0] == "const" and e[1][0] == "agg" and e[1][1] == "array":
            if 0 <= e[2][1] < len(e[1][3]):
                return self.fold(e[1][3][e[2][1]])
            return None
        if k in ("tbl", "index") and e[2][0] == "const" and e[1][0] in ("alloc", "deref") :
            a = e[1] if e[1][0] == "alloc" else (e[1][1][1] if e[1][1][0] == "ref" and e[1][1][1][0] == "alloc" else None)
            if a is not None and a[0] == "alloc":
                al = self.facts.allocs.get(str(a[1]))
                if al is not None:
                    raw = bytes.fromhex(al["bytes"])
                    i = (a[2] or 0) + e[2][1]
                    if 0 <= i < len(raw) and not al["relocs"]:
                        return ("const", raw[i], "u8")
            return None
        if k == "call" and len(e[2]) == 1:
            nm = e[1]
            a = e[2][0]
            c = self.fold(a[1] if a[0] == "ref" else a)
            if c is not None:
                if nm.startswith("core::char::convert::<impl core::convert::From<char> for u") or \
                        (nm.startswith("core::convert::num::<impl core::convert::From<u") and nm.endswith(">::from")):
                    return ("const", c[1], nm.split(" for ")[1].split(">")[0])
                last = nm.split("::")[-1]
                if nm.startswith("core::char::methods::<impl char>::"):
                    ch = c[1]
                    if last == "is_ascii_uppercase":
                        return ("const", 1 if 65 <= ch <= 90 else 0, "bool")
                    if last == "is_ascii_lowercase":
                        return ("const", 1 if 97 <= ch <= 122 else 0, "bool")
                    if last == "to_ascii_lowercase":
                        return ("const", ch + 32 if 65 <= ch <= 90 else ch, "char")
                    if last == "to_ascii_uppercase":
                        return ("const", ch - 32 if 97 <= ch <= 122 else ch, "char")
                    if last == "is_ascii":
                        return ("const", 1 if ch < 128 else 0, "bool")
        if k in ("tbl", "index") and e[1][0] == "named" and e[2][0] == "const":
            c = self.facts.consts.get(e[1][1])
            if c is not None:
                t = self.facts.types[c["ty"]]
                if t["k"] == "array":
                    et = self.facts.types[t["of"]]
                    is64 = (et["k"] == "int" and et["w"] == 64) or (et["k"] == "adt" and et.get("path") == "owlchess_base::bitboard::Bitboard")
                    if is64 and 0 <= e[2][1] < (t["len"] or 0):
                        if e[1][1] not in self._tbl_cache:
                            self._tbl_cache[e[1][1]] = self.facts.table_u64(e[1][1])
                        return ("const", self._tbl_cache[e[1][1]][e[2][1]], "u64")
            return None
        if k == "field" and e[1][0] == "named" and isinstance(e[2], str) and not e[2].startswith("#"):
            # field of a named struct constant (e.g. Move::NULL.kind): decode from the evaluated bytes
            c = self.facts.consts.get(e[1][1])
            if c is None:
                return None
            t = self.facts.types[c["ty"]]
            if t["k"] != "adt":
                return None
            a = self.facts.adts.get(t.get("key")) or self.facts.adts.get(t["path"])
            if not a or a.get("kind") != "struct" or "offsets" not in a:
                return None
            flds = a["variants"][0]["fields"]
            for i, fl in enumerate(flds):
                if fl["name"] == e[2]:
                    ft = self.facts.types[fl["ty"]]
                    if ft["k"] == "int":
                        size = ft["w"] // 8
                    elif ft["k"] == "adt":
                        fa = self.facts.adts.get(ft.get("key")) or self.facts.adts.get(ft["path"])
                        size = fa.get("size") if fa else None
                    elif ft["k"] in ("bool",):
                        size = 1
                    else:
                        size = None
                    if not size or size > 8:
                        return None
                    try:
                        b, relocs = self.facts.table_bytes(e[1][1])
                    except Exception:
                        return None
                    off = a["offsets"][i]
                    if relocs or off + size > len(b):
                        return None
                    return ("const", int.from_bytes(b[off:off + size], "little"), self.facts.ty_str(fl["ty"]))
            return None
        if k == "call" and len(e[2]) == 2 and e[1].split("::")[-1] in ("wrapping_add", "wrapping_sub"):
            a = self.fold(e[2][0])
            b = self.fold(e[2][1])
            if a is not None and b is not None:
                w = INT_W.get(a[2], 64)
                r = a[1] + b[1] if e[1].endswith("wrapping_add") else a[1] - b[1]
                return ("const", r & ((1 << w) - 1), a[2])
            return None
        if k == "field" and e[2] in ("#0", "#1"):
            # (a op-with-overflow b).#0 / .#1 on constants
            inner = e[1]
            if inner[0] == "bin" and inner[1].endswith("WithOverflow"):
                a = self.fold(inner[2])
                b = self.fold(inner[3])
                if a is not None and b is not None:
                    op = inner[1][:-len("WithOverflow")]
                    x, y = a[1], b[1]
                    res = {"Add": x + y, "Sub": x - y, "Mul": x * y}.get(op)
                    w = INT_W.get(a[2])
                    if res is not None and w:
                        lo, hi = (0, (1 << w) - 1) if not a[2].startswith("i") else (-(1 << (w - 1)), (1 << (w - 1)) - 1)
                        ovf = not (lo <= res <= hi)
                        if e[2] == "#1":
                            return ("const", 1 if ovf else 0, "bool")
                        return ("const", res & ((1 << w) - 1), a[2])
        return None

    def simp(self, e):
        """Fold constant sub-expressions (only where the whole sub-expression is constant)."""
        if not isinstance(e, tuple) or not e:
            return e
        c = self.fold(e)
        if c is not None:
            return c
        return e

    # ------------------------------------------------------------------ evaluation against a frame
    def ev_local(self, fr, l):
        st = fr.state
        if l in st:
            return st[l]
        if 1 <= l <= fr.body.argc:
            if fr.env is not None:
                return fr.env[l - 1]
            e = ("param", l, fr.body.names.get(l, "_%d" % l))
            self.note_type(e, fr.body.locals[l])
            return e
        e = self._initvar(fr, l)
        self.note_type(e, fr.body.locals[l])
        return e

    def version(self, path):
        n = 0
        for wp, wb in self.writes:
            if len(wb) <= len(self.branch) and self.branch[:len(wb)] == wb or wb[:len(self.branch)] == self.branch:
                if may_alias(wp, path):
                    n += 1
        return n

    def record_write(self, place_expr):
        self.writes.append((apath(place_expr), self.branch))

    def by_ref_local(self, fr, l):
        """Locals that must be modelled as memory cells of their frame (mutably borrowed or partially
        stored); all other locals have value semantics."""
        info = body_info(fr.body)
        return l in info.mut_borrowed or l in info.partial_store

    def place_expr(self, fr, p):
        """Place expression: rooted at ("local", frame, l) for by-ref locals, at a value for others."""
        l = p["l"]
        if self.by_ref_local(fr, l) and not (1 <= l <= fr.body.argc and fr.env is not None and False):
            e = ("local", fr.id, l)
        else:
            e = self.ev_local(fr, l)
        for el in p["p"]:
            k = el[0]
            if k == "deref":
                if e[0] == "local":
                    e = self.load(e)
                e = e[1] if e[0] == "ref" else ("deref", e)
            elif k == "field":
                name = ("#" + el[2]) if el[3] in ("tuple", "closure") else el[2]
                if _root(e)[0] == "local":
                    e = ("field", e, name, el[1])
                else:
                    e = self.field(e, name, el[1])
            elif k == "index":
                e = ("index", e, self.ev_local(fr, el[1]))
            elif k == "cindex":
                e = ("index", e, ("const", -el[1] if el[3] else el[1], "usize"))
            elif k == "downcast":
                e = ("downcast", e, el[2])
            else:
                e = ("proj", e, str(el))
        if _root(e)[0] == "local":
            return e
        return N(e)

    def load(self, pe):
        """Value stored at a place expression."""
        r = _root(pe)
        if r[0] == "local":
            fr = self.frames.get(r[1])
            if fr is None:
                return self._havoc(r[2], "?")
            return self._load_local(fr, pe)
        if is_memory_place(pe):
            return ("ld", self.version(apath(pe)), pe)
        return self.simp(pe)

    def _load_local(self, fr, pe):
        if pe[0] == "local":
            return self.ev_local(fr, pe[2])
        if pe[0] == "field":
            base = self._load_local(fr, pe[1])
            return self._field_of(base, pe[2], pe[3] if len(pe) > 3 else 0)
        if pe[0] == "tbl":
            base = self._load_local(fr, pe[1])
            if base[0] in ("var", "upd"):
                return self._havoc(_root(pe)[2], "?")
            return ("tbl", base, pe[2])
        if pe[0] == "downcast":
            return ("downcast", self._load_local(fr, pe[1]), pe[2])
        if pe[0] == "index":
            return ("index", self._load_local(fr, pe[1]), pe[2])
        return self._havoc(_root(pe)[2], "?")

    def _is_newtype_local(self, fr, l):
        t = self.facts.types[fr.body.locals[l]]
        if t["k"] != "adt":
            return False
        a = self.facts.adts.get(t["key"])
        return bool(a and a["kind"] == "struct" and len(a["variants"][0]["fields"]) == 1 and a["path"] in NEWTYPES)

    def _field_of(self, value, name, idx):
        """Field of a local's value that may be a base value with overrides and/or a merge of such."""
        if value[0] == "upd":
            for nm, v in value[2]:
                if nm == name:
                    return v
            return self._field_of(value[1], name, idx)
        if value[0] == "phi":
            vals = [(l, self._field_of(v, name, idx)) for l, v in value[3]]
            if all(v == vals[0][1] for _l, v in vals):
                return vals[0][1]
            return ("phi", value[1], value[2] + "." + name, tuple(vals))
        return N(self.field(value, name, idx))

    def store(self, pe, val, site, nodes):
        r = _root(pe)
        if r[0] == "local":
            fr = self.frames.get(r[1])
            if fr is None:
                return
            if pe[0] == "local":
                fr.state[r[2]] = val
                nm = fr.body.names.get(r[2])
                if nm and nodes is not None:
                    nodes.append(("lstore", fr.fn.id, r[2], nm, val, site))
                return
            cur = fr.state.get(r[2])
            if pe[0] == "field" and pe[1][0] == "local" and cur is not None and cur[0] == "agg" and pe[3] < len(cur[3]):
                fields = list(cur[3])
                fields[pe[3]] = val
                fr.state[r[2]] = ("agg", cur[1], cur[2], tuple(fields))
            elif pe[0] == "field" and pe[1][0] == "local" and pe[2] == "0" and self._is_newtype_local(fr, r[2]):
                # the only field of a newtype: the value itself (N() treats newtypes as transparent)
                fr.state[r[2]] = val
                nm = fr.body.names.get(r[2])
                if nm and nodes is not None:
                    nodes.append(("lstore", fr.fn.id, r[2], nm, val, site))
            elif pe[0] == "field" and pe[1][0] == "local":
                # field update of a by-ref local whose value is not a literal aggregate: base value + overrides
                base = cur if cur is not None else self.ev_local(fr, r[2])
                ovs = ()
                if base[0] == "upd":
                    ovs = tuple(x for x in base[2] if x[0] != pe[2])
                    base = base[1]
                fr.state[r[2]] = ("upd", base, ovs + ((pe[2], val),))
                nm = fr.body.names.get(r[2])
                if nm and nodes is not None:
                    nodes.append(("lstore", fr.fn.id, r[2], "%s.%s" % (nm, pe[2]), val, site))
            else:
                if self.array_stores and nodes is not None and pe[0] in ("index", "tbl") and pe[1][0] == "local":
                    # element store into a local array: an event for the automaton reading (the array value itself is havocked)
                    nodes.append(("store", pe, val, site, 0))
                fr.state[r[2]] = self._havoc(r[2], fr.body.names.get(r[2], "_%d" % r[2]))
            return
        if is_memory_place(pe):
            nodes.append(("store", pe, val, site, self.version(apath(pe))))
            self.record_write(pe)

    def ev_place(self, fr, p, as_place=False):
        pe = self.place_expr(fr, p)
        if as_place:
            return pe
        v = self.load(pe)
        if self.ai_mode:
            self.note_type(v, self.place_type(fr, p, inv=True))
        return v

    def ev_operand(self, fr, o):
        if "k" in o:
            e = self.const(o["k"])
            if e[0] == "promoted":
                e = self.promoted(fr.body, e, 0)
                return N(e)
            return e
        if "rt" in o:
            return ("const", 1 if o.get("val") else 0, "bool")
        p = o.get("c") or o.get("m")
        return self.ev_place(fr, p)

    def ev_rvalue(self, fr, rv):
        k = rv[0]
        if k == "use":
            return self.ev_operand(fr, rv[1])
        if k in ("ref", "rawptr"):
            inner = self.ev_place(fr, rv[2], as_place=True)
            if inner[0] == "deref" and inner[1][0] != "ld":
                # reborrow `&*p` is p
                return inner[1]
            return ("ref", inner)
        if k == "copyderef":
            return self.ev_place(fr, rv[1])
        if k == "bin":
            a = self.ev_operand(fr, rv[2])
            b = self.ev_operand(fr, rv[3])
            return self.simp(norm_bin(rv[1], a, b))
        if k == "un":
            return self.simp(("un", rv[1], self.ev_operand(fr, rv[2])))
        if k == "cast":
            inner = self.ev_operand(fr, rv[2])
            kind = rv[1].split("(")[0]
            if self.ai_mode and kind == "IntToInt" and not self._widening(self.operand_type(fr, rv[2]), rv[3]):
                kind = "IntToIntN"
            return self.simp(N(("cast", kind, inner, self.facts.ty_str(rv[3]))))
        if k == "discr":
            pl = self.ev_place(fr, rv[1])
            e = self.simp(("discr", pl))
            if e[0] == "discr":
                dom = self._discr_domain(fr, rv[1])
                if dom is not None:
                    self.discr_domain[e] = dom
            return e
        if k == "agg":
            a = rv[1]
            ops = tuple(self.ev_operand(fr, o) for o in rv[2])
            if a["k"] == "adt":
                return self.simp(N(("agg", a["path"], a["vname"], ops)))
            return ("agg", a["k"], a.get("path", "") if a["k"] == "closure" else "", ops)
        if k == "repeat":
            return ("repeat", self.ev_operand(fr, rv[1]), rv[2])
        return ("unknown", str(rv[0]))

    # ------------------------------------------------------------------ trees
    def tree(self, fn, env=None, depth=0):
        """Effect tree of `fn` (fresh memory-version counters)."""
        self.writes = []
        self.branch = ()
        fr = Frame(fn, env, depth)
        self.frames = {fr.id: fr}
        fn.body.postdominators()
        nodes = self._region(fr, 0, None, frozenset())
        return nodes

    def _subtree(self, callee, args, depth):
        fr = Frame(callee, list(args), depth)
        self.frames[fr.id] = fr
        callee.body.postdominators()
        nodes = self._region(fr, 0, None, frozenset())
        rets = fr.rets
        ret = None
        if rets and all(r == rets[0] for r in rets):
            ret = rets[0]
        return nodes, ret

    def _loop_assigned(self, body, header):
        """Locals assigned inside the natural loop(s) of `header`."""
        blocks = set()
        for p in body.pred(header):
            if body.dominates(header, p):
                # natural loop of back edge p -> header
                stack = [p]
                blocks.add(header)
                while stack:
                    x = stack.pop()
                    if x in blocks:
                        continue
                    blocks.add(x)
                    stack.extend(body.pred(x))
        out = set()
        for b in blocks:
            blk = body.blocks[b]
            for s in blk["stmts"]:
                if s[0] == "assign":
                    out.add(s[1]["l"])
                    rv = s[2]
                    if rv[0] in ("ref", "rawptr") and (rv[1] is True or (isinstance(rv[1], str) and "Mut" in rv[1])):
                        if not any(e[0] == "deref" for e in rv[2]["p"]):
                            out.add(rv[2]["l"])
                elif s[0] == "setdiscr":
                    out.add(s[1]["l"])
            t = blk["term"]
            if t["k"] == "call":
                out.add(t["dest"]["l"])
        return out, blocks

    def _region(self, fr, b, stop, onstack):
        nodes = []
        body = fr.body
        fn = fr.fn
        pd = body.postdominators()
        EXIT = len(body.blocks)
        while b is not None and b != stop:
            if b in onstack:
                if b in fr.unroll and fr.unroll[b][0] < 70:
                    fr.unroll[b][0] += 1
                    onstack = onstack - fr.unroll[b][1]
                else:
                    finals = {l: fr.state[l] for l in fr.loopvars.get(b, ()) if l in fr.state} if self.ai_mode else {}
                    nodes.append(("backedge", b, Site(fn, b), finals, fr.id))
                    break
            # loop header: values assigned in the loop are unknown on entry - unless the loop iterates
            # over a literal array, in which case it is unrolled with concrete elements
            if b not in fr.unroll and any(body.dominates(b, p) for p in body.pred(b)):
                assigned, lblocks = self._loop_assigned(body, b)
                if self._is_arrayiter_header(fr, b):
                    fr.unroll[b] = [0, lblocks]
                else:
                    lv = {}
                    for l in sorted(assigned):
                        pre = fr.state.get(l)
                        fr.state[l] = self._havoc(l, body.names.get(l, "_%d" % l))
                        self.note_type(fr.state[l], body.locals[l])
                        if pre is not None:
                            lv[l] = (pre, fr.state[l])
                    if self.ai_mode:
                        fr.loopvars[b] = sorted(lv)
                        nodes.append(("loophead", b, lv, Site(fn, b), fr.id))
            onstack = onstack | {b}
            blk = body.blocks[b]
            for si, s in enumerate(blk["stmts"]):
                if s[0] == "assign":
                    pl, rv = s[1], s[2]
                    val = self.ev_rvalue(fr, rv)
                    self.note_type(val, self.place_type(fr, pl))
                    if self.ai_mode and rv[0] == "agg" and rv[1].get("path") in self.invariants and rv[2]:
                        nodes.append(("mk", rv[1]["path"], self.ev_operand(fr, rv[2][0]), Site(fn, b, si)))
                    if self.ai_mode and rv[0] == "agg" and rv[1].get("path") in self.agg_watch:
                        nodes.append(("mkagg", rv[1]["path"], tuple(self.ev_operand(fr, o) for o in rv[2]), Site(fn, b, si)))
                    if self.ai_mode and rv[0] == "cast" and rv[1].startswith("Transmute"):
                        nodes.append(("transmute", self.facts.ty_str(rv[3]), self.ev_operand(fr, rv[2]), Site(fn, b, si)))
                    if not pl["p"]:
                        fr.state[pl["l"]] = val
                        nm = body.names.get(pl["l"])
                        if nm and len(body_info(body).defs.get(pl["l"], ())) > 1:
                            nodes.append(("lstore", fn.id, pl["l"], nm, val, Site(fn, b, si)))
                    else:
                        tgt = self.ev_place(fr, pl, as_place=True)
                        if _root(tgt)[0] == "local" or is_memory_place(tgt):
                            self.store(tgt, val, Site(fn, b, si), nodes)
                        else:
                            self._store_local(fr, pl, val)
                elif s[0] == "setdiscr":
                    tgt = self.ev_place(fr, s[1], as_place=True)
                    if is_memory_place(tgt) and _root(tgt)[0] != "local":
                        nodes.append(("store", ("discr", tgt), ("const", s[2], "variant"), Site(fn, b, si),
                                      self.version(apath(tgt))))
                        self.record_write(tgt)
                    else:
                        fr.state[s[1]["l"]] = self._havoc(s[1]["l"], body.names.get(s[1]["l"], ""))
            t = blk["term"]
            k = t["k"]
            site = Site(fn, b)
            if k == "goto":
                b = t["t"]
            elif k == "ret":
                v = self.ev_local(fr, 0)
                fr.rets.append(v)
                nodes.append(("ret", v, site))
                break
            elif k in ("unreachable", "resume", "terminate"):
                nodes.append(("unreachable", site))
                break
            elif k == "drop":
                b = t["t"]
            elif k == "assert":
                nodes.append(("assert", t["msg"]["kind"], self.ev_operand(fr, t["c"]), t["exp"], site, t["msg"]))
                b = t["t"]
            elif k == "call":
                b = self._call(fr, t, site, nodes)
                if b is None:
                    break
            elif k == "switch":
                d = self.ev_operand(fr, t["d"])
                c = self.fold(d)
                if c is not None:
                    nxt = t["else"]
                    for v, tb in t["cases"]:
                        if int(v) == c[1]:
                            nxt = tb
                            break
                    b = nxt
                    continue
                targets = {}
                for v, tb in t["cases"]:
                    targets.setdefault(tb, []).append(int(v))
                join = pd.get(b)
                if join is None or join == EXIT:
                    join = None
                elif fr.depth == 0 and not body.blocks[join]["stmts"] and body.blocks[join]["term"]["k"] == "ret":
                    # the common return block: duplicate the `ret` into the branches so that each keeps its own literal result
                    join = None
                order = []
                for tb, vals in targets.items():
                    if tb == t["else"]:
                        continue
                    order.append((tuple(vals), tb))
                case_vals = tuple(int(v) for v, _tb in t["cases"])
                dom = self.discr_domain.get(d)
                if dom is None or not dom <= set(case_vals):
                    order.append(("else", t["else"]))
                if dom is not None:
                    order = [(lab, tb) for lab, tb in order if lab == "else" or any(v in dom for v in lab)]
                branches = {}
                base_state = dict(fr.state)
                states = []
                state_labels = []
                sw_id = (fn.id, b, fr.id, len(self.writes))
                unr = tuple(sorted((hb, st[0]) for hb, st in fr.unroll.items() if st[0] > 0))
                if unr:
                    # the same block in another iteration of an unrolled array loop is another switch
                    sw_id = sw_id + (("unroll", unr),)
                saved_branch = self.branch
                for lab, tb in order:
                    fr.state = dict(base_state)
                    self.branch = saved_branch + ((sw_id, lab),)
                    sub = self._region(fr, tb, join, onstack)
                    branches[lab] = sub
                    if not _diverges(sub):
                        states.append(fr.state)
                        state_labels.append(lab)
                self.branch = saved_branch
                # writes made inside the branches are visible to everything after the join
                nw = sw_id[3]
                for wi in range(nw, len(self.writes)):
                    self.writes[wi] = (self.writes[wi][0], saved_branch)
                merged = self._merge_states(fr, base_state, states, state_labels, sw_id)
                fr.state = merged
                nodes.append(("switch", d, branches, site, case_vals, sw_id))
                b = join
            else:
                nodes.append(("unreachable", site))
                break
        return nodes

    def _merge_states(self, fr, base_state, states, state_labels, sw_id):
        """Join of the local states of the continuing branches of a switch: equal values are kept, different ones become phi nodes."""
        body = fr.body
        merged = {}
        if states:
            keys = set()
            for s in states:
                keys |= set(s)

            def dflt(key):
                if 1 <= key <= body.argc:
                    return fr.env[key - 1] if fr.env is not None else ("param", key, body.names.get(key, "_%d" % key))
                return self._initvar(fr, key)
            for s in states:
                for key in keys:
                    if key not in s:
                        s[key] = base_state.get(key, dflt(key))
            for key in keys:
                v0 = states[0][key]
                if all(s[key] == v0 for s in states[1:]):
                    merged[key] = v0
                else:
                    merged[key] = ("phi", sw_id, body.names.get(key, "_%d" % key),
                                   tuple((lab, s[key]) for lab, s in zip(state_labels, states)))
        return merged

    def _closure_env(self, callee, closure_value):
        """First argument of a closure body: the closure itself (FnOnce) or a reference to it (Fn / FnMut)."""
        t = self.facts.types[callee.body.locals[1]] if len(callee.body.locals) > 1 else None
        if t is not None and t["k"] == "ref":
            return ("ref", closure_value)
        return closure_value

    def _array_ops(self, fr, base, args, hidden, site, nodes):
        """Literal fixed-size arrays: `[a, b].map(f)`, `arr.iter()`, and the searching consumers `find`/`any`/`all`/`position`
        over such an iterator, expanded element by element (what the loop they abbreviate would do)."""
        if not base or not args:
            return None
        last = base.split("::")[-1]
        clos = [h for h in (hidden or []) if h in self.facts.fns]

        def callee_of(fnv):
            if fnv[0] == "fn" and fnv[1] in self.facts.fns:
                return self.facts.fns[fnv[1]], (lambda p: (p,))
            if len(clos) == 1:
                c = self.facts.fns[clos[0]]
                env = self._closure_env(c, fnv)
                return c, (lambda p: (env, p))
            return None, None
        if fr.depth >= self.max_depth:
            return None
        if last == "map" and base.startswith("core::array::<impl [T; N]>") and len(args) == 2 and args[0][0] == "agg" and args[0][1] == "array":
            callee, mk = callee_of(args[1])
            if callee is None:
                return None
            outs = []
            for el in args[0][3]:
                sub, cret = self._subtree(callee, mk(el), fr.depth + 1)
                if cret is None:
                    return None
                nodes.append(("inlined", callee.id, mk(el), sub, site, cret))
                self.spliced.add(callee.id)
                outs.append(cret)
            return ("agg", "array", "", tuple(outs))
        if last == "iter" and base.startswith("core::slice::<impl [T]>") and len(args) == 1:
            a = args[0]
            while a[0] in ("ref", "cast") :
                a = a[1] if a[0] == "ref" else a[2]
            if a[0] == "agg" and a[1] == "array":
                return ("arrayiter", tuple(("ref", el) for el in a[3]), 0)
            return None
        if last in ("find", "any", "all", "position") and "iterator::Iterator" in base and len(args) == 2:
            al = self._arrayiter_local(args[0])
            if al is None:
                return None
            lf, l = al
            it = lf.state[l]
            elems = it[1][it[2]:]
            callee, mk = callee_of(args[1])
            if callee is None or len(elems) > 16:
                return None
            OPT = "core::option::Option"
            # nested: test element i; on a hit stop, else go on with element i+1
            base_state = dict(fr.state)
            saved_branch = self.branch
            first_nw = len(self.writes)
            hit_is_true = last != "all"

            def build(i):
                if i == len(elems):
                    end = {"find": ("agg", OPT, "None", ()), "position": ("agg", OPT, "None", ()),
                           "any": ("const", 0, "bool"), "all": ("const", 1, "bool")}[last]
                    return [], end
                el = elems[i]
                arg = ("ref", el) if last == "find" else el
                sub, cret = self._subtree(callee, mk(arg), fr.depth + 1)
                if cret is None:
                    raise ValueError
                self.spliced.add(callee.id)
                sw = (fr.fn.id, site.bi, fr.id, first_nw, "search", i)
                rest_nodes, rest_val = build(i + 1)
                hit_val = {"find": ("agg", OPT, "Some", (el,)), "position": ("agg", OPT, "Some", (("const", i, "usize"),)),
                           "any": ("const", 1, "bool"), "all": ("const", 0, "bool")}[last]
                hit_lab, go_lab = ("else", (0,)) if hit_is_true else ((0,), "else")
                ns = [("inlined", callee.id, mk(arg), sub, site, cret),
                      ("switch", cret, {hit_lab: [], go_lab: rest_nodes}, site, (0,), sw)]
                return ns, ("phi", sw, "_" + last, ((hit_lab, hit_val), (go_lab, rest_val)))
            try:
                ns, val = build(0)
            except ValueError:
                fr.state = base_state
                return None
            self.branch = saved_branch
            nodes.extend(ns)
            lf.state[l] = ("arrayiter", it[1], len(it[1]))
            return val
        return None

    def _combinator(self, fr, base, args, hidden, site, nodes):
        """`x.map(f)`, `x.map_err(f)`, `x.and_then(f)`, `x.filter(f)` on an Option/Result whose variant is not known: modelled as
        the `match` they abbreviate - a switch on the discriminant with the closure spliced into the branch that calls it."""
        if not base or len(args) != 2:
            return None
        last = base.split("::")[-1]
        is_opt = base.startswith("core::option::Option::<")
        is_res = base.startswith("core::result::Result::<")
        if last not in ("map", "map_err", "and_then", "filter", "unwrap_or_else") or not (is_opt or is_res) or fr.depth >= self.max_depth:
            return None
        if last == "filter" and not is_opt or last == "map_err" and not is_res:
            return None
        x, fnv = args
        if x[0] == "agg":
            return None
        clos = [h for h in (hidden or []) if h in self.facts.fns]
        ctor = None
        if fnv[0] == "fn" and fnv[1] not in self.facts.fns and "::" in fnv[1]:
            # a tuple-variant constructor used as a function (`.map(Outcome::Draw)`)
            epath, vname = fnv[1].rsplit("::", 1)
            info = self.enum_info(epath)
            if info and any(v["name"] == vname and len(v.get("fields") or []) == 1 for v in info["variants"]):
                ctor = (epath, vname)
        if ctor is not None:
            if last != "map":
                return None
            d = self.simp(("discr", x))
            sw_id = (fr.fn.id, site.bi, fr.id, len(self.writes), "comb")
            OPT, RES = "core::option::Option", "core::result::Result"
            if is_opt:
                act_lab, pas_lab = (1,), (0,)
                act_val = ("agg", OPT, "Some", (("agg", ctor[0], ctor[1], (N(("downcast", x, "Some")),)),))
                pas_val = ("agg", OPT, "None", ())
            else:
                act_lab, pas_lab = (0,), (1,)
                act_val = ("agg", RES, "Ok", (("agg", ctor[0], ctor[1], (N(("downcast", x, "Ok")),)),))
                pas_val = ("agg", RES, "Err", (N(("downcast", x, "Err")),))
            nodes.append(("switch", d, {act_lab: [], pas_lab: []}, site, (0, 1), sw_id))
            return ("phi", sw_id, "_map", ((act_lab, act_val), (pas_lab, pas_val)))
        if fnv[0] == "fn" and fnv[1] in self.facts.fns:
            callee = self.facts.fns[fnv[1]]
            mk = lambda p: (p,)
        elif len(clos) == 1:
            callee = self.facts.fns[clos[0]]
            env = self._closure_env(callee, fnv)
            mk = lambda p: (env, p)
        else:
            return None
        OPT, RES = "core::option::Option", "core::result::Result"
        if last == "unwrap_or_else":
            # the closure runs on the empty / error variant; the other variant yields its payload
            if is_opt:
                act_lab, pas_lab = (0,), (1,)
                pas_val = N(("downcast", x, "Some"))
                carg = None
            else:
                act_lab, pas_lab = (1,), (0,)
                pas_val = N(("downcast", x, "Ok"))
                carg = N(("downcast", x, "Err"))
            d = self.simp(("discr", x))
            sw_id = (fr.fn.id, site.bi, fr.id, len(self.writes), "comb")
            base_state = dict(fr.state)
            saved_branch = self.branch
            fr.state = dict(base_state)
            self.branch = saved_branch + ((sw_id, act_lab),)
            cargs = mk(carg) if carg is not None else mk(None)[:-1]        # `|| ..` takes no argument besides the closure itself
            sub, cret = self._subtree(callee, cargs, fr.depth + 1)
            state_act = fr.state
            self.branch = saved_branch
            for wi in range(sw_id[3], len(self.writes)):
                self.writes[wi] = (self.writes[wi][0], saved_branch)
            if cret is None:
                fr.state = base_state
                return None
            self.spliced.add(callee.id)
            fr.state = self._merge_states(fr, base_state, [state_act, dict(base_state)], [act_lab, pas_lab], sw_id)
            nodes.append(("switch", d, {act_lab: [("inlined", callee.id, cargs, sub, site, cret)], pas_lab: []}, site, (0, 1), sw_id))
            return ("phi", sw_id, "_unwrap_or_else", ((act_lab, cret), (pas_lab, pas_val)))
        if is_opt:
            act_lab, pas_lab, act_v = (1,), (0,), "Some"
            pas_val = ("agg", OPT, "None", ())
        elif last == "map_err":
            act_lab, pas_lab, act_v = (1,), (0,), "Err"
            pas_val = ("agg", RES, "Ok", (N(("downcast", x, "Ok")),))
        else:
            act_lab, pas_lab, act_v = (0,), (1,), "Ok"
            pas_val = ("agg", RES, "Err", (N(("downcast", x, "Err")),))
        pay = N(("downcast", x, act_v))
        d = self.simp(("discr", x))
        sw_id = (fr.fn.id, site.bi, fr.id, len(self.writes), "comb")
        base_state = dict(fr.state)
        saved_branch = self.branch
        fr.state = dict(base_state)
        self.branch = saved_branch + ((sw_id, act_lab),)
        arg = ("ref", pay) if last == "filter" else pay
        sub, cret = self._subtree(callee, mk(arg), fr.depth + 1)
        state_act = fr.state
        self.branch = saved_branch
        for wi in range(sw_id[3], len(self.writes)):
            self.writes[wi] = (self.writes[wi][0], saved_branch)
        if cret is None:
            fr.state = base_state
            return None
        self.spliced.add(callee.id)
        act_nodes = [("inlined", callee.id, mk(arg), sub, site, cret)]
        if last == "map":
            act_val = ("agg", OPT if is_opt else RES, act_v, (cret,))
        elif last == "map_err":
            act_val = ("agg", RES, "Err", (cret,))
        elif last == "and_then":
            act_val = cret
        else:
            sw2 = sw_id[:4] + ("filter",)
            act_nodes.append(("switch", cret, {(0,): [], "else": []}, site, (0,), sw2))
            act_val = ("phi", sw2, "_keep", (((0,), ("agg", OPT, "None", ())), ("else", ("agg", OPT, "Some", (pay,)))))
        fr.state = self._merge_states(fr, base_state, [state_act, dict(base_state)], [act_lab, pas_lab], sw_id)
        nodes.append(("switch", d, {act_lab: act_nodes, pas_lab: []}, site, (0, 1), sw_id))
        return ("phi", sw_id, "_" + last, ((act_lab, act_val), (pas_lab, pas_val)))

    def _discr_domain(self, fr, place):
        """Set of discriminant values of the enum stored at `place` (None if unknown)."""
        ti = fr.body.locals[place["l"]]
        for el in place["p"]:
            if el[0] == "field":
                ti = el[4]
            elif el[0] == "deref":
                t = self.facts.types[ti]
                if t["k"] not in ("ref", "ptr"):
                    return None
                ti = t["to"]
            elif el[0] == "downcast":
                continue
            else:
                return None
        t = self.facts.types[ti]
        if t["k"] != "adt":
            return None
        a = self.facts.adts.get(t["key"])
        if not a or a["kind"] != "enum":
            return None
        vals = [v["discr"] for v in a["variants"]]
        if any(v is None for v in vals):
            return None
        return frozenset(vals)

    def _is_arrayiter_header(self, fr, b):
        t = fr.body.blocks[b]["term"]
        if t["k"] != "call":
            return False
        f = t["f"]
        base = f.get("base") or ""
        if not base.endswith("Iterator>::next") or not t["args"]:
            return False
        # evaluate the block's plain assignments on a scratch copy of the state to see what `next` receives
        saved = dict(fr.state)
        try:
            for st_ in fr.body.blocks[b]["stmts"]:
                if st_[0] == "assign" and not st_[1]["p"]:
                    fr.state[st_[1]["l"]] = self.ev_rvalue(fr, st_[2])
            a = self.ev_operand(fr, t["args"][0])
            return self._arrayiter_local(a) is not None
        finally:
            fr.state = saved

    def _arrayiter_local(self, a):
        """(frame, local) if `a` points to a local holding a literal-array iterator."""
        if a[0] == "ref" and a[1][0] == "local":
            lf = self.frames.get(a[1][1])
            if lf is not None:
                v = lf.state.get(a[1][2])
                if v is not None and v[0] == "arrayiter":
                    return lf, a[1][2]
        return None

    def _store_local(self, fr, pl, val):
        root = pl["l"]
        cur = fr.state.get(root)
        if cur is not None and cur[0] == "agg" and len(pl["p"]) == 1 and pl["p"][0][0] == "field":
            idx = pl["p"][0][1]
            if idx < len(cur[3]):
                fields = list(cur[3])
                fields[idx] = val
                fr.state[root] = ("agg", cur[1], cur[2], tuple(fields))
                return
        fr.state[root] = self._havoc(root, fr.body.names.get(root, "_%d" % root))

    def _call(self, fr, t, site, nodes):
        body = fr.body
        f = t["f"]
        name = callee_name(f) or "<indirect>"
        args = tuple(self.ev_operand(fr, a) for a in t["args"])
        if name == "<indirect>" and "ind" in f:
            # a call through a function pointer or closure value: the callee value is the first argument
            args = (self.ev_operand(fr, f["ind"]),) + args
        base = self.facts.fns[f["inst"]].def_path if "inst" in f else f.get("base")
        fn_target = None
        if name == "<indirect>" and args and args[0][0] == "fn" and args[0][1] in self.facts.fns:
            # a call through a function pointer whose value is a known function of the crate: a direct call
            fn_target = args[0][1]
            callee_fn = self.facts.fns[fn_target]
            name = base = callee_fn.def_path
            args = args[1:]
        if t["t"] is None:
            nodes.append(("panic", name, args, site))
            return None
        ret = None
        spliced = False
        veq = self._value_eq_call(name, args)
        if veq is None and "ext" in f:
            veq = self._array_ops(fr, base, args, f.get("hidden") or [], site, nodes)
        if veq is None and "ext" in f:
            veq = self._combinator(fr, base, args, f.get("hidden") or [], site, nodes)
        if veq is None:
            self._model_nodes = []
            veq = self._ext_model(base, args, fr.depth, f.get("hidden") or [])
            for mn in self._model_nodes:
                nodes.append(mn[:4] + (site,) + mn[5:])
            self._model_nodes = []
        if veq is None and name.startswith("<u") and "Assign>::" in name and len(args) == 2:
            opn = {"bitxor_assign": "BitXor", "bitor_assign": "BitOr", "bitand_assign": "BitAnd",
                   "add_assign": "Add", "sub_assign": "Sub"}.get(name.split("::")[-1])
            tgt = args[0]
            if opn in ("BitXor", "BitOr", "BitAnd"):
                place = tgt[1] if tgt[0] == "ref" else ("deref", tgt)
                cur = self.load(place)
                newv = self.simp(norm_bin(opn, cur, args[1]))
                self.store(place, newv, site, nodes)
                veq = ("zst", "()")
        if veq is None and base and len(args) >= 1 and args[0][0] == "ref" and (
                (base.startswith("core::option::Option::<") and base.split("::")[-1] == "take" and len(args) == 1)
                or (base.startswith("core::mem::replace") and len(args) == 2)):
            # `place.take()` / `mem::replace(&mut place, v)`: the old value is the result, the new one is stored
            place = args[0][1]
            if is_memory_place(place):
                cur = self.load(place)
                newv = args[1] if len(args) == 2 else ("agg", "core::option::Option", "None", ())
                self.store(place, newv, site, nodes)
                veq = cur
        if veq is None and base and "IntoIterator for [" in base and base.endswith("into_iter") and args \
                and args[0][0] == "agg" and args[0][1] == "array":
            veq = ("arrayiter", args[0][3], 0)
        if veq is None and base and base.endswith("Iterator>::next") and args:
            al = self._arrayiter_local(args[0])
            if al is not None:
                lf, l = al
                it = lf.state[l]
                if it[2] < len(it[1]):
                    veq = ("agg", "core::option::Option", "Some", (it[1][it[2]],))
                    lf.state[l] = ("arrayiter", it[1], it[2] + 1)
                else:
                    veq = ("agg", "core::option::Option", "None", ())
        if veq is not None:
            ret = veq
            spliced = True
        target = fn_target or f.get("inst") or (f.get("via") if "ext" in f else None)
        if not spliced and target and fr.depth < self.max_depth:
            callee = self.facts.fns[target]
            # a crate function given a known function as an argument is specialised (spliced) so the call through it resolves
            fnarg = "inst" in f and any(a[0] == "fn" and a[1] in self.facts.fns for a in args)
            if fnarg or self.inline_pred(callee):
                sub, ret = self._subtree(callee, args, fr.depth + 1)
                if ret is None:
                    ret = ("callret", name, args)
                nodes.append(("inlined", callee.id, args, sub, site, ret))
                spliced = True
        if not spliced:
            ret = self.simp(N(norm_call(name, base, args)))
            mutargs = [i for i, a in enumerate(t["args"]) if self._is_mut_ref(body, a)]
            if mutargs and ret[0] == "call" and len(ret) == 3 and not (base and base.split("::")[-1] in NO_WRITE_EXT):
                # a call that may change what its `&mut` argument points to: two such calls with the same argument
                # expressions are different values (`iter.next()` twice)
                self._callseq += 1
                ret = ret + (("seq", self._callseq),)
            nodes.append(("call", name, base, args, site, {"mutargs": mutargs, "hidden": f.get("hidden", []), "ret": ret,
                                                              "destl": ("local", fr.id, t["dest"]["l"]) if not t["dest"]["p"] else None}))
            if mutargs and not (base and base.split("::")[-1] in NO_WRITE_EXT):
                for i in mutargs:
                    a = args[i]
                    tgt = a[1] if a[0] == "ref" else ("deref", a)
                    if _root(tgt)[0] == "local":
                        lf = self.frames.get(_root(tgt)[1])
                        if lf is not None:
                            lf.state[_root(tgt)[2]] = self._havoc(_root(tgt)[2], lf.body.names.get(_root(tgt)[2], "?"))
                    else:
                        self.record_write(tgt)
        d = t["dest"]
        self.note_type(ret, self.place_type(fr, d))
        if not d["p"]:
            fr.state[d["l"]] = ret
        else:
            tgt = self.ev_place(fr, d, as_place=True)
            if _root(tgt)[0] == "local" or is_memory_place(tgt):
                self.store(tgt, ret, site, nodes)
            else:
                self._store_local(fr, d, ret)
        return t["t"]

    def _ext_model(self, base, args, depth, hidden=()):
        """Constructor-level models of a few std combinators, applied only when the argument is a
        literally known variant (aggregate); otherwise None (the call stays an opaque event)."""
        if not base or not args:
            return None
        a0 = args[0]

        def variant(e):
            return e[2] if isinstance(e, tuple) and e and e[0] == "agg" and e[1] in (
                "core::option::Option", "core::result::Result") else None
        v = variant(a0)
        last = base.split("::")[-1]
        OPT, RES, CF = "core::option::Option", "core::result::Result", "core::ops::control_flow::ControlFlow"
        if last == "from_residual":
            if base.startswith("<core::result::Result<"):
                return ("agg", RES, "Err", (("residual", a0),))
            if base.startswith("<core::option::Option<"):
                return ("agg", OPT, "None", ())
        if v is None:
            return None
        if base.startswith("core::result::Result::<") and last == "ok":
            return ("agg", OPT, "Some", a0[3]) if v == "Ok" else ("agg", OPT, "None", ())
        if last in ("unwrap", "expect") and v in ("Some", "Ok"):
            return a0[3][0]
        if last == "unwrap_or" and len(args) == 2:
            return a0[3][0] if v in ("Some", "Ok") else args[1]
        if last == "unwrap_or_else" and len(args) == 2:
            if v in ("Some", "Ok"):
                return a0[3][0]
            clos = [h for h in hidden if h in self.facts.fns]
            if len(clos) == 1 and depth < self.max_depth:
                sub, ret = self._subtree(self.facts.fns[clos[0]], (args[1],), depth + 1)
                if ret is not None and not any(n[0] in ("store",) for n, _c, _i in walk_tree(sub)):
                    # keep the closure's subtree in the event list: its switches decide the phi values of `ret`
                    self._model_nodes.append(("inlined", clos[0], (args[1],), sub, None, ret))
                    self.spliced.add(clos[0])
                    return ret
        if last == "branch" and "Try" in base:
            if v in ("Some", "Ok"):
                return ("agg", CF, "Continue", a0[3])
            if v == "None":
                return ("agg", CF, "Break", (("agg", OPT, "None", ()),))
            return ("agg", CF, "Break", (("agg", RES, "Err", a0[3]),))
        if last == "is_some":
            return ("const", 1 if v == "Some" else 0, "bool")
        if last == "is_none":
            return ("const", 1 if v == "None" else 0, "bool")
        if last == "is_ok":
            return ("const", 1 if v == "Ok" else 0, "bool")
        if last == "is_err":
            return ("const", 1 if v == "Err" else 0, "bool")
        if last == "ok_or" and len(args) == 2:
            return ("agg", RES, "Ok", a0[3]) if v == "Some" else ("agg", RES, "Err", (args[1],))
        if last == "map" and len(args) == 2 and base.startswith("core::option::Option::<"):
            if v == "None":
                return ("agg", OPT, "None", ())
            fn = args[1]
            if fn[0] == "fn" and fn[1] in self.facts.fns and depth < self.max_depth:
                sub, ret = self._subtree(self.facts.fns[fn[1]], (a0[3][0],), depth + 1)
                if ret is not None and not any(n[0] in ("store", "call", "panic") for n, _c, _i in walk_tree(sub)):
                    return ("agg", OPT, "Some", (ret,))
        return None

    def value_eq_types(self):
        if self._value_eq is None:
            vt = set(NEWTYPES_EQ)
            for key, a in self.facts.adts.items():
                if a and a["kind"] == "enum" and a["variants"] and all(not v["fields"] for v in a["variants"]):
                    vt.add(a["path"])
            self._value_eq = vt
        return self._value_eq

    def _value_eq_call(self, name, args):
        """`<T as PartialEq>::eq/ne(&a, &b)` on newtypes and fieldless enums is value (in)equality."""
        for suffix, op in ((" as core::cmp::PartialEq>::eq", "Eq"), (" as core::cmp::PartialEq>::ne", "Ne")):
            if name.endswith(suffix) and name.startswith("<") and len(args) == 2:
                t = name[1:-len(suffix)]
                if t.startswith("core::option::Option<") and t.endswith(">") and t[len("core::option::Option<"):-1] in self.value_eq_types():
                    t = t[len("core::option::Option<"):-1]
                if t in self.value_eq_types():
                    vals = []
                    for a in args:
                        if a[0] == "ref":
                            vals.append(self.load(a[1]))
                        else:
                            vals.append(self.load(("deref", a)))
                    return self.simp(norm_bin(op, vals[0], vals[1]))
        return None

    def _is_mut_ref(self, body, o):
        p = o.get("c") or o.get("m")
        if p is None or p["p"]:
            return False
        t = body.local_ty(p["l"])
        return t["k"] in ("ref", "ptr") and t["mut"]


def _root(e):
    while isinstance(e, tuple) and e and e[0] in ("field", "index", "downcast", "tbl", "proj"):
        e = e[1]
    return e if isinstance(e, tuple) and e else ("?",)


def _diverges(nodes):
    if not nodes:
        return False
    last = nodes[-1]
    return last[0] in ("panic", "unreachable", "ret", "backedge")


def unstamp(e):
    """Remove memory-version stamps (for rules that do not care about time)."""
    if not isinstance(e, tuple) or not e:
        return e
    if e[0] == "ld":
        return unstamp(e[2])
    out = []
    for x in e:
        if isinstance(x, tuple):
            if x and isinstance(x[0], str):
                out.append(unstamp(x))
            else:
                out.append(tuple(unstamp(y) for y in x))
        else:
            out.append(x)
    return tuple(out)


# ---------------------------------------------------------------------- walking

def walk_tree(nodes, conds=(), inl=()):
    """Yield (node, conds, inl) for every event in program order. conds = tuple of
    (discr_expr, label, case_vals) of the enclosing switches; inl = tuple of spliced callee ids."""
    for n in nodes:
        k = n[0]
        if k == "switch":
            yield n, conds, inl
            for lab, sub in n[2].items():
                yield from walk_tree(sub, conds + ((n[1], lab, n[4]),), inl)
        elif k == "inlined":
            yield n, conds, inl
            yield from walk_tree(n[3], conds, inl + (n[1],))
        else:
            yield n, conds, inl


def show_tree(nodes, show, indent=0, out=None, hide_pure=True):
    import sys
    out = out or sys.stdout
    pad = "  " * indent
    for n in nodes:
        k = n[0]
        if k == "store":
            out.write("%s%s := %s\n" % (pad, show(n[1]), show(n[2])))
        elif k == "call":
            out.write("%scall %s(%s)%s\n" % (pad, n[1], ", ".join(show(a) for a in n[3]),
                                            " mut%s" % n[5]["mutargs"] if n[5]["mutargs"] else ""))
        elif k == "inlined":
            if hide_pure and not any(x[0][0] in ("store", "call", "panic", "assert", "switch") for x in walk_tree(n[3])):
                continue
            out.write("%sinlined %s(%s) {\n" % (pad, n[1], ", ".join(show(a) for a in n[2])))
            show_tree(n[3], show, indent + 1, out, hide_pure)
            out.write("%s}\n" % pad)
        elif k == "switch":
            out.write("%sswitch %s {\n" % (pad, show(n[1])))
            for lab, sub in n[2].items():
                out.write("%s case %s:\n" % (pad, lab))
                show_tree(sub, show, indent + 2, out, hide_pure)
            out.write("%s}\n" % pad)
        elif k == "assert":
            out.write("%sassert[%s] %s == %s\n" % (pad, n[1], show(n[2]), n[3]))
        elif k == "panic":
            out.write("%sPANIC %s(%s)\n" % (pad, n[1], ", ".join(show(a) for a in n[2])))
        elif k == "lstore":
            out.write("%s%s@ := %s\n" % (pad, n[3], show(n[4])))
        elif k == "ret":
            out.write("%sret %s\n" % (pad, show(n[1])))
        else:
            out.write("%s%s\n" % (pad, k))


# ---------------------------------------------------------------------- paths through a tree

def tree_paths(nodes, limit=20000):
    """All root-to-leaf paths of an effect tree. Yields (events, choices): events = flat list of
    non-switch nodes in order (spliced callees flattened, with an ("enter", id)/("leave", id) pair around
    them), choices = {switch_id: label}. A path ends at the first ret/panic/unreachable/backedge of the
    *outermost* function; a `ret` inside a spliced callee only leaves that callee."""
    out = []

    def rec(seq, i, events, choices, depth, cont):
        # seq: node list being walked, i: index, cont: continuation (list of (seq, index, depth)) after seq ends
        while True:
            if i >= len(seq):
                if not cont:
                    out.append((events, choices))
                    return
                (seq, i, depth), cont = cont[0], cont[1:]
                continue
            n = seq[i]
            k = n[0]
            if k == "switch":
                dv = path_value(n[1], choices)
                forced = None
                if dv[0] == "const":
                    forced = "else"
                    for lab in n[2]:
                        if lab != "else" and dv[1] in lab:
                            forced = lab
                prior = choices.get(("known", dv)) if dv[0] != "const" else None
                for lab, sub in n[2].items():
                    if forced is not None and lab != forced:
                        continue
                    # the same expression (same memory versions) was already tested on this path: stay consistent
                    newk = _constrain(prior, lab, n[4])
                    if newk is None:
                        continue
                    ch = dict(choices)
                    ch[("known", dv)] = newk
                    ch[n[5]] = lab
                    rec(sub, 0, list(events) + [("branch", n[1], lab, n[3], n[4])], ch, depth,
                        [(seq, i + 1, depth)] + cont)
                    if len(out) > limit:
                        raise RuntimeError("too many paths")
                return
            if k == "inlined":
                events = events + [("enter", n[1], n[2], n[4])]
                rec(n[3], 0, events, choices, depth + 1, [([("leave", n[1], n[5] if len(n) > 5 else None)], 0, depth)] +
                    [(seq, i + 1, depth)] + cont)
                return
            events = events + [n]
            if k in ("panic", "unreachable", "backedge"):
                out.append((events, choices))
                return
            if k == "ret":
                if depth == 0:
                    out.append((events, choices))
                    return
                # return from a spliced callee: skip the rest of the callee body, continue with the caller
                if not cont:
                    out.append((events, choices))
                    return
                (seq, i, depth), cont = cont[0], cont[1:]
                continue
            i += 1

    rec(nodes, 0, [], {}, 0, [])
    return out


def _constrain(prior, lab, case_vals):
    """Combine what is known about a tested value with taking branch `lab`; None if infeasible.
    Knowledge is ("in", frozenset) or ("notin", frozenset)."""
    if lab == "else":
        new = ("notin", frozenset(case_vals))
    else:
        new = ("in", frozenset(lab))
    if prior is None:
        return new
    pk, ps = prior
    nk, ns = new
    if pk == "in" and nk == "in":
        r = ps & ns
        return ("in", r) if r else None
    if pk == "in" and nk == "notin":
        r = ps - ns
        return ("in", r) if r else None
    if pk == "notin" and nk == "in":
        r = ns - ps
        return ("in", r) if r else None
    return ("notin", ps | ns)


def resolve_phi(e, choices):
    """Replace phi nodes by the value of the branch taken on this path."""
    if not isinstance(e, tuple) or not e:
        return e
    if e[0] == "phi":
        lab = choices.get(e[1])
        for l, v in e[3]:
            if l == lab:
                return resolve_phi(v, choices)
        return e
    out = []
    for x in e:
        if isinstance(x, tuple):
            if x and isinstance(x[0], str):
                out.append(resolve_phi(x, choices))
            else:
                out.append(tuple(resolve_phi(y, choices) if isinstance(y, tuple) else y for y in x))
        else:
            out.append(x)
    return tuple(out)


# ---------------------------------------------------------------------- path-time simplification

_VARIANT_DISCR = {"None": 0, "Some": 1, "Ok": 0, "Err": 1, "Continue": 0, "Break": 1}
_OPT, _RES, _CF = "core::option::Option", "core::result::Result", "core::ops::control_flow::ControlFlow"


def simplify_variants(e):
    """After phi resolution a value may have become a literal Ok/Err/Some/None: push the std combinators
    (`?`, map_err, ok, unwrap...) through it. Pure rewriting on expression trees."""
    if not isinstance(e, tuple) or not e:
        return e
    k = e[0]
    if k == "call":
        args = tuple(simplify_variants(a) for a in e[2])
        name = e[1]
        a0 = args[0] if args else None
        lit = a0 is not None and a0[0] == "agg" and a0[1] in (_OPT, _RES)
        v = a0[2] if lit else None
        last = name.split("::")[-1].split("<")[0]
        if lit:
            if name.endswith("Try>::branch"):
                if v in ("Some", "Ok"):
                    return ("agg", _CF, "Continue", a0[3])
                return ("agg", _CF, "Break", (a0,))
            if last == "map_err" or "::map_err::" in name:
                if v == "Ok":
                    return a0
                return ("agg", _RES, "Err", (("mapped", args[1] if len(args) > 1 else None, a0[3]),))
            if last == "map" or "::map::" in name:
                if v in ("Err", "None"):
                    return a0
            if last == "ok":
                return ("agg", _OPT, "Some", a0[3]) if v == "Ok" else ("agg", _OPT, "None", ())
            if last in ("unwrap", "expect") and v in ("Some", "Ok"):
                return a0[3][0]
            if last == "unwrap_or" and len(args) == 2:
                return a0[3][0] if v in ("Some", "Ok") else args[1]
            if last == "is_err":
                return ("const", 1 if v == "Err" else 0, "bool")
            if last == "is_ok":
                return ("const", 1 if v == "Ok" else 0, "bool")
            if last == "is_some":
                return ("const", 1 if v == "Some" else 0, "bool")
            if last == "is_none":
                return ("const", 1 if v == "None" else 0, "bool")
        return ("call", name, args) + tuple(e[3:])
    if k == "discr":
        inner = simplify_variants(e[1])
        if inner[0] == "agg" and inner[1] in (_OPT, _RES, _CF) and inner[2] in _VARIANT_DISCR:
            return ("const", _VARIANT_DISCR[inner[2]], "isize")
        return ("discr", inner)
    if k == "field":
        base = simplify_variants(e[1])
        if base[0] == "downcast" and base[1][0] == "agg" and base[1][2] == base[2] and e[2] in ("0", "#0") and base[1][3]:
            return base[1][3][0]
        return ("field", base) + tuple(e[2:])
    if k == "downcast":
        inner = simplify_variants(e[1])
        if inner[0] == "agg" and inner[1] in (_OPT, _RES, _CF) and inner[2] == e[2] and len(inner[3]) == 1:
            # N() has already dropped the `.0`: a downcast of a literal single-payload variant is its payload
            return inner[3][0]
        return ("downcast", inner, e[2])
    out = [k]
    for x in e[1:]:
        if isinstance(x, tuple):
            if x and isinstance(x[0], str):
                out.append(simplify_variants(x))
            else:
                out.append(tuple(simplify_variants(y) if isinstance(y, tuple) else y for y in x))
        else:
            out.append(x)
    return tuple(out)


def path_value(e, choices):
    return simplify_variants(resolve_phi(e, choices))
