"""Helpers shared by several property modules."""
from . import makeunmake


def sim_rules(ctx, facts, spec):
    """spec: rule id -> (description, categories, key prefix). Turns make/unmake findings into rule instances."""
    findings, stats = makeunmake.analyse(facts)
    for rid, (desc, cats, prefix) in spec.items():
        r = ctx.rule(rid, desc)
        mine = [f for f in findings if f.cat in cats and (f.key.startswith(prefix) or f.key.startswith("ANCHOR"))]
        bad_cases = set()
        seen = set()
        for f in mine:
            if f.key in seen:
                continue
            seen.add(f.key)
            r.fail(f.key, f.msg, site=f.site)
            bad_cases.add(f.key.split("/")[1] + "/" + "/".join(f.key.split("/")[2:4]) if "/" in f.key else f.key)
        # every analysed case that raised nothing in these categories is one passed instance
        n_ok = max(stats["cases"] - len(bad_cases), 0)
        for s in stats["samples"]:
            if s["case"].startswith(prefix.rstrip("/")) or prefix == "":
                r.ok(s["case"], s["events"])
                n_ok -= 1
        for i in range(max(n_ok, 0)):
            r.examined += 1
            r.passed += 1
            r.auto += 1
        r.note("abstract cases analysed: %d, final abstract states: %d, effect trees: %d" % (stats["cases"], stats["states"], stats["trees"]))
        r.floor(stats["cases"], 100, "make/unmake abstract cases (2 colours x 10 kinds x sub-cases)")
    ctx.extra["abstract_cases"] = stats["cases"]
    ctx.extra["abstract_states"] = stats["states"]
