"""C11 - validation accepts exactly the valid raw boards and normalises them consistently."""
from . import shared
from . import validaterules, hashrules


def run(ctx):
    facts = ctx.facts("dev")
    ctx.decided += [
        "V1 TryFrom<RawBoard> evaluated on every abstract input (en-passant mark present / rank wrong, men per side in {1,16,17}, kings per "
        "side in {0,1,2}, pawn on a back rank, opponent king attacked): Ok exactly when no validity condition is violated, and every "
        "reported reason is one that holds",
        "V2 write set on the raw board = {ep_source, castling}; castling rights dropped under exactly the 8 documented (colour, side, home "
        "man, home square) conditions; en-passant mark reset iff no enemy pawn on it or the square behind occupied",
        "V3 occupancy sets built from the cells in the loop; hash = from-scratch hash of the normalised raw board (C05/H6)",
    ]
    ctx.not_decided += ["the arithmetic inside the occupancy loop is checked for wiring, not evaluated; idempotence of validation follows "
                        "from V2 (the reset conditions depend only on cells and the already-normalised fields) and is not checked separately"]
    validaterules.errors_rule(ctx, facts, "V1")
    validaterules.normalise_rule(ctx, facts, "V2")
    validaterules.occupancy_loop_rule(ctx, facts, "V3")
    hashrules.from_scratch_rule(ctx, facts, "V3h")
    shared.attack_component(ctx, facts, "V4", "the OpponentKingAttacked condition is do_is_cell_attacked on the opponent king")
