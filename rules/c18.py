"""C18 - White and Black, and left and right, are treated symmetrically (premises only)."""
from . import symrules, emitrules, genrules, attackrules
from .c20 import ctfe_rule


def run(ctx):
    facts = ctx.facts("dev")
    ctx.decided += [
        "Y5/Y6 the generator and the validator of both colour instances equal one reference that is written once and is itself "
        "symmetric under the colour flip and the left-right mirror (rules/genrules.py _ref_semilegal, wf_ref): so the semilegal move "
        "sets of mirrored positions are mirror images (C06/G6, G7 re-run)",
        "Y7 the legality filter over those semilegal moves is the symmetric reference as well: the pinned set is the set formula over all "
        "pinners of both geometries (no dependence on square order), the pin shortcut and the after-move king test are the ones of "
        "C01/N2-N4 (re-run) - so no legal move is kept or dropped in one position and not in its mirror image",
        "Y1 every per-colour geometry constant of Black is the mirror of White's and anchored to the rules (compile-time witness); pawn "
        "attack tables are rank mirrors, all near-attack tables are file-symmetric; pawns::advance_* tabulated: Black = mirror of White, "
        "left = file mirror of right",
        "Y2 every colour dispatcher maps White to the White instance and Black to the Black instance of the same function (unmake inverted by design)",
        "Y3 every run-time colour branch inside the position logic is a checked mirror pair or reviewed bookkeeping; a new one is reported",
        "Y4 DIAG is indexed only by diag(), ANTIDIAG only by antidiag()",
    ]
    ctx.not_decided += ["the behavioural conclusion (mirrored positions have mirrored legal moves and outcomes): Y1-Y4 are its premises; "
                        "generic code is colour-parametric by construction (C::COLOR), which together with the premises gives the conclusion "
                        "only informally"]
    ctfe_rule(ctx, "Y1c", "C18")
    symrules.data_rule(ctx, facts, "Y1")
    symrules.dispatch_rule(ctx, facts, "Y2")
    symrules.inventory_rule(ctx, facts, "Y3")
    symrules.diag_index_rule(ctx, facts, "Y4")
    emitrules.emitter_rule(ctx, facts, "Y5")
    genrules.semilegal_rule(ctx, facts, "Y6", thorough=True)
    attackrules.prechecker_rule(ctx, facts, "Y7p")
    attackrules.pinned_rule(ctx, facts, "Y7")
    attackrules.checker_rule(ctx, facts, "Y7c")
    ctx.decided.append(
        "Y8 the outcome of mirrored positions: calc_outcome has no colour- or file-dependent input other than the winner (= opponent of the "
        "side to move), and is_insufficient_material treats the two square colours alike - both mirrors exchange light and dark squares, so a "
        "rule that holds for bishops on one square colour only would classify a position and its mirror image differently (= C07/O1, O2 re-run)")
    from . import outcomerules
    outcomerules.calc_outcome_rule(ctx, facts, "Y8o")
    outcomerules.insufficient_rule(ctx, facts, "Y8")
