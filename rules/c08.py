"""C08 - FEN formatting and FEN parsing are mutually inverse (the writer and the reader as transition systems)."""
from . import fenrules
from . import valuerules, validaterules


def run(ctx):
    facts = ctx.facts("dev")
    ctx.decided += [
        "F3 format_cells, read as a transition system (locations: loop heads; inputs: the cell at the square being read, all 13 values at "
        "every step; states merged), is bisimilar to the reference piece-placement writer: squares in the order a8..h1, each read once; a "
        "run of empty squares becomes one digit 1-8, flushed before a piece letter and at the end of a rank; '/' between ranks; the piece "
        "letter is Cell's Display (tabulated through Cell::as_char)",
        "F4 parse_cells likewise is bisimilar to the reference reader over all reachable (file, rank, position) states and all 256 byte "
        "values plus end-of-text at every step: a digit d skips d squares and never crosses the rank end, '/' is accepted only after exactly "
        "8 squares and at most 7 times, any other byte is stored as Cell::from_char(byte) at 8*rank+file or refused, the end is accepted "
        "exactly after 8 complete ranks; the array starts as 64 empty cells and is the one returned",
        "F34 the two references are inverse to each other on all 256 occupancy patterns of a rank (first, middle, last rank): so "
        "parse_cells(format_cells(cells)) = cells for every array of 64 cells, given that Cell::from_char inverts Cell::as_char (C20/E2c, re-run as F5)",
        "F1 the other five fields, end to end: for both sides to move x all 16 castling-rights values x {no mark, a mark on each file of the "
        "rank appropriate to the side}, the model of Display for RawBoard writes `<placement> <w|b> <subset of KQkq in this order, or -> "
        "<target square behind the pawn, or -> <halfmove> <fullmove>` - one space between fields, letters as CastlingRights::has and the "
        "rules define them - and the model of FromStr for RawBoard, fed exactly that text, returns Ok with the same side, rights, mark and "
        "the two counters in their places (288 combinations; integer formatting/parsing and str::split are std's)",
        "F2 Display for Board writes exactly Display of its raw board; Board::from_str is RawBoard::from_str on the whole text followed by "
        "validation, which reproduces a valid position identically (C11/V2, C05/H6)",
    ]
    ctx.not_decided += [
        "u16 Display/FromStr and str::split are trusted as documented (std); that an *independent* FEN reader agrees is decided only "
        "through the reference writer being the FEN grammar as this project transcribed it; parse-format-parse stability for accepted "
        "non-canonical texts (e.g. '.' for an empty square, missing counters, rights in another order) follows from F1/F3/F4 only for the "
        "placement and field values, not for inputs FromStr accepts beyond what Display writes",
    ]
    ctx.assume("std: u16's Display and FromStr are inverse; str::split(' ') yields the maximal space-free pieces in order")
    fenrules.writer_rule(ctx, facts, "F3")
    fenrules.reader_rule(ctx, facts, "F4")
    fenrules.fields_rule(ctx, facts, "F1", ctx.tier == "thorough")
    fenrules.wrapper_rule(ctx, facts, "F2")
    valuerules.char_tables_rule(ctx, facts, "F5")
    ctx.decided.append("F6/F6n (component: validation) Board::from_fen validates what RawBoard::from_fen read: validation accepts exactly the valid "
                       "raw boards and changes only a mark or rights that a valid position cannot carry (= C11/V1, V2 re-run) - so a valid "
                       "position's own text is read back as itself")
    validaterules.errors_rule(ctx, facts, "F6")
    validaterules.normalise_rule(ctx, facts, "F6n")
