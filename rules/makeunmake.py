"""Make / unmake analysis shared by C03, C04, C05 (see boardsim.py for the abstract domain).

For both colours and all ten move kinds the effect tree of do_make_move::<C> / do_unmake_move::<C>
is built with the kind as a literal and interpreted on the abstract board for every case the rules
distinguish (quiet / capture, pawn / piece, en-passant mark present or not). Findings are tagged:

  cells      final square contents differ from what the rules prescribe               (C03, C04)
  fields     side / en-passant mark / counters / castling rights                      (C03, C04)
  castling   update_castling obligations                                              (C03)
  counter    overflow-capable counter arithmetic                                      (C03)
  hash       XOR-ed key multiset differs from zobrist(post) ^ zobrist(pre)            (C05)
  occupancy  colour / piece / combined sets differ from the squares                   (C05)
  undo       RawUndo does not capture the pre-state / unmake does not restore it      (C04)
  unmodelled something the abstract interpreter could not follow (fail closed)        (all)
"""
from .boardsim import (Sim, State, Tables, make_cases, mv_expr, expected_hash, member, cell, cell_color, toggle,
                       S, D, KINDS, PROMOTE, PAWN, WHITE, BLACK, UNDO_PATH, SimError)
from .fx import FxBuilder, unstamp, walk_tree
from .expr import show

MAKE = "owlchess::moves::base::do_make_move"
UNMAKE = "owlchess::moves::base::do_unmake_move"
GENERIC = {WHITE: "owlchess::generic::White", BLACK: "owlchess::generic::Black"}
STOP = ("owlchess::moves::base::update_castling",)
B = ("param", 1, "b")

_cache = {}


class Finding:
    def __init__(self, cat, key, msg, site=None):
        self.cat = cat
        self.key = key
        self.msg = msg
        self.site = site

    def __repr__(self):
        return "<%s %s: %s>" % (self.cat, self.key, self.msg)


def analyse(facts):
    """Returns (findings, stats). Cached per fact file."""
    k = facts.path
    if k not in _cache:
        _cache[k] = _analyse(facts)
    return _cache[k]


def undo_fields(facts):
    a = facts.adts.get(UNDO_PATH)
    if not a:
        return None
    return [f["name"] for f in a["variants"][0]["fields"]]


def _oracle_factory(case, ep_set, C, direction):
    pawnC = cell(C, PAWN)

    def ident(e, st, sim):
        """Resolve an operand of a comparison to a cell id, or None."""
        try:
            return sim.cell_id(e, st)
        except SimError:
            return None

    def eq_ids(a, b):
        """True / False / None for equality of two cell ids under the case assumptions."""
        if a == b:
            return True
        if isinstance(a, int) and isinstance(b, int):
            return False
        for x, y in ((a, b), (b, a)):
            if x == "sc" and isinstance(y, int):
                # `sc` stands for a non-pawn man of the mover
                if y == 0 or y == pawnC or cell_color(y, C) != C:
                    return False
                return None
            if x == "dc" and isinstance(y, int):
                # `dc` stands for a man of the opponent
                if y == 0 or cell_color(y, C) == C:
                    return False
                return None
        if {a, b} == {"sc", "dc"}:
            return False
        return None

    def id_range(x):
        """Values a cell id can stand for under the case assumptions."""
        if isinstance(x, int):
            return (x, x)
        lo = 1 if C == WHITE else 7
        if x == "sc":
            return (lo + 1, lo + 5)          # a non-pawn man of the mover
        if x == "dc":
            olo = 7 if C == WHITE else 1
            return (olo, olo + 5)            # a man of the opponent
        return None

    def oracle(d, st, sim):
        u = unstamp(d)
        if d[0] == "un" and d[1] == "Not":
            v = oracle(d[2], st, sim)
            return None if v is None else 1 - v
        if d[0] == "bin" and d[1] in ("Lt", "Le", "Gt", "Ge"):
            ra = id_range(ident(d[2], st, sim)) if d[2][0] != "const" else (d[2][1], d[2][1])
            rb = id_range(ident(d[3], st, sim)) if d[3][0] != "const" else (d[3][1], d[3][1])
            if ra is None or rb is None:
                return None
            op = d[1]
            always = {"Lt": ra[1] < rb[0], "Le": ra[1] <= rb[0], "Gt": ra[0] > rb[1], "Ge": ra[0] >= rb[1]}[op]
            never = {"Lt": ra[0] >= rb[1], "Le": ra[0] > rb[1], "Gt": ra[1] <= rb[0], "Ge": ra[1] < rb[0]}[op]
            if always:
                return 1
            if never:
                return 0
            return None
        if u[0] == "discr" and u[1][0] == "field" and u[1][2] == "ep_source":
            if d[1][0] == "ld" and d[1][1] == 0 and direction == "make":
                return 1 if ep_set else 0
            return None
        if d[0] == "bin" and d[1] in ("Eq", "Ne"):
            a = ident(d[2], st, sim)
            b = ident(d[3], st, sim)
            if a is None or b is None:
                return None
            r = eq_ids(a, b)
            if r is None:
                return None
            if d[1] == "Ne":
                r = not r
            return 1 if r else 0
        return None

    return oracle


def _analyse(facts):
    findings = []
    stats = {"cases": 0, "states": 0, "kinds": 0, "trees": 0, "samples": []}
    t = Tables(facts)
    names = undo_fields(facts)
    if names is None:
        findings.append(Finding("undo", "ANCHOR-MISSING RawUndo", "ANCHOR-MISSING %s" % UNDO_PATH))
        return findings, stats
    for C in (WHITE, BLACK):
        mk = facts.fns.get("%s::<%s>" % (MAKE, GENERIC[C]))
        um = facts.fns.get("%s::<%s>" % (UNMAKE, GENERIC[C]))
        if mk is None or um is None:
            findings.append(Finding("unmodelled", "ANCHOR-MISSING do_make_move/do_unmake_move",
                                    "ANCHOR-MISSING %s / %s for colour %d" % (MAKE, UNMAKE, C)))
            continue
        for kind in sorted(KINDS):
            stats["kinds"] += 1
            for case in make_cases(C, kind):
                for ep_set in (False, True):
                    stats["cases"] += 1
                    tag = "%s/%s/%s%s" % ("WB"[C], KINDS[kind], case["name"], "/ep" if ep_set else "")
                    _one_make(facts, t, mk, C, kind, case, ep_set, tag, findings, stats, names)
                stats["cases"] += 1
                tag = "%s/%s/%s" % ("WB"[C], KINDS[kind], case["name"])
                _one_unmake(facts, t, um, C, kind, case, tag, findings, stats, names)
    return findings, stats


def _tree(facts, fn, env):
    fb = FxBuilder(facts, stop=STOP)
    return fb.tree(fn, env=env)


def _final_states(sim, tree, st):
    outs = sim.run(tree, st)
    return outs


def _check_cells(st, post, tag, cat_prefix, findings, direction):
    for s, want in post.items():
        got = st.cells.get(s)
        if got != want:
            findings.append(Finding("cells", "%s/%s/cell" % (direction, tag),
                                    "%s %s: square %s ends as cell %r, the rules prescribe %r" % (direction, tag, _sqn(s), got, want)))
    for s in st.cells:
        if s not in post:
            findings.append(Finding("cells", "%s/%s/extra-square" % (direction, tag),
                                    "%s %s: writes square %s which this move kind does not involve" % (direction, tag, _sqn(s))))


def _check_bb(st, C, pre, post, tag, findings, direction):
    names = {"white", "black"}
    for c in list(pre.values()) + list(post.values()):
        if c != 0:
            names.add(("pieces", c))
    names |= set(st.bb_ids)
    for name in sorted(names, key=str):
        for s in post:
            before = member(name, pre[s], C)
            after = st.bb.get((name, s), before)
            want = member(name, post[s], C)
            if isinstance(name, tuple) and name[1] == 0:
                want = False
            if after != want:
                findings.append(Finding("occupancy", "%s/%s/%s" % (direction, tag, _bbn(name)),
                                        "%s %s: after the move square %s is %s the set %s, but holds cell %r"
                                        % (direction, tag, _sqn(s), "in" if after else "not in", _bbn(name), post[s])))
    # `all` must be recomputed after the last colour-set update
    if st.all_store is None:
        findings.append(Finding("occupancy", "%s/%s/all" % (direction, tag), "%s %s: combined set `all` is not recomputed" % (direction, tag)))
    else:
        val, pos = st.all_store
        u = unstamp(val)
        ok = u[0] == "bin" and u[1] == "BitOr" and {show(u[2]), show(u[3])} == {"*b.white", "*b.black"}
        later = [o for o in st.order[pos + 1:] if o[0] == "bb" and o[1] in ("white", "black")]
        if not ok or later:
            findings.append(Finding("occupancy", "%s/%s/all" % (direction, tag),
                                    "%s %s: `all` is not white|black computed after the last colour-set update (%s)"
                                    % (direction, tag, show(val))))


def _sqn(s):
    if isinstance(s, int):
        return "abcdefgh"[s & 7] + str(8 - (s >> 3))
    if s == S:
        return "src"
    if s == D:
        return "dst"
    if isinstance(s, tuple) and s[0] == "off":
        return "%s%+d" % (_sqn(s[1]), s[2])
    return str(s)


def _bbn(n):
    return n if isinstance(n, str) else "pieces[%s]" % (n[1],)


def _mask_of_and_chain(e, base_pred):
    """value = ((base & c1) & c2 ...) -> combined constant mask, or None."""
    mask = 0xff
    while True:
        if base_pred(e):
            return mask
        if e[0] == "bin" and e[1] == "BitAnd":
            a, b = e[2], e[3]
            if a[0] == "const":
                mask &= a[1]
                e = b
                continue
            if b[0] == "const":
                mask &= b[1]
                e = a
                continue
        return None


def _one_make(facts, t, fn, C, kind, case, ep_set, tag, findings, stats, undo_names):
    pre, post = case["pre"], case["post"]
    env = [B, mv_expr(kind, case)]
    try:
        tree = _tree(facts, fn, env)
    except Exception as e:  # fail closed
        findings.append(Finding("unmodelled", "make/%s/tree" % tag, "make %s: cannot build effect tree: %r" % (tag, e)))
        return
    stats["trees"] += 1
    sim = Sim(facts, t, C, _oracle_factory(case, ep_set, C, "make"))
    st0 = State(C, pre)
    finals = _final_states(sim, tree, st0)
    if len(stats["samples"]) < 4:
        stats["samples"].append({"case": "make " + tag, "events": [str(o) for o in (finals[0].order if finals else [])][:14]})
    live = [s for s in finals if not s.panicked]
    for s in finals:
        if s.panicked:
            findings.append(Finding("unmodelled", "make/%s/panic" % tag, "make %s: a panic is reachable: %s" % (tag, s.panicked[0])))
    if not live:
        return
    for st in live:
        stats["states"] += 1
        for p in st.problems:
            cat = "hash" if p[0] == "stale-hash" else ("occupancy" if p[0] == "untracked-square" else "unmodelled")
            findings.append(Finding(cat, "make/%s/%s" % (tag, p[0]), "make %s: %s" % (tag, p[1])))
        _check_cells(st, post, tag, "", findings, "make")
        _check_bb(st, C, pre, post, tag, findings, "make")
        # ---- hash
        esym, enum = expected_hash(t, C, case, pre, post)
        enum ^= t.move_side
        if ep_set:
            toggle(esym, ("EP", "ep0"))
        if case.get("ep_after") is not None:
            toggle(esym, ("EP", case["ep_after"]))
        asym = set(st.hash_sym)
        cast = sorted([x for x in asym if x[0] == "CAST"], key=str)
        asym -= set(cast)
        if st.hash_set is not None:
            findings.append(Finding("hash", "make/%s/hash-overwritten" % tag, "make %s: hash is overwritten (%s) instead of updated" % (tag, show(st.hash_set))))
        elif asym != esym or st.hash_num != enum:
            findings.append(Finding("hash", "make/%s/hash-delta" % tag,
                                    "make %s: keys XOR-ed into the hash %s (+const %#x) differ from zobrist(post)^zobrist(pre) = %s (+const %#x)"
                                    % (tag, sorted(map(str, asym)), st.hash_num, sorted(map(str, esym)), enum)))
        # ---- castling rights
        if "rights_cleared" in case:
            val = st.fields.get("castling")
            want_mask = 15 & ~(3 << (2 * C))
            ok = False
            if val is not None:
                m = _mask_of_and_chain(unstamp(val), lambda e: e[0] == "field" and e[2] == "castling")
                ok = m is not None and (m & 15) == want_mask
            if not ok:
                findings.append(Finding("fields", "make/%s/castling-rights" % tag,
                                        "make %s: castling rights after castling are %s, expected both rights of the mover cleared"
                                        % (tag, show(val) if val is not None else "unchanged")))
            # the two castling keys must bracket the rights update
            vers = sorted(x[1][1] for x in cast if isinstance(x[1], tuple) and x[1][0] == "cr")
            # key(old) ^ key(new): either two reads of the field around the store, or the old rights and the masked value that is stored
            masked = [x[1] for x in cast if isinstance(x[1], tuple) and x[1][0] == "crm"]
            ok_pair = len(cast) == 2 and len(set(vers)) == 2
            ok_mask = len(cast) == 2 and len(vers) == 1 and len(masked) == 1 and masked[0][1] == vers[0] and masked[0][2] == want_mask
            if not (ok_pair or ok_mask):
                findings.append(Finding("hash", "make/%s/castling-key" % tag,
                                        "make %s: castling rights change but the hash is not updated with key(old)^key(new): %s" % (tag, cast)))
        else:
            if "castling" in st.fields:
                findings.append(Finding("fields", "make/%s/castling-rights" % tag, "make %s: castling rights written directly" % tag))
            if cast:
                findings.append(Finding("hash", "make/%s/castling-key" % tag, "make %s: stray castling keys %s" % (tag, cast)))
            # update_castling obligations (rules: a king or rook that moved, a rook captured on its home square)
            uc = [c for c in st.calls if c[0] == "update_castling"]
            is_cap = any(v == "dc" for v in pre.values())
            need = (kind == 1 and case["sc"] != cell(C, PAWN)) or (kind in PROMOTE and is_cap)
            if need:
                okc = False
                for c in uc:
                    try:
                        neg, ss = sim.squares(c[1], st)
                        if not neg and S in ss and D in ss:
                            okc = True
                    except SimError:
                        pass
                if not okc:
                    findings.append(Finding("castling", "make/%s/update_castling" % tag,
                                            "make %s: castling rights are not re-examined for both the source and the destination "
                                            "square (a rook captured on its home square, or a king/rook leaving it, keeps its right)" % tag))
        # ---- scalar fields
        side = st.fields.get("side")
        if side != ("const", 1 - C, "owlchess_base::types::Color"):
            findings.append(Finding("fields", "make/%s/side" % tag, "make %s: side to move becomes %s, expected the opponent"
                                    % (tag, show(side) if side else "unchanged")))
        ep = st.fields.get("ep_source")
        if case.get("ep_after") is not None:
            okep = ep is not None and ep[0] == "agg" and ep[2] == "Some" and ep[3] and ep[3][0] == case["ep_after"]
        elif ep_set:
            okep = ep is not None and ep[0] == "agg" and ep[2] == "None"
        else:
            okep = ep is None or (ep[0] == "agg" and ep[2] == "None")
        if not okep:
            findings.append(Finding("fields", "make/%s/ep" % tag, "make %s: en-passant mark ends as %s" % (tag, show(ep) if ep else "unchanged")))
        # clock
        mc = st.fields.get("move_counter")
        is_capture = any(v == "dc" for v in pre.values()) or kind == 5
        is_pawn = case["sc"] == cell(C, PAWN)
        if kind == 0:
            is_pawn = False
        reset = is_capture or is_pawn
        if kind == 0:
            pass  # the null move is not a legal move; C03 does not prescribe its clock (see DESIGN.md, observations)
        elif reset:
            if mc != ("const", 0, "u16"):
                findings.append(Finding("fields", "make/%s/clock" % tag, "make %s: half-move clock becomes %s, expected reset to 0"
                                        % (tag, show(mc) if mc else "unchanged")))
        else:
            _check_increment(mc, "move_counter", tag, findings)
        mn = st.fields.get("move_number")
        if C == BLACK:
            _check_increment(mn, "move_number", tag, findings)
        elif mn is not None:
            findings.append(Finding("fields", "make/%s/move_number" % tag, "make %s: move number changes after White's move" % tag))
        # ---- undo record (K1): every field is the value before any store
        ret = None
        for n, _c, _i in walk_tree(tree):
            if n[0] == "ret":
                ret = n[1]
        if ret is None or ret[0] != "agg" or ret[1] != UNDO_PATH:
            findings.append(Finding("undo", "make/%s/undo" % tag, "make %s: does not return a RawUndo aggregate" % tag))
        else:
            want = {"hash": "*b.hash", "castling": "*b.r.castling", "ep_source": "*b.r.ep_source",
                    "move_counter": "*b.r.move_counter", "move_number": "*b.r.move_number"}
            for name, val in zip(undo_names, ret[3]):
                if name == "dst_cell":
                    try:
                        got = sim.cell_id(val, State(C, pre))
                    except SimError:
                        got = None
                    if kind != 0 and got != pre.get(case["dst"]):
                        findings.append(Finding("undo", "make/%s/undo.dst_cell" % tag,
                                                "make %s: undo.dst_cell is %s, not the content of the destination before the move" % (tag, show(val))))
                    continue
                if name in want:
                    if not (val[0] == "ld" and val[1] == 0 and show(val[2]) == want[name]):
                        findings.append(Finding("undo", "make/%s/undo.%s" % (tag, name),
                                                "make %s: undo.%s = %s is not the value of %s before the move modified it"
                                                % (tag, name, show(val), want[name])))
            for name in want:
                if name not in undo_names:
                    findings.append(Finding("undo", "make/%s/undo-missing.%s" % (tag, name), "RawUndo has no field %s" % name))


def _check_increment(val, field, tag, findings):
    if val is None:
        findings.append(Finding("fields", "make/%s/%s" % (tag, field), "make %s: %s is not incremented" % (tag, field)))
        return
    u = val
    ok = (u[0] == "call" and u[1].endswith("saturating_add") and len(u[2]) == 2 and u[2][1] == ("const", 1, "u16")
          and u[2][0][0] == "ld" and show(u[2][0][2]) == "*b.r." + field)
    if ok:
        return
    s = show(val)
    if "AddWithOverflow" in repr(val) or (val[0] == "bin" and val[1] in ("Add", "AddUnchecked")) or "wrapping_add" in repr(val):
        findings.append(Finding("counter", "make/%s-overflow" % field,
                                "make %s: %s is incremented with overflow-capable arithmetic (%s): panics in checked builds and "
                                "wraps in optimised builds at 65535" % (tag, field, s)))
    else:
        findings.append(Finding("fields", "make/%s/%s" % (tag, field), "make %s: %s becomes %s, expected +1 (saturating)" % (tag, field, s)))


def _one_unmake(facts, t, fn, C, kind, case, tag, findings, stats, undo_names):
    # pre-state of unmake = post-state of make; expected post = pre-state of make
    pre, post = case["post"], case["pre"]
    # what make recorded as the destination's content - for the null move that is whatever stands on a8
    dc = pre_dc = case["pre"].get(case["dst"], 0)
    sym = {"hash": ("sym", "h0"), "castling": ("sym", "cr0"), "ep_source": ("sym", "ep0"),
           "move_counter": ("sym", "mc0"), "move_number": ("sym", "mn0")}
    ufields = []
    for name in undo_names:
        if name == "dst_cell":
            ufields.append(("const", dc, "owlchess_base::types::Cell") if isinstance(dc, int) else ("sym", dc))
        else:
            ufields.append(sym.get(name, ("sym", "u_" + name)))
    u = ("agg", UNDO_PATH, "RawUndo", tuple(ufields))
    # in unmake the source cell is not trusted from mv for promotions: mv.src_cell is the pawn
    env = [B, mv_expr(kind, case), u]
    try:
        tree = _tree(facts, fn, env)
    except Exception as e:
        findings.append(Finding("unmodelled", "unmake/%s/tree" % tag, "unmake %s: cannot build effect tree: %r" % (tag, e)))
        return
    stats["trees"] += 1
    sim = Sim(facts, t, C, _oracle_factory(case, False, C, "unmake"))
    st0 = State(C, pre)
    finals = sim.run(tree, st0)
    if len(stats["samples"]) < 6:
        stats["samples"].append({"case": "unmake " + tag, "events": [str(o) for o in (finals[0].order if finals else [])][:14]})
    for st in finals:
        stats["states"] += 1
        if st.panicked:
            findings.append(Finding("unmodelled", "unmake/%s/panic" % tag, "unmake %s: a panic is reachable: %s" % (tag, st.panicked[0])))
            continue
        for p in st.problems:
            cat = "occupancy" if p[0] == "untracked-square" else "unmodelled"
            findings.append(Finding(cat, "unmake/%s/%s" % (tag, p[0]), "unmake %s: %s" % (tag, p[1])))
        _check_cells(st, post, tag, "", findings, "unmake")
        _check_bb(st, C, pre, post, tag, findings, "unmake")
        # restored fields
        if st.hash_set != ("sym", "h0"):
            findings.append(Finding("undo", "unmake/%s/hash" % tag, "unmake %s: hash is not restored from the undo record (%s)"
                                    % (tag, show(st.hash_set) if st.hash_set else "xor-updated only")))
        if st.hash_set == ("sym", "h0") and (st.hash_sym or st.hash_num):
            findings.append(Finding("undo", "unmake/%s/hash" % tag, "unmake %s: hash modified after being restored" % tag))
        for name, want in (("castling", ("sym", "cr0")), ("ep_source", ("sym", "ep0")), ("move_counter", ("sym", "mc0")),
                           ("move_number", ("sym", "mn0"))):
            got = st.fields.get(name)
            if got != want:
                findings.append(Finding("undo", "unmake/%s/%s" % (tag, name),
                                        "unmake %s: %s is %s after undo, expected the value saved in the undo record"
                                        % (tag, name, show(got) if got else "left as the move made it")))
        side = st.fields.get("side")
        if side != ("const", C, "owlchess_base::types::Color"):
            findings.append(Finding("undo", "unmake/%s/side" % tag, "unmake %s: side to move becomes %s, expected the mover" % (tag, show(side) if side else "unchanged")))
