"""Decision-tree extraction: a function whose control flow only tests recognisable predicates is turned
into a list of (conditions, result) paths and evaluated on abstract input points."""
from .fx import tree_paths, unstamp, path_value
from .expr import show


class Path:
    def __init__(self, conds, ret, unknown, end, events):
        self.conds = conds        # list of (key, truth) for boolean predicates / ("cmp", var, op, const, truth)
        self.ret = ret
        self.unknown = unknown    # unrecognised test expressions
        self.end = end
        self.events = events


def extract(tree, recognise):
    """recognise(expr) -> ("pred", key, polarity) | ("cmp", var, op, const) | ("discr", key) | None."""
    out = []
    for events, choices in tree_paths(tree):
        last = events[-1]
        conds = []
        unknown = []
        for e in events:
            if e[0] != "branch":
                continue
            d = unstamp(path_value(e[1], choices))
            lab = e[2]
            truth = not (lab != "else" and 0 in lab)
            rec = recognise(d)
            if rec is None:
                unknown.append(show(d))
                continue
            if rec[0] == "pred":
                conds.append((rec[1], truth if rec[2] else (not truth)))
            elif rec[0] == "cmp":
                conds.append(("cmp", rec[1], rec[2], rec[3], truth))
            elif rec[0] == "discr":
                conds.append(("discr", rec[1], lab, e[4]))
            elif rec[0] == "ignore":
                pass
        ret = unstamp(path_value(last[1], choices)) if last[0] == "ret" else None
        out.append(Path(conds, ret, unknown, last[0], events))
    return out


def _cmp(op, a, b):
    return {"Ge": a >= b, "Gt": a > b, "Lt": a < b, "Le": a <= b, "Eq": a == b, "Ne": a != b}[op]


def matches(path, point):
    for c in path.conds:
        if c[0] == "cmp":
            _k, var, op, const, truth = c
            if var not in point:
                return False
            if _cmp(op, point[var], const) != truth:
                return False
        elif c[0] == "discr":
            _k, key, lab, case_vals = c
            v = point.get(key)
            if v is None:
                return False
            if lab == "else":
                if v in case_vals:
                    return False
            elif v not in lab:
                return False
        else:
            key, truth = c
            if key not in point or point[key] != truth:
                return False
    return True


def evaluate(paths, point):
    """Paths consistent with the abstract point (ideally exactly one)."""
    return [p for p in paths if p.end == "ret" and not p.unknown and matches(p, point)]


# ---------------------------------------------------------------------- direct evaluation on an abstract point

def _fold(d):
    """Constant conditions left behind by phi resolution."""
    if d[0] == "discr" and d[1][0] == "const" and isinstance(d[1][1], (int, bool)):
        return ("const", int(d[1][1]), "isize")
    if d[0] == "bin" and d[2][0] == "const" and d[3][0] == "const" and isinstance(d[2][1], (int, bool)) and isinstance(d[3][1], (int, bool)):
        a, b = int(d[2][1]), int(d[3][1])
        r = {"Eq": a == b, "Ne": a != b, "Lt": a < b, "Le": a <= b, "Gt": a > b, "Ge": a >= b}.get(d[1])
        if r is not None:
            return ("const", int(r), "bool")
    if d[0] == "un" and d[1] == "Not" and d[2][0] == "const" and d[2][2] == "bool":
        return ("const", int(not d[2][1]), "bool")
    return d


def eval_point(tree, point, recognise, classify):
    """Set of classified results the function can return on an abstract input point. Switches whose
    condition is recognised are decided by the point; `("ignore",)` conditions are explored both ways
    (memoised: the continuation of an ignored switch is evaluated once); unrecognised conditions make the
    result contain ("?", text)."""
    memo = {}
    decided = {}
    # A switch's choice matters later only while some expression still to be evaluated contains a phi that refers to it.
    # refs(seq, i) = ids of the switches that the decisions and classified results in seq[i:] depend on through phis.
    _expr_refs = {}
    _suffix = {}

    def expr_refs(e):
        k = id(e)
        if k in _expr_refs:
            return _expr_refs[k]
        out = set()
        stack = [e]
        seen = set()
        while stack:
            x = stack.pop()
            if not isinstance(x, tuple) or not x or id(x) in seen:
                continue
            seen.add(id(x))
            if x[0] == "phi":
                out.add(x[1])
            if x[0] == "call" and isinstance(x[1], str) and x[1].startswith("owlchess"):
                continue        # a predicate of the library is recognised by its name; what its arguments were built from is not read
            for y in x:
                if isinstance(y, tuple):
                    stack.append(y)
        _expr_refs[k] = out
        return out

    def ret_refs(e):
        # classification looks at which variant is returned and at the payload of an error only
        if not isinstance(e, tuple) or not e:
            return set()
        if e[0] == "phi":
            out = {e[1]}
            for _lab, v in e[3]:
                out |= ret_refs(v)
            return out
        if e[0] == "agg" and e[2] == "Ok":
            return set()
        return expr_refs(e)

    def suffix_refs(seq, i):
        key = (id(seq), i)
        if key in _suffix:
            return _suffix[key]
        out = set()
        for n in seq[i:]:
            if n[0] == "switch":
                out |= expr_refs(n[1])
                for sub in n[2].values():
                    out |= suffix_refs(sub, 0)
            elif n[0] == "inlined":
                out |= suffix_refs(n[3], 0)
            elif n[0] == "ret":
                out |= ret_refs(n[1])
        _suffix[key] = out
        return out

    def decide(d, n):
        rec = recognise(d)
        if rec is None:
            return "unknown"
        if rec[0] == "ignore":
            return None
        labs = list(n[2].keys())
        if rec[0] == "pred":
            if rec[1] not in point:
                return None
            truth = point[rec[1]] if rec[2] else (not point[rec[1]])
            val = 1 if truth else 0
        elif rec[0] == "cmp":
            if rec[1] not in point:
                return None
            val = 1 if _cmp(rec[2], point[rec[1]], rec[3]) else 0
        elif rec[0] == "discr":
            if rec[1] not in point:
                return None
            val = point[rec[1]]
        else:
            return None
        for lab in labs:
            if lab != "else" and val in lab:
                return lab
        return "else" if "else" in n[2] else "infeasible"

    def run(seq, i, cont, depth, choices=()):
        # choices: labels taken at the synthetic switches of modelled combinators (their results are phi nodes)
        if choices:
            live = set(suffix_refs(seq, i))
            for c in cont:
                live |= suffix_refs(c[0], c[1])
            choices = tuple(c for c in choices if c[0] in live)
        key = (id(seq), i, tuple((id(c[0]), c[1]) for c in cont), choices)
        if key in memo:
            return memo[key]
        memo[key] = set()
        out = set()
        while True:
            if i >= len(seq):
                if not cont:
                    out.add(("end",))
                    break
                (seq, i, depth), cont = cont[0], cont[1:]
                continue
            n = seq[i]
            k = n[0]
            if k == "switch":
                ch = dict(decided)
                ch.update(choices)
                d = _fold(unstamp(path_value(n[1], ch) if ch else n[1]))
                if d[0] == "const" and isinstance(d[1], (int, bool)):
                    v = int(d[1])
                    lab = "else" if "else" in n[2] else "infeasible"
                    for l2 in n[2]:
                        if l2 != "else" and v in l2:
                            lab = l2
                    out |= run(n[2][lab], 0, ((seq, i + 1, depth),) + cont, depth, choices) if lab != "infeasible" else set()
                    break
                lab = decide(d, n)
                if lab == "unknown":
                    out.add(("?", show(d)[:80]))
                    break
                if lab == "infeasible":
                    break
                if lab is not None:
                    decided[n[5]] = lab       # fixed by the abstract point: the same wherever this switch is met, so later phis may use it
                labs = [lab] if lab is not None else list(n[2].keys())
                synthetic = len(n[5]) > 4    # combinator switches and the switches of unrolled array loops: a later phi may read them
                for l in labs:
                    ch2 = tuple(sorted(list(dict(choices).items()) + [(n[5], l)], key=repr)) if synthetic else choices
                    out |= run(n[2][l], 0, ((seq, i + 1, depth),) + cont, depth, ch2)
                break
            if k == "inlined":
                out |= run(n[3], 0, ((seq, i + 1, depth),) + cont, depth + 1, choices)
                break
            if k == "ret":
                if depth == 0:
                    ch = dict(decided)
                    ch.update(choices)
                    out.add(classify(unstamp(path_value(n[1], ch) if ch else n[1])))
                    break
                if not cont:
                    out.add(("end",))
                    break
                (seq, i, depth), cont = cont[0], cont[1:]
                continue
            if k == "panic":
                out.add(("panic", n[1]))
                break
            if k in ("unreachable",):
                break
            if k == "backedge":
                # leave the loop: continue after it (the loop's effect on the result is through opaque values)
                i += 1
                continue
            i += 1
        memo[key] = out
        return out

    return run(tree, 0, (), 0)
