"""Decision-tree extraction: a function whose control flow only tests recognisable predicates is turned
into a list of (conditions, result) paths and evaluated on abstract input points."""
from .fx import tree_paths, unstamp, path_value
from .expr import show


class Path:
    def __init__(self, conds, ret, unknown, end, events):
        self.conds = conds        # list of (key, truth) for boolean predicates / ("cmp", var, op, const, truth)
        self.ret = ret
        self.unknown = unknown    # unrecognised test expressions
        self.end = end
        self.events = events


def extract(tree, recognise):
    """recognise(expr) -> ("pred", key, polarity) | ("cmp", var, op, const) | ("discr", key) | None."""
    out = []
    for events, choices in tree_paths(tree):
        last = events[-1]
        conds = []
        unknown = []
        for e in events:
            if e[0] != "branch":
                continue
            d = unstamp(path_value(e[1], choices))
            lab = e[2]
            truth = not (lab != "else" and 0 in lab)
            rec = recognise(d)
            if rec is None:
                unknown.append(show(d))
                continue
            if rec[0] == "pred":
                conds.append((rec[1], truth if rec[2] else (not truth)))
            elif rec[0] == "cmp":
                conds.append(("cmp", rec[1], rec[2], rec[3], truth))
            elif rec[0] == "discr":
                conds.append(("discr", rec[1], lab, e[4]))
            elif rec[0] == "ignore":
                pass
        ret = unstamp(path_value(last[1], choices)) if last[0] == "ret" else None
        out.append(Path(conds, ret, unknown, last[0], events))
    return out


def _cmp(op, a, b):
    return {"Ge": a >= b, "Gt": a > b, "Lt": a < b, "Le": a <= b, "Eq": a == b, "Ne": a != b}[op]


def matches(path, point):
    for c in path.conds:
        if c[0] == "cmp":
            _k, var, op, const, truth = c
            if var not in point:
                return False
            if _cmp(op, point[var], const) != truth:
                return False
        elif c[0] == "discr":
            _k, key, lab, case_vals = c
            v = point.get(key)
            if v is None:
                return False
            if lab == "else":
                if v in case_vals:
                    return False
            elif v not in lab:
                return False
        else:
            key, truth = c
            if key not in point or point[key] != truth:
                return False
    return True


def evaluate(paths, point):
    """Paths consistent with the abstract point (ideally exactly one)."""
    return [p for p in paths if p.end == "ret" and not p.unknown and matches(p, point)]
