"""Abstract interpretation of the make/unmake effect trees over a small symbolic board.

The abstract board knows only the squares a move touches (symbolic S = mv.src, D = mv.dst,
T = en-passant victim square, or concrete castling squares) and the cells on them (symbolic
`sc` = mv.src_cell, `dc` = old content of D, or concrete cells). The effect tree of
do_make_move::<C> / do_unmake_move::<C>, built with the move kind as a literal, is interpreted on
it: cell writes, membership of the touched squares in the colour / piece bitboards, the multiset
(mod 2) of Zobrist keys XOR-ed into the hash, and the scalar fields. The final abstract state is
compared with the state the *rules of chess* prescribe for that kind (the SPEC below is written from
the rules and the documented representation invariants, not from the code).

No library code runs: values are symbols; the only numbers are the build's key tables.
"""
from .fx import FxBuilder, walk_tree, unstamp, apath
from .expr import show, N

WHITE, BLACK = 0, 1
PAWN, KING, KNIGHT, BISHOP, ROOK, QUEEN = range(6)
KINDS = {0: "Null", 1: "Simple", 2: "CastlingKingside", 3: "CastlingQueenside", 4: "PawnDouble", 5: "Enpassant",
         6: "PromoteKnight", 7: "PromoteBishop", 8: "PromoteRook", 9: "PromoteQueen"}
PROMOTE = {6: KNIGHT, 7: BISHOP, 8: ROOK, 9: QUEEN}
MOVE_PATH = "owlchess::moves::base::Move"
UNDO_PATH = "owlchess::moves::base::RawUndo"


def cell(color, piece):
    return (1 if color == WHITE else 7) + piece


def cell_color(c, C):
    """Colour of a cell id; symbolic ids: sc is the mover's, dc the opponent's."""
    if c == "sc":
        return C
    if c == "dc":
        return 1 - C
    if isinstance(c, int):
        if c == 0:
            return None
        return WHITE if c <= 6 else BLACK
    return "?"


def sq(file, rank_idx):
    return rank_idx * 8 + file


def castling_rank_idx(C):
    return 7 if C == WHITE else 0


def forward(C):
    return -8 if C == WHITE else 8


S, D = ("sym", "S"), ("sym", "D")


class Tables:
    def __init__(self, facts):
        raw = facts.table_u64("owlchess::zobrist::PIECES")
        self.pieces = [raw[i * 64:(i + 1) * 64] for i in range(13)]
        self.castling = facts.table_u64("owlchess::zobrist::CASTLING")
        self.enpassant = facts.table_u64("owlchess::zobrist::ENPASSANT")
        self.move_side = facts.const_int("owlchess::zobrist::MOVE_SIDE")
        self.facts = facts
        try:
            self.ck = facts.table_u64("owlchess::zobrist::CASTLING_KINGSIDE")
            self.cq = facts.table_u64("owlchess::zobrist::CASTLING_QUEENSIDE")
        except KeyError:
            self.ck = self.cq = None      # the deltas live in a table of another name/shape: read generically (const_table_value)

    def const_table_value(self, e):
        """Value of a read of a constant table of 64-bit words with constant indices (`T[i]`, `T[i][j]`), whatever the table is called."""
        idx = []
        while e[0] == "tbl":
            if e[2][0] != "const":
                return None
            idx.append(e[2][1])
            e = e[1]
        if e[0] != "named" or not idx:
            return None
        idx.reverse()
        c = self.facts.consts.get(e[1]) or {}
        ty = self.facts.types[c["ty"]] if "ty" in c else None
        dims = []
        while ty is not None and ty.get("k") == "array":
            dims.append(ty.get("len"))
            ty = self.facts.types[ty["of"]] if isinstance(ty.get("of"), int) else None
        if len(dims) != len(idx) or any(d is None for d in dims[1:]):
            return None
        try:
            flat = self.facts.table_u64(e[1])
        except KeyError:
            return None
        pos = 0
        for i, d in zip(idx, [None] + dims[1:]):
            pos = pos * (d if d is not None else 1) + i if d is not None else i
        return flat[pos] if 0 <= pos < len(flat) else None


class SimError(Exception):
    pass


class State:
    def __init__(self, C, cells):
        self.C = C
        self.cells0 = dict(cells)
        self.cells = dict(cells)
        self.cell_log = []
        self.bb = {}
        self.bb_ids = set()
        self.hash_sym = set()
        self.hash_num = 0
        self.hash_set = None
        self.hash_events = 0
        self.fields = {}
        self.field_log = []
        self.calls = []
        self.problems = []
        self.order = []
        self.all_store = None
        self.panicked = None

    def clone(self):
        import copy
        return copy.deepcopy(self)

    def track_bb(self, name):
        if name in self.bb_ids:
            return
        self.bb_ids.add(name)
        for s, c in self.cells0.items():
            self.bb[(name, s)] = member(name, c, self.C)


def member(name, c, C):
    if name == "white":
        return cell_color(c, C) == WHITE
    if name == "black":
        return cell_color(c, C) == BLACK
    if name[0] == "pieces":
        return name[1] == c
    raise SimError("unknown bitboard %r" % (name,))


class Sim:
    def __init__(self, facts, tables, C, oracle=None):
        self.facts = facts
        self.t = tables
        self.C = C
        self.oracle = oracle or (lambda e: None)

    # ---------------------------------------------------------------- id resolution
    def sq_id(self, e, st):
        e = unstamp(e)
        if e[0] == "const":
            return e[1]
        if e[0] == "sym":
            return e
        if e[0] == "call" and e[1].endswith("wrapping_add") and len(e[2]) == 2:
            base = self.sq_id(e[2][0], st)
            off = e[2][1]
            if off[0] == "const":
                k = off[1]
                if k >= 1 << 63:
                    k -= 1 << 64
                if isinstance(base, int):
                    return base + k
                return ("off", base, k)
        if e[0] == "downcast" and e[2] == "Some":
            # (ep_source as Some)
            inner = e[1]
            if inner[0] == "field" and inner[2] == "ep_source":
                return "ep0"
        raise SimError("cannot resolve square expression %s" % show(e))

    def cell_id(self, e, st):
        if e[0] == "const":
            return e[1]
        if e[0] == "sym":
            return e[1]
        if e[0] == "ld":
            pe = e[2]
            if pe[0] == "tbl" and pe[1][0] == "field" and pe[1][2] == "cells":
                s = self.sq_id(pe[2], st)
                return self.cell_at_version(st, s, e[1])
        raise SimError("cannot resolve cell expression %s" % show(e))

    def cell_at_version(self, st, s, ver):
        if ver > len(st.cell_log):
            raise SimError("cell read at version %d but only %d writes known" % (ver, len(st.cell_log)))
        cur = st.cells0.get(s, "?")
        for ev in st.cell_log[:ver]:
            if ev[0] == "opaque":
                raise SimError("cell read after an opaque write")
            if ev[1] == s:
                cur = ev[2]
        if cur == "?":
            raise SimError("read of an untracked square %r" % (s,))
        return cur

    def squares(self, e, st):
        """Decode a bitboard operand into (negated, set of square ids)."""
        e = unstamp(e)
        if e[0] == "un" and e[1] == "Not":
            neg, ss = self.squares(e[2], st)
            return (not neg), ss
        if e[0] == "const":
            return False, {i for i in range(64) if (e[1] >> i) & 1}
        if e[0] == "bin" and e[1] == "Shl" and e[2] == ("const", 1, "u64"):
            return False, {self.sq_id(e[3], st)}
        if e[0] == "bin" and e[1] == "BitOr":
            n1, s1 = self.squares(e[2], st)
            n2, s2 = self.squares(e[3], st)
            if not n1 and not n2:
                return False, s1 | s2
        raise SimError("cannot decode bitboard operand %s" % show(e))

    def bb_name(self, pe, st):
        """Place expression of a Board bitboard -> name."""
        if pe[0] == "field" and pe[2] in ("white", "black", "all") and apath(pe)[0] == ("param", 1):
            return pe[2]
        if pe[0] == "tbl" and pe[1][0] == "field" and pe[1][2] == "pieces":
            return ("pieces", self.cell_id(pe[2], st))
        raise SimError("unknown bitboard place %s" % show(pe))

    # ---------------------------------------------------------------- hash terms
    def hash_term(self, e, st):
        if e[0] == "const":
            st.hash_num ^= e[1]
            return
        if e[0] == "tbl":
            tb = e[1]
            if tb[0] == "tbl" and tb[1] == ("named", "owlchess::zobrist::PIECES"):
                c = self.cell_id(tb[2], st)
                s = self.sq_id(e[2], st)
                if isinstance(c, int) and isinstance(s, int):
                    st.hash_num ^= self.t.pieces[c][s]
                elif c == 0:
                    pass  # PIECES[EMPTY][*] == 0 (checked on the table, rule H3)
                else:
                    toggle(st.hash_sym, ("P", c, s))
                return
            if tb == ("named", "owlchess::zobrist::ENPASSANT"):
                s = self.sq_id(e[2], st)
                if isinstance(s, int):
                    st.hash_num ^= self.t.enpassant[s]
                else:
                    toggle(st.hash_sym, ("EP", s))
                return
            if tb == ("named", "owlchess::zobrist::CASTLING"):
                x = e[2]
                if x[0] == "ld" and x[2][0] == "field" and x[2][2] == "castling":
                    toggle(st.hash_sym, ("CAST", ("cr", x[1])))
                    return
                if x[0] == "sym":
                    toggle(st.hash_sym, ("CAST", x[1]))
                    return
                # the key of rights computed in a local first: ((rights & m1) & m2 ...) over a read of the rights field
                mask, y = 0xff, x
                while y[0] == "bin" and y[1] == "BitAnd" and (y[2][0] == "const" or y[3][0] == "const"):
                    c_, y = (y[2], y[3]) if y[2][0] == "const" else (y[3], y[2])
                    mask &= c_[1]
                if y[0] == "ld" and y[2][0] == "field" and y[2][2] == "castling":
                    toggle(st.hash_sym, ("CAST", ("crm", y[1], mask & 15)))
                    return
                raise SimError("castling key of %s" % show(x))
            if tb == ("named", "owlchess::zobrist::CASTLING_KINGSIDE") and e[2][0] == "const" and self.t.ck is not None:
                st.hash_num ^= self.t.ck[e[2][1]]
                return
            if tb == ("named", "owlchess::zobrist::CASTLING_QUEENSIDE") and e[2][0] == "const" and self.t.cq is not None:
                st.hash_num ^= self.t.cq[e[2][1]]
                return
            v = self.t.const_table_value(e)
            if v is not None:
                st.hash_num ^= v
                return
        raise SimError("unknown hash term %s" % show(e))

    def flatten_xor(self, e):
        if e[0] == "bin" and e[1] == "BitXor":
            return self.flatten_xor(e[2]) + self.flatten_xor(e[3])
        return [e]

    # ---------------------------------------------------------------- execution
    def run(self, nodes, st):
        """Interpret an event list; returns the list of final states (forks on undecidable branches)."""
        states = [st]
        for n in nodes:
            nxt = []
            for s in states:
                if s.panicked:
                    nxt.append(s)
                    continue
                nxt.extend(self.step(n, s))
            states = nxt
        return states

    def step(self, n, st):
        k = n[0]
        try:
            if k == "store":
                self.store(n, st)
            elif k == "inlined":
                name = n[1]
                if "BitXorAssign>::bitxor_assign" in name or "BitOrAssign>::bitor_assign" in name \
                        or "BitAndAssign>::bitand_assign" in name:
                    if "Bitboard" in name:
                        self.bbop(n, st)
                        return [st]
                return self.run(n[3], st)
            elif k == "call":
                self.call(n, st)
            elif k == "switch":
                return self.switch(n, st)
            elif k == "panic":
                st.panicked = (n[1], n[3])
            elif k in ("assert", "ret", "unreachable", "backedge"):
                if k == "backedge":
                    raise SimError("loop in a make/unmake arm")
        except SimError as e:
            st.problems.append(("unmodelled", str(e), n[-1] if k != "store" else n[3]))
        return [st]

    def switch(self, n, st):
        d = n[1]
        val = self.oracle(d, st, self)
        branches = n[2]
        if val is None:
            out = []
            for lab, sub in branches.items():
                s2 = st.clone()
                s2.order.append(("assume", show(d), lab))
                out.extend(self.run(sub, s2))
            return out
        for lab, sub in branches.items():
            if lab != "else" and val in lab:
                return self.run(sub, st)
        return self.run(branches.get("else", []), st)

    def store(self, n, st):
        pe, val = n[1], n[2]
        ap = apath(pe)
        if ap[0] != ("param", 1):
            raise SimError("store outside the board: %s" % show(pe))
        if pe[0] == "tbl" and pe[1][0] == "field" and pe[1][2] == "cells":
            s = self.sq_id(pe[2], st)
            c = self.cell_id(val, st)
            st.cell_log.append(("cell", s, c))
            st.cells[s] = c
            st.order.append(("cell", s, c))
            return
        if pe[0] == "field" and pe[2] == "hash":
            if len(n) > 4:
                pass
            terms = self.flatten_xor(val)
            prev = [t for t in terms if t[0] == "ld" and t[2] == pe]
            rest = [t for t in terms if not (t[0] == "ld" and t[2] == pe)]
            st.hash_events += 1
            if len(prev) == 1:
                # read-modify-write: the read must be the latest version (no lost update)
                if len(n) > 4 and prev[0][1] != n[4]:
                    st.problems.append(("stale-hash", "hash ^= ... uses a stale read of the hash (version %d, current %d)"
                                        % (prev[0][1], n[4]), n[3]))
                for t in rest:
                    self.hash_term(t, st)
                st.order.append(("hash^", [show(t) for t in rest]))
            else:
                st.hash_set = val
                st.hash_sym = set()
                st.hash_num = 0
                st.order.append(("hash=", show(val)))
            return
        if pe[0] == "field" and pe[2] in ("white", "black"):
            raise SimError("direct store to colour set %s" % show(pe))
        if pe[0] == "field" and pe[2] == "all":
            st.all_store = (val, len(st.order))
            st.order.append(("all=", show(val)))
            return
        if pe[0] == "field" and pe[1][0] == "field" and pe[1][2] == "r":
            prev = st.fields.get(pe[2])
            if prev is not None:
                # a read-modify-write of the same field composes with the previous stored value
                val = subst_ld(val, pe, prev)
            st.fields[pe[2]] = val
            st.field_log.append((pe[2], val, n[3]))
            st.order.append(("field", pe[2], show(val)))
            return
        raise SimError("unmodelled store to %s" % show(pe))

    def bbop(self, n, st):
        name = n[1]
        tgt, operand = n[2][0], n[2][1]
        if tgt[0] != "ref":
            raise SimError("bitboard op on %s" % show(tgt))
        bn = self.bb_name(tgt[1], st)
        if bn == "all":
            raise SimError("in-place update of `all`")
        if isinstance(bn, tuple) and bn[1] == 0 and False:
            pass
        st.track_bb(bn)
        neg, ss = self.squares(operand, st)
        op = "xor" if "bitxor" in name else ("or" if "bitor" in name else "and")
        for s in ss:
            if (bn, s) not in st.bb:
                if not neg:
                    st.problems.append(("untracked-square", "bitboard %s touched at square %r which the move does not "
                                        "involve" % (bn, s), n[4]))
                continue
        if op == "xor":
            if neg:
                raise SimError("xor with a complemented set")
            for s in ss:
                if (bn, s) in st.bb:
                    st.bb[(bn, s)] = not st.bb[(bn, s)]
        elif op == "or":
            if neg:
                raise SimError("or with a complemented set")
            for s in ss:
                if (bn, s) in st.bb:
                    st.bb[(bn, s)] = True
        else:
            if neg:
                for s in ss:
                    if (bn, s) in st.bb:
                        st.bb[(bn, s)] = False
            else:
                for (b_, s) in list(st.bb):
                    if b_ == bn and s not in ss:
                        st.bb[(b_, s)] = False
        st.order.append(("bb", bn, op, neg, sorted(map(str, ss))))

    def call(self, n, st):
        name, base, args, info = n[1], n[2], n[3], n[5]
        if base == "owlchess::moves::base::update_castling":
            st.calls.append(("update_castling", args[1], n[4]))
            st.order.append(("update_castling", show(args[1])))
            return
        if info["mutargs"]:
            short = (base or name).split("::")[-1]
            if short in ("get_unchecked_mut",):
                return
            raise SimError("opaque call with &mut argument: %s" % name)
        # pure calls are values only


def subst_ld(e, place, repl):
    if not isinstance(e, tuple) or not e:
        return e
    if e[0] == "ld" and e[2] == place and e[1] > 0:
        return repl
    out = []
    for x in e:
        if isinstance(x, tuple):
            if x and isinstance(x[0], str):
                out.append(subst_ld(x, place, repl))
            else:
                out.append(tuple(subst_ld(y, place, repl) for y in x))
        else:
            out.append(x)
    return tuple(out)


def toggle(s, x):
    if x in s:
        s.remove(x)
    else:
        s.add(x)


# ============================================================================================ SPEC
# Written from the rules of chess and the representation invariants documented in board.rs
# (hash = XOR of keys of raw contents; colour/piece sets = squares holding such cells;
#  PIECES[EMPTY][*] = 0), NOT from moves/base.rs.

def make_cases(C, kind):
    """Abstract pre-states for making a semilegal move of this kind by colour C.
    Each case: dict(name, cells (pre), post (cells), sc, dc_empty, notes)."""
    r = castling_rank_idx(C)
    K, R, P = cell(C, KING), cell(C, ROOK), cell(C, PAWN)
    EP = cell(1 - C, PAWN)
    cases = []
    if kind == 0:
        cases.append(dict(name="null", pre={}, post={}, sc=0, src=0, dst=0))
        # Move::NULL names a8 as both squares: whatever stands there must be left alone (by make and by unmake)
        cases.append(dict(name="null/a8-own", pre={0: "sc"}, post={0: "sc"}, sc=0, src=0, dst=0))
        cases.append(dict(name="null/a8-enemy", pre={0: "dc"}, post={0: "dc"}, sc=0, src=0, dst=0))
    elif kind == 1:
        for sc_name, sc in (("pawn", P), ("piece", "sc")):
            for dcn, dc in (("quiet", 0), ("capture", "dc")):
                cases.append(dict(name="simple/%s/%s" % (sc_name, dcn), pre={S: sc, D: dc}, post={S: 0, D: sc},
                                  sc=sc, src=S, dst=D))
    elif kind == 4:
        cases.append(dict(name="double", pre={S: P, D: 0}, post={S: 0, D: P}, sc=P, src=S, dst=D, ep_after=D))
    elif kind == 5:
        T = ("off", D, -forward(C))
        cases.append(dict(name="enpassant", pre={S: P, D: 0, T: EP}, post={S: 0, D: P, T: 0}, sc=P, src=S, dst=D))
    elif kind in PROMOTE:
        pc = cell(C, PROMOTE[kind])
        for dcn, dc in (("quiet", 0), ("capture", "dc")):
            cases.append(dict(name="promote/%s" % dcn, pre={S: P, D: dc}, post={S: 0, D: pc}, sc=P, src=S, dst=D))
    elif kind == 2:
        e, f, g, h = (sq(x, r) for x in (4, 5, 6, 7))
        cases.append(dict(name="castle-k", pre={e: K, f: 0, g: 0, h: R}, post={e: 0, f: R, g: K, h: 0}, sc=K,
                          src=e, dst=g, rights_cleared=C))
    elif kind == 3:
        a, c, d, e = (sq(x, r) for x in (0, 2, 3, 4))
        cases.append(dict(name="castle-q", pre={a: R, c: 0, d: 0, e: K}, post={a: 0, c: K, d: R, e: 0}, sc=K,
                          src=e, dst=c, rights_cleared=C))
    return cases


def mv_expr(kind, case):
    def sqe(x):
        return ("const", x, "owlchess_base::types::Coord") if isinstance(x, int) else x

    sc = case["sc"]
    sce = ("const", sc, "owlchess_base::types::Cell") if isinstance(sc, int) else ("sym", sc)
    return ("agg", MOVE_PATH, "Move", (("const", kind, "owlchess::moves::base::MoveKind"), sce, sqe(case["src"]),
                                       sqe(case["dst"])))


def expected_hash(t, C, case, pre, post):
    """(symbolic term set, numeric xor) that turns zobrist(pre) into zobrist(post) for the squares."""
    sym = set()
    num = 0
    for s in pre:
        for c in (pre[s], post[s]):
            if c == 0 or pre[s] == post[s]:
                continue
            if isinstance(c, int) and isinstance(s, int):
                num ^= t.pieces[c][s]
            else:
                toggle(sym, ("P", c, s))
    return sym, num


def expected_bb(C, cells):
    """Membership of every tracked square in every bitboard, from the cells."""
    ids = set()
    for c in cells.values():
        if c != 0:
            ids.add(("pieces", c))
    return ids
