"""Explicit-state exploration of the transition system a function's effect tree denotes.

The effect tree (fx.py, ai_mode: loop heads with their variables, back edges with the variables' next values) is read as
an automaton: locations are the function entry and the loop heads, a transition runs from a location to the next loop
head, back edge or return. Its inputs (a cell of the board behind a pointer, the next byte of a text) are enumerated -
all of them at every step - and states are merged, so what is explored is the reachable state space of the model, for
all inputs, not one execution. A rule compares that automaton with a reference automaton (product exploration) or
tabulates a loop-free function over a finite argument domain.

Values: ints; ("agg", variant, fields); ("str", text); ("bytes", text); ("sym", name) opaque tokens; iterators live in
`Machine.iters` keyed by the local that holds them. Nothing here is specific to one function."""
from .teval import TreeEval, Unsupported, Panic, M64
from .fx import FxBuilder, is_memory_place, unstamp
from .expr import show


class NeedInput(Exception):
    def __init__(self, key, domain):
        Exception.__init__(self, "input %r" % (key,))
        self.key = key
        self.domain = domain


class Stuck(Exception):
    """The model cannot be evaluated (unmodelled construct): the rule fails closed with this text."""


_LAST = {}


def _last(name):
    v = _LAST.get(name)
    if v is None:
        v = _LAST[name] = _last0(name)
    return v


def _last0(name):
    """Last path segment of a callee name, generic arguments dropped (`<A as B>::map::<T, {closure@..}>` -> `map`)."""
    segs, cur, depth = [], "", 0
    i = 0
    while i < len(name):
        c = name[i]
        if c in "<{([":
            depth += 1
        elif c in ">})]" and not (c == ">" and i > 0 and name[i - 1] == "-"):
            depth -= 1
        if depth == 0 and name.startswith("::", i):
            segs.append(cur)
            cur = ""
            i += 2
            continue
        cur += c
        i += 1
    segs.append(cur)
    for s in reversed(segs):
        if s and not s.startswith("<"):
            return s.split("<")[0]
    return segs[-1]


def _freeze(v):
    if isinstance(v, (list, tuple)):
        return tuple(_freeze(x) for x in v)
    return v


class Machine(TreeEval):
    def __init__(self, facts, tree, mem=None, oracle=None, store=None, on_call=None):
        TreeEval.__init__(self, facts, mem=mem, oracle=None)
        self.user_oracle = oracle
        self.on_call = on_call
        self.user_store = store
        self.tree = tree
        self._kcache = {}
        self.heads = {}
        self.inside = {}          # loop key -> ids of the switches in its body (their choices are re-made on every iteration)
        self.used = set()         # loop variables some expression reads
        self.phis = set()         # switch ids some phi refers to
        self._index(tree, [])
        self._scan(tree)
        self.reset()

    # ------------------------------------------------------------------ structure
    def _index(self, nodes, path):
        for i, n in enumerate(nodes):
            k = n[0]
            if k == "loophead":
                self.heads[(n[1], n[4])] = (path + [(nodes, i, "loophead")], n[2])
            elif k == "switch":
                for lab, sub in n[2].items():
                    self._index(sub, path + [(nodes, i, "switch")])
            elif k == "inlined":
                self._index(n[3], path + [(nodes, i, "inlined")])

    def _scan(self, nodes):
        seen = set()

        def expr(e):
            if not isinstance(e, tuple) or not e:
                return
            if id(e) in seen:
                return
            seen.add(id(e))
            if e[0] == "var":
                self.used.add(e)
                return
            if e[0] == "phi":
                self.phis.add(e[1])
            for x in e:
                if isinstance(x, tuple):
                    expr(x)
                elif isinstance(x, dict):
                    for y in x.values():
                        expr(y)

        def walk(ns):
            for n in ns:
                k = n[0]
                if k == "switch":
                    expr(n[1])
                    for sub in n[2].values():
                        walk(sub)
                elif k == "inlined":
                    walk(n[3])
                elif k == "loophead":
                    for l, (pre, var) in n[2].items():
                        expr(pre)
                elif k == "backedge":
                    lv = self.heads.get((n[1], n[4]), (None, {}))[1]
                    for l, fin in n[3].items():
                        if l in lv and fin == lv[l][1]:
                            continue
                        expr(fin)
                else:
                    for x in n[1:]:
                        if isinstance(x, tuple):
                            expr(x)
        walk(nodes)
        for key, (path, lv) in self.heads.items():
            ids = set()

            def sw(ns):
                for n in ns:
                    if n[0] == "switch":
                        ids.add(n[5])
                        for sub in n[2].values():
                            sw(sub)
                    elif n[0] == "inlined":
                        sw(n[3])
            lst, i, _k = path[-1]
            sw(lst[i + 1:])
            self.inside[key] = ids

    # ------------------------------------------------------------------ state
    def reset(self):
        self.vars = {}
        self.iters = {}
        self.last = {}
        self.choices = {}
        self.memv = {}       # place text -> list of values (version history of stores through pointers)
        self.out = []
        self.inputs = {}
        self.syms = {}
        self._nreq = 0
        self.requested = []
        self.callmemo = {}

    def snapshot(self):
        return (tuple(sorted(self.vars.items(), key=repr)), tuple(sorted(((k, _freeze(v)) for k, v in self.iters.items()), key=repr)),
                tuple(sorted(self.last.items(), key=repr)), tuple(sorted(self.choices.items(), key=repr)),
                tuple(sorted(((k, tuple(v)) for k, v in self.memv.items()), key=repr)))

    def restore(self, snap):
        self.vars = dict(snap[0])
        self.iters = {k: list(v) for k, v in snap[1]}
        self.last = dict(snap[2])
        self.choices = dict(snap[3])
        self.memv = {k: list(v) for k, v in snap[4]}
        self.out = []
        self._nreq = 0

    # ------------------------------------------------------------------ running
    def start(self):
        self.callmemo = {}
        return self._finish(self._seq(self.tree, 0))

    def resume(self, key):
        self.callmemo = {}
        path, _lv = self.heads[key]
        level = len(path) - 1
        depth = sum(1 for p in path[:level] if p[2] == "inlined")
        r = self._seq(path[level][0][path[level][1] + 1:], depth)
        while True:
            if r is not None and r[0] != "leave":
                return self._finish(r)
            if level == 0:
                raise Stuck("fell off the end of the function")
            if r is None:
                level -= 1
                if path[level][2] == "inlined":
                    raise Stuck("spliced callee without a return")
            else:
                while level > 0 and path[level - 1][2] != "inlined":
                    level -= 1
                if level == 0:
                    raise Stuck("return outside a spliced callee")
                level -= 1
            depth = sum(1 for p in path[:level] if p[2] == "inlined")
            r = self._seq(path[level][0][path[level][1] + 1:], depth)

    def _finish(self, r):
        if r is None:
            raise Stuck("fell off the end of the function")
        if r[0] == "at":
            key = r[1]
            lv = self.heads[key][1]
            if r[2] == "enter":
                new = {}
                for l, (pre, var) in lv.items():
                    new[var] = self._tryev(pre)
                    if isinstance(new[var], tuple) and new[var] and new[var][0] == "unk":
                        src = self._moved_iter(pre, key[1])
                        if src is not None:
                            self.iters[("local", key[1], l)] = self.iters[src]
                            new[var] = ("iterref", ("local", key[1], l))
                            continue
                    if isinstance(new[var], tuple) and new[var] and new[var][0] == "iter":
                        self.iters[("local", key[1], l)] = list(new[var][1:])
                        new[var] = ("iterref", ("local", key[1], l))
                self.vars.update({k: v for k, v in new.items() if k in self.used or (isinstance(v, tuple) and v and v[0] == "iterref")})
            else:
                finals = r[3]
                new = {}
                for l, (pre, var) in lv.items():
                    if l in finals:
                        if finals[l] == var:
                            continue
                        if var in self.used:
                            new[var] = self._tryev(finals[l])
                self.vars.update(new)
            own = {("local", key[1], l) for l in lv}
            # the loop's own iterator is advanced again before its item is read
            self.last = {k: v for k, v in self.last.items()
                         if k not in own and not (k and k[0] == "call" and self._iter_key(k[2][0]) in own)}
            ins = self.inside.get(key, ())
            self.choices = {k: v for k, v in self.choices.items() if k in self.phis and k not in ins}
            return ("at", key)
        return r

    def _moved_iter(self, e, frid):
        """The local that holds the iterator an expression merely passes on (`into_iter(moves)`), if it is a known one."""
        while isinstance(e, tuple) and e:
            if e[0] in ("ref", "deref"):
                e = e[1]
            elif e[0] == "call" and e[2] and _last(e[1]) in ("into_iter", "by_ref", "fuse"):
                e = e[2][0]
            else:
                break
        src = None
        if isinstance(e, tuple) and e and e[0] == "var":
            src = ("local", frid, e[1])
        elif isinstance(e, tuple) and e and e[0] == "local":
            src = e
        return src if src in self.iters else None

    def _tryev(self, e):
        try:
            return self.ev(e)
        except Unsupported as ex:
            return ("unk", str(ex)[:80])

    def _seq(self, nodes, depth):
        for n in nodes:
            k = n[0]
            if k == "switch":
                v = self.ev(n[1])
                if isinstance(v, tuple):
                    raise Unsupported("switch on %r" % (v,))
                taken = "else"
                for lab in n[2]:
                    if lab != "else" and v in lab:
                        taken = lab
                if taken not in n[2]:
                    raise Unsupported("no branch for value %r" % (v,))
                self.choices[n[5]] = taken
                r = self._seq(n[2][taken], depth)
                if r is not None:
                    return r
            elif k == "inlined":
                r = self._seq(n[3], depth + 1)
                if r is not None and r[0] != "leave":
                    return r
            elif k == "ret":
                if depth == 0:
                    return ("ret", self._tryev(n[1]))
                return ("leave",)
            elif k == "panic":
                return ("panic", n[1])
            elif k == "assert":
                try:
                    v = self.ev(n[2])
                except Unsupported:
                    continue
                if bool(v) != bool(n[3]):
                    return ("panic", "assert " + str(n[1]))
            elif k == "call":
                self._call_event(n)
            elif k == "store":
                self._store(n)
            elif k == "loophead":
                return ("at", (n[1], n[4]), "enter")
            elif k == "backedge":
                return ("at", (n[1], n[4]), "back", n[3])
            elif k == "unreachable":
                raise Stuck("unreachable reached")
        return None

    # ------------------------------------------------------------------ effects
    def _store(self, n):
        val = self._tryev(n[2])
        if self.user_store is not None and self.user_store(n[1], val, self):
            return
        key = show(unstamp(n[1]))
        self.memv.setdefault(key, []).append(val)

    def _iter_key(self, e):
        while isinstance(e, tuple) and e and e[0] in ("ref", "cast"):
            e = e[1] if e[0] == "ref" else e[2]
        if isinstance(e, tuple) and e and e[0] == "local":
            return e
        if isinstance(e, tuple) and e and e[0] == "var":
            v = self.vars.get(e)
            if isinstance(v, tuple) and v and v[0] == "iterref":
                return v[1]
        return None

    def _call_event(self, n):
        name, args = n[1], n[3]
        last = _last(name)
        if self.on_call is not None and self.on_call(name, args, self):
            return
        dl = n[5].get("destl") if len(n) > 5 and isinstance(n[5], dict) else None
        if dl is not None and last in ("fuse", "split", "bytes", "into_iter", "map", "chars", "iter", "by_ref", "peekable", "rev", "enumerate"):
            # an iterator kept in a plain local: its state lives under that local
            v = self._tryev(n[5]["ret"])
            if isinstance(v, tuple) and v and v[0] == "iter":
                self.iters[dl] = list(v[1:])
            elif last in ("into_iter", "by_ref", "fuse") and args:
                # the iterator is moved from another local of the same frame (whose value was clobbered by `&mut` uses)
                a = args[0]
                while isinstance(a, tuple) and a and a[0] in ("ref", "deref"):
                    a = a[1]
                src = None
                if isinstance(a, tuple) and a and a[0] == "var":
                    src = ("local", dl[1], a[1])
                elif isinstance(a, tuple) and a and a[0] == "local":
                    src = a
                if src in self.iters:
                    self.iters[dl] = self.iters[src]
        if last in ("write_fmt", "write_str", "write_char") and "fmt" in name:
            self.out.append(self.render(args[1]) if last == "write_fmt" else self._text(self.ev(args[1])))
            return
        if last == "next" and "Iterator" in name:
            key = self._iter_key(args[0])
            if key is None or key not in self.iters:
                raise Stuck("next() on an unknown iterator: " + show(args[0])[:80])
            v = self._advance(key)
            self.last[key] = v
            self.last[n[5]["ret"]] = v
            return

    def _advance(self, key):
        return self._adv(self.iters[key])

    def _adv(self, it):
        kind = it[0]
        if kind == "enum":
            inner = it[1] = list(it[1])
            v = self._adv(inner)
            if v[1] == "Some":
                i = it[2]
                it[2] = i + 1
                return ("agg", "Some", (("agg", "tuple", (i, v[2][0])),))
            return v
        if kind == "seq":
            items, pos = it[1], it[2]
            if pos < len(items):
                it[2] = pos + 1
                return ("agg", "Some", (items[pos],))
            return ("agg", "None", ())
        if kind == "input":
            # the next element of an unknown text: any byte, or the end
            v = self.need(("input", it[1], self._nreq), it[3])
            self._nreq += 1
            if v is None:
                return ("agg", "None", ())
            return ("agg", "Some", (v,))
        raise Stuck("iterator kind " + kind)

    def need(self, key, domain):
        if key not in self.inputs:
            raise NeedInput(key, domain)
        return self.inputs[key]

    # ------------------------------------------------------------------ text
    def _text(self, v):
        if isinstance(v, tuple) and v and v[0] == "str":
            return v[1]
        if isinstance(v, int):
            return chr(v)
        raise Stuck("text of %r" % (v,))

    def render(self, e):
        """Text written by one format_args! value."""
        from .chainrules import _template
        while e[0] == "ref":
            e = e[1]
        if e[0] == "call" and _last(e[1]) == "from_str":
            return self._text(self.ev(e[2][0]))
        if e[0] == "call" and _last(e[1]) == "new" and "Arguments" in e[1]:
            tpl = _template(self.facts, e[2][0])
            if tpl is None:
                raise Stuck("format template not readable")
            arr = e[2][1]
            while arr[0] == "ref":
                arr = arr[1]
            items = list(arr[3]) if arr[0] == "agg" else []
            out = ""
            parts = tpl.split("{}")
            if len(parts) - 1 != len(items):
                raise Stuck("template %r with %d arguments" % (tpl, len(items)))
            for i, p in enumerate(parts):
                out += p
                if i < len(items):
                    out += self.display(items[i])
            return out
        raise Stuck("format arguments " + show(e)[:80])

    def display(self, a):
        """Text of one `{}` argument: Argument::new_display::<T>(&value)."""
        if a[0] != "call" or "new_display" not in a[1]:
            raise Stuck("format argument " + show(a)[:80])
        ty = a[1][a[1].index("new_display::<") + len("new_display::<"):-1]
        v = self.ev(a[2][0])
        return self.display_value(ty, v)

    _DISP = {}

    def display_value(self, ty, v):
        try:
            ck = (id(self.facts), ty, v)
            if ck in Machine._DISP:
                return Machine._DISP[ck]
        except TypeError:
            ck = None
        t = self._display_value(ty, v)
        if ck is not None:
            Machine._DISP[ck] = t
        return t

    def _display_value(self, ty, v):
        while ty.startswith("&"):
            ty = ty[1:]
        if isinstance(v, tuple) and v and v[0] == "sym":
            return "\x02%s\x02" % v[1]
        if ty == "char":
            return chr(v)
        if ty in ("u8", "u16", "u32", "u64", "usize"):
            if isinstance(v, tuple) and v[0] == "sym":
                return "\x00%s\x00" % v[1]
            return str(v)
        if ty in ("&str", "str"):
            return self._text(v)
        fid = "<%s as core::fmt::Display>::fmt" % ty
        fn = self.facts.fns.get(fid)
        if fn is None:
            raise Stuck("no Display instance for " + ty)
        return "".join(run_function(self.facts, fn, {1: v}, mem=None, deref_self=True)[1])

    # ------------------------------------------------------------------ values
    def ev(self, e):
        k = e[0]
        if k == "var":
            if e in self.vars:
                v = self.vars[e]
                if isinstance(v, tuple) and v and v[0] == "unk":
                    raise Unsupported("unknown value of %s: %s" % (e[2], v[1]))
                return v
            if e in self.syms:
                return self.syms[e]
            raise Unsupported("variable " + str(e[2]))
        if k == "param":
            if e in self.syms:
                return self.syms[e]
            if e[1] in self.syms:
                return self.syms[e[1]]
            raise Unsupported("parameter %s" % (e[2],))
        if k == "str":
            return e
        if k == "named":
            b = self._named_bytes(e[1])
            if b is not None:
                return ("bytes", b.decode("latin-1"))
            v = self._typed_const(e[1])
            if v is not None:
                return v
        if k == "lit":
            return e[1]
        if k in ("tbl", "index") and e[1][0] == "named":
            v = self._str_table(e[1][1], self.ev(e[2]))
            if v is not None:
                return v
        if k in ("tbl", "index"):
            b0 = e[1]
            while b0[0] in ("deref", "ref"):
                b0 = b0[1]
            if b0[0] in ("alloc", "named", "phi"):
                return self.ev(("ld", 0, e))
        if k == "ld":
            place = e[2]
            if place[0] in ("tbl", "index") and place[1][0] == "named":
                v = self._str_table(place[1][1], self.ev(place[2]))
                if v is not None:
                    return v
            key = self._kcache.get(id(place))
            if key is None:
                key = self._kcache[id(place)] = show(unstamp(place))
            if key in self.memv and e[1] != 0:
                # the version stamp counts the earlier writes that may alias the place: 0 = the value on entry
                h = self.memv[key]
                return h[min(e[1], len(h)) - 1] if isinstance(e[1], int) else h[-1]
            if place[0] in ("index", "tbl"):
                b0 = place[1]
                for _ in range(8):
                    while b0[0] in ("deref", "ref"):
                        b0 = b0[1]
                    if b0[0] != "phi":
                        break
                    # a table chosen by an earlier branch (`let t = match c { A => &T1, B => &T2 }`)
                    lab = self.choices.get(b0[1])
                    alt = [v_ for l_, v_ in b0[3] if l_ == lab]
                    if not alt:
                        break
                    b0 = alt[0]
                if b0[0] == "named":
                    nb = self._named_bytes(b0[1])
                    if nb is not None:
                        i = self.ev(place[2])
                        if not (0 <= i < len(nb)):
                            raise Panic("index out of bounds")
                        return nb[i]
                    try:
                        tb = self.table(b0[1])       # a table of 64-bit words (bitboards, keys)
                    except (KeyError, ValueError):
                        tb = None
                    if tb is not None:
                        i = self.ev(place[2])
                        if not (0 <= i < len(tb)):
                            raise Panic("index out of bounds")
                        return tb[i]
                if b0[0] == "alloc":
                    a = self.facts.allocs.get(str(b0[1])) or self.facts.allocs.get(b0[1])
                    if a and not a.get("relocs"):
                        raw = bytes.fromhex(a["bytes"])
                        i = self.ev(place[2])
                        if not (0 <= i < len(raw)):
                            raise Panic("index out of bounds")
                        return raw[i]
                base = self._tryev(place[1]) if place[1][0] != "deref" else self._tryev(place[1][1])
                if isinstance(base, tuple) and base and base[0] == "bytes":
                    i = self.ev(place[2])
                    if not (0 <= i < len(base[1])):
                        raise Panic("index out of bounds")
                    return ord(base[1][i])
            if place[0] == "deref" and place[1][0] not in ("param",):
                # a reference produced by a modelled call (an iterator item): the value itself
                v = self._tryev(place[1])
                if not (isinstance(v, tuple) and v and v[0] == "unk"):
                    return v
            if self.mem is not None:
                return self.mem(place, self)
            raise Unsupported("memory read " + key[:60])
        if k == "deref":
            return self.ev(e[1])
        if k == "ref":
            # `&place` stands for the value behind it (the machine has no addresses)
            r0 = e[1]
            while r0[0] in ("index", "tbl", "field", "downcast"):
                r0 = r0[1]
            if e[1][0] in ("index", "tbl", "field", "deref") and r0[0] in ("deref", "alloc", "static", "local"):
                return self.ev(("ld", 0, e[1]))
            return self.ev(e[1])
        if k == "cast":
            v = self.ev(e[2])
            if isinstance(v, int) and isinstance(e[1], str) and e[1].startswith("IntToInt") and len(e) > 3:
                # narrowing (and sign-changing) integer casts truncate to the target width
                w = {"u8": 8, "u16": 16, "u32": 32, "u64": 64, "usize": 64, "i8": 8, "i16": 16, "i32": 32, "i64": 64, "isize": 64}.get(e[3])
                if w:
                    v &= (1 << w) - 1
                    if e[3].startswith("i") and v >> (w - 1):
                        v -= 1 << w
                    return v
            return v
        if k == "call":
            name = e[1]
            last = _last(name)
            if self.user_oracle is not None:
                ov = self.user_oracle(name, e[2], self)
                if ov is not None:
                    return ov
            if last == "next" and "Iterator" in name:
                if e in self.last:
                    return self.last[e]
                key = self._iter_key(e[2][0])
                if key in self.last:
                    return self.last[key]
                raise Stuck("value of next() before the call: " + show(e)[:80])
            if last in ("write_fmt", "write_str", "write_char"):
                return ("agg", "Ok", (0,))
            if last == "branch" and "Try" in name:
                v = self.ev(e[2][0])
                if v[1] in ("Ok", "Some"):
                    return ("agg", "Continue", v[2])
                return ("agg", "Break", (v,))
            if last == "from_residual":
                v = self.ev(e[2][0])
                return v
            if len(e) > 3 and e in self.callmemo:
                return self.callmemo[e]
            if last in ("position", "any", "all", "find") and len(e[2]) == 2 and ("Iterator" in name or "iter::Iter" in name):
                key = self._iter_key(e[2][0])
                if key is not None and key in self.iters and self.iters[key][0] == "seq":
                    it = self.iters[key]
                    src = ("iter", "seq", it[1], it[2])
                    it[2] = len(it[1])        # the adapter consumes the iterator (no rule reads it afterwards)
                else:
                    src = self.ev(e[2][0])
                if isinstance(src, tuple) and src and src[0] == "bytes":
                    src = ("iter", "seq", tuple(ord(c) for c in src[1]), 0)
                if isinstance(src, tuple) and src[0] == "iter" and src[1] == "seq":
                    items = src[2][src[3]:]
                    res = {"position": ("agg", "None", ()), "find": ("agg", "None", ()), "any": 0, "all": 1}[last]
                    for i_, x in enumerate(items):
                        hit = bool(self.call_closure(e[2][1], (x,)))
                        if last == "position" and hit:
                            res = ("agg", "Some", (i_,))
                            break
                        if last == "find" and hit:
                            res = ("agg", "Some", (x,))
                            break
                        if last == "any" and hit:
                            res = 1
                            break
                        if last == "all" and not hit:
                            res = 0
                            break
                    if len(e) > 3:
                        self.callmemo[e] = res      # the value of this (stamped) call, however often the expression is read in this step
                    return res
                raise Stuck("%s over %r" % (last, src)[:80])
            if last == "enumerate" and "Iterator" in name:
                src = self.ev(e[2][0])
                if isinstance(src, tuple) and src and src[0] == "iter":
                    return ("iter", "enum", list(src[1:]), 0)
                raise Stuck("enumerate over " + repr(src)[:60])
            if last == "map" and "Iterator" in name:
                items = self._as_seq(name, self.ev(e[2][0]))
                return ("iter", "seq", tuple(self.apply(e[2][1], (x,)) for x in items), 0)
            if last == "chain" and "Iterator" in name and len(e[2]) == 2:
                return ("iter", "seq", self._as_seq(name, self.ev(e[2][0])) + self._as_seq(name.replace("chain", "chain2"), self.ev(e[2][1])), 0)
            if last == "fold" and "Iterator" in name and len(e[2]) == 3:
                acc = self.ev(e[2][1])
                for x in self._as_seq(name, self.ev(e[2][0])):
                    acc = self.apply(e[2][2], (acc, x))
                return acc
            if last == "filter" and "Iterator" in name and len(e[2]) == 2:
                items = self._as_seq(name, self.ev(e[2][0]))
                return ("iter", "seq", tuple(x for x in items if self.apply(e[2][1], (x,))), 0)
            if name == "<indirect>" and e[2]:
                return self.apply(e[2][0], tuple(self.ev(a) for a in e[2][1:]))
            if last == "bytes" and "str" in name:
                s = self.ev(e[2][0])
                if s[0] == "str":
                    return ("iter", "seq", tuple(ord(c) for c in s[1]), 0)
                if s[0] == "sym":
                    return ("iter", "input", s[1], 0, tuple(range(256)) + (None,))
                raise Stuck("bytes of %r" % (s,))
            if last == "split" and "str" in name:
                s = self.ev(e[2][0])
                sep = self.ev(e[2][1])
                sep = chr(sep) if isinstance(sep, int) else self._text(sep)
                if s[0] == "str":
                    return ("iter", "seq", tuple(("str", x) for x in s[1].split(sep)), 0)
                raise Stuck("split of %r" % (s,))
            if "slice" in name and "[u8]" in name or (last == "from_utf8"):
                b = self.ev(e[2][0])
                if isinstance(b, tuple) and b and b[0] == "bytes":
                    t = b[1]
                    if last == "first":
                        return ("agg", "Some", (ord(t[0]),)) if t else ("agg", "None", ())
                    if last == "last":
                        return ("agg", "Some", (ord(t[-1]),)) if t else ("agg", "None", ())
                    if last == "is_empty":
                        return int(not t)
                    if last == "len":
                        return len(t)
                    if last == "get" and len(e[2]) == 2:
                        i_ = self._tryev(e[2][1])
                        if isinstance(i_, int):
                            return ("agg", "Some", (ord(t[i_]),)) if 0 <= i_ < len(t) else ("agg", "None", ())
                    if last == "get_unchecked" and len(e[2]) == 2:
                        i_ = self.ev(e[2][1])
                        if not (0 <= i_ < len(t)):
                            raise Panic("get_unchecked out of bounds")
                        return ord(t[i_])
                    if last == "split_last":
                        return ("agg", "Some", (("agg", "tuple", (ord(t[-1]), ("bytes", t[:-1]))),)) if t else ("agg", "None", ())
                    if last == "split_first":
                        return ("agg", "Some", (("agg", "tuple", (ord(t[0]), ("bytes", t[1:]))),)) if t else ("agg", "None", ())
                    if last == "split_at":
                        n_ = self.ev(e[2][1])
                        if not (0 <= n_ <= len(t)):
                            raise Panic("split_at out of bounds")
                        return ("agg", "tuple", (("bytes", t[:n_]), ("bytes", t[n_:])))
                    if last == "from_utf8":
                        return ("agg", "Ok", (("str", t),))
                    if last == "index":
                        rg = e[2][1]
                        while rg[0] == "ref":
                            rg = rg[1]
                        if rg[0] == "agg" and isinstance(rg[1], str) and "ops::range::Range" in rg[1]:
                            kind = rg[1].split("::")[-1]
                            vals = [self.ev(x) for x in rg[3]]
                            lo, hi = 0, len(t)
                            if kind == "Range":
                                lo, hi = vals
                            elif kind == "RangeFrom":
                                lo = vals[0]
                            elif kind == "RangeTo":
                                hi = vals[0]
                            else:
                                raise Unsupported("slice index with " + kind)
                            if not (lo <= hi <= len(t)):
                                raise Panic("slice index out of range")
                            return ("bytes", t[lo:hi])
            if last == "get" and "str" in name and len(e[2]) == 2:
                sv = self.ev(e[2][0])
                rg = e[2][1]
                while rg[0] == "ref":
                    rg = rg[1]
                if sv[0] == "str" and rg[0] == "agg" and isinstance(rg[1], str) and "ops::range::Range" in rg[1]:
                    raw = sv[1].encode("utf-8")
                    kind = rg[1].split("::")[-1]
                    lo, hi = 0, len(raw)
                    vals = [self.ev(x) for x in rg[3]]
                    if kind == "Range":
                        lo, hi = vals
                    elif kind == "RangeFrom":
                        lo = vals[0]
                    elif kind == "RangeTo":
                        hi = vals[0]
                    else:
                        raise Unsupported("str::get with " + kind)

                    def boundary(i):
                        return i == len(raw) or (0 <= i < len(raw) and (raw[i] & 0xC0) != 0x80)
                    if lo <= hi <= len(raw) and boundary(lo) and boundary(hi):
                        return ("agg", "Some", (("str", raw[lo:hi].decode("utf-8")),))
                    return ("agg", "None", ())
                raise Unsupported("str::get on %r" % (sv,))
            if last == "len" and ("str" in name or "[T]" in name):
                s = self.ev(e[2][0])
                if s[0] in ("str", "bytes"):
                    return len(s[1].encode("utf-8")) if s[0] == "str" else len(s[1])
                raise Unsupported("len of %r" % (s,))
            if last == "is_empty" and "str" in name:
                s = self.ev(e[2][0])
                return int(len(s[1]) == 0)
            if last == "is_ascii" and "str" in name:
                s = self.ev(e[2][0])
                if s[0] == "str":
                    return int(all(ord(c) < 128 for c in s[1]))
            if last == "as_bytes":
                s = self.ev(e[2][0])
                if s[0] == "str":
                    return ("bytes", s[1])
                if s[0] == "sym":
                    return ("symbytes", s[1])
            if last == "eq" and "str" in name:
                a, b = self.ev(e[2][0]), self.ev(e[2][1])
                if a[0] == "str" and b[0] == "str":
                    return int(a[1] == b[1])
                raise Unsupported("comparison of %r and %r" % (a, b))
            if last == "ne" and "str" in name:
                a, b = self.ev(e[2][0]), self.ev(e[2][1])
                if a[0] == "str" and b[0] == "str":
                    return int(a[1] != b[1])
            if last == "is_ascii_uppercase":
                return int(65 <= self.ev(e[2][0]) <= 90)
            if last == "is_ascii_lowercase":
                return int(97 <= self.ev(e[2][0]) <= 122)
            if last == "is_ascii_digit":
                return int(48 <= self.ev(e[2][0]) <= 57)
            if last == "to_ascii_lowercase":
                v = self.ev(e[2][0])
                return v + 32 if 65 <= v <= 90 else v
            if last == "to_ascii_uppercase":
                v = self.ev(e[2][0])
                return v - 32 if 97 <= v <= 122 else v
            if last == "map_err":
                v = self.ev(e[2][0])
                if v[1] == "Ok":
                    return v
                return ("agg", "Err", (self.apply(e[2][1], v[2]),))
            if last == "map" and ("Option" in name or "Result" in name):
                v = self.ev(e[2][0])
                if v[1] in ("Some", "Ok"):
                    return ("agg", v[1], (self.apply(e[2][1], v[2]),))
                return v
            if last == "and_then" and ("Option" in name or "Result" in name):
                v = self.ev(e[2][0])
                if v[1] in ("Some", "Ok"):
                    return self.apply(e[2][1], v[2])
                return v
            if last == "map_or" and ("Option" in name or "Result" in name):
                v = self.ev(e[2][0])
                if v[1] in ("Some", "Ok"):
                    return self.apply(e[2][2], v[2])
                return self.ev(e[2][1])
            if last in ("copied", "cloned", "iter", "into_iter", "fuse", "by_ref") and len(e[2]) == 1:
                v = self.ev(e[2][0])
                if isinstance(v, tuple) and v and v[0] == "symbytes":
                    return ("iter", "input", v[1], 0, tuple(range(256)) + (None,))
                if isinstance(v, tuple) and v and v[0] == "bytes":
                    return ("iter", "seq", tuple(ord(c) for c in v[1]), 0)
                return v
            if last in ("max", "min") and len(e[2]) == 2:
                a, b = self.ev(e[2][0]), self.ev(e[2][1])
                if isinstance(a, int) and isinstance(b, int):
                    return max(a, b) if last == "max" else min(a, b)
            if last in ("saturating_sub", "saturating_add") and len(e[2]) == 2:
                a, b = self.ev(e[2][0]), self.ev(e[2][1])
                if isinstance(a, int) and isinstance(b, int):
                    return max(a - b, 0) if last == "saturating_sub" else a + b
            if last == "transpose" and len(e[2]) == 1:
                v = self.ev(e[2][0])
                if v[1] == "None":
                    return ("agg", "Ok", (("agg", "None", ()),))
                if v[1] == "Some":
                    inner = v[2][0]
                    if inner[1] == "Ok":
                        return ("agg", "Ok", (("agg", "Some", inner[2]),))
                    return inner
                if v[1] == "Ok":
                    inner = v[2][0]
                    if inner[1] == "Some":
                        return ("agg", "Some", (("agg", "Ok", inner[2]),))
                    return ("agg", "None", ())
                if v[1] == "Err":
                    return ("agg", "Some", (v,))
            if last in ("is_some", "is_none", "is_ok", "is_err") and len(e[2]) == 1:
                v = self._tryev(e[2][0])
                if isinstance(v, tuple) and v and v[0] == "agg" and v[1] in ("Some", "None", "Ok", "Err"):
                    return int(v[1] == {"is_some": "Some", "is_none": "None", "is_ok": "Ok", "is_err": "Err"}[last])
            if last == "ok_or":
                v = self.ev(e[2][0])
                if v[1] == "Some":
                    return ("agg", "Ok", v[2])
                return ("agg", "Err", (self._tryev(e[2][1]),))
            if last == "ok" and "Result" in name:
                v = self.ev(e[2][0])
                return ("agg", "Some", v[2]) if v[1] == "Ok" else ("agg", "None", ())
            if last == "from" and len(e[2]) == 1:
                return self.ev(e[2][0])
            if last == "into" and len(e[2]) == 1:
                return self.ev(e[2][0])
            if last.split("::<")[0] == "then_some" and "bool" in name and len(e[2]) == 2:
                c = self.ev(e[2][0])
                if c in (0, 1):
                    return ("agg", "Some", (self.ev(e[2][1]),)) if c else ("agg", "None", ())
            if last == "unwrap_or":
                v = self.ev(e[2][0])
                return v[2][0] if v[1] in ("Some", "Ok") else self.ev(e[2][1])
        if k == "agg" and isinstance(e[1], str) and e[1].endswith("ops::range::Range"):
            lo, hi = self.ev(e[3][0]), self.ev(e[3][1])
            return ("iter", "seq", tuple(range(lo, hi)), 0)
        if k == "discr":
            v = self.ev(e[1])
            if isinstance(v, tuple) and v and v[0] == "agg":
                while len(v) == 4 and (self.facts.adts.get(v[3]) or {}).get("kind") == "struct" and v[2] and isinstance(v[2][0], tuple) \
                        and v[2][0] and v[2][0][0] == "agg":
                    v = v[2][0]        # `.0` of a tuple struct is dropped by the normal form: the wrapped value is meant
                if len(v) == 4:
                    a = self.facts.adts.get(v[3])
                    for var in (a or {}).get("variants", ()):
                        if var["name"] == v[1]:
                            return var["discr"]
                m = {"None": 0, "Some": 1, "Ok": 0, "Err": 1, "Continue": 0, "Break": 1}
                if v[1] in m:
                    return m[v[1]]
                raise Unsupported("discriminant of " + str(v[1]))
            return v
        if k == "downcast":
            v = self.ev(e[1])
            if isinstance(v, tuple) and v and v[0] == "agg" and v[1] == e[2]:
                if len(v[2]) == 1:
                    return v[2][0]
                return v if len(v) == 4 else ("agg", "tuple", v[2])
            raise Unsupported("downcast of %r to %s" % (v, e[2]))
        if k == "field":
            if e[2] not in ("#0", "#1"):
                v = self._tryev(e[1])
                if isinstance(v, tuple) and v and v[0] == "agg":
                    idx = e[3] if len(e) > 3 and isinstance(e[3], int) else None
                    if idx is None and str(e[2]).isdigit():
                        idx = int(e[2])
                    if idx is None and len(v) == 4:
                        a = self.facts.adts.get(v[3])
                        for var in (a or {}).get("variants", ()):
                            if var["name"] == v[1]:
                                names = [x.get("name") for x in var["fields"]]
                                if e[2] in names:
                                    idx = names.index(e[2])
                    if idx is not None and idx < len(v[2]):
                        return v[2][idx]
                if isinstance(v, int) and str(e[2]) == "0":
                    return v
        if k == "agg":
            flds = tuple(self._tryev(x) for x in e[3])
            a = self.facts.adts.get(e[1]) if isinstance(e[1], str) else None
            if a is not None and a.get("kind") == "struct" and flds and all(
                    isinstance(x, tuple) and x and x[0] == "agg" and x[1] == "PhantomData" for x in flds[1:]) and len(flds) > 1:
                return flds[0]      # a wrapper whose other fields are zero-sized markers: `.0` is dropped by the normal form
            if a is not None and a.get("kind") in ("enum", "struct") and a.get("krate") in ("owlchess", "owlchess_base"):
                return ("agg", e[2], flds, e[1])      # a type of the library: the type is part of the value (variant names repeat)
            return ("agg", e[2], flds)
        if k == "residual":
            return self.ev(e[1])
        if k == "un" and e[1] == "PtrMetadata":
            v = self.ev(e[2])
            if isinstance(v, tuple) and v and v[0] in ("bytes", "str"):
                return len(v[1]) if v[0] == "bytes" else len(v[1].encode("utf-8"))
            raise Unsupported("length of %r" % (v,))
        if k == "len":
            v = self.ev(e[1])
            if isinstance(v, tuple) and v and v[0] in ("bytes", "str"):
                return len(v[1])
        try:
            return TreeEval.ev(self, e)
        except TypeError:
            raise Unsupported("arithmetic on an opaque value")

    def apply(self, f, args):
        while f[0] == "ref":
            f = f[1]
        if f[0] == "fn":
            fn = self.facts.fns.get(f[1])
            if fn is not None:
                return run_function(self.facts, fn, {i + 1: a for i, a in enumerate(args)})[0]
            if any(f[1].startswith(c + "::") for c in ("core", "std", "alloc")) or f[1].startswith("<"):
                # a std function passed as a value: the same models (and the rule's oracle) as for a direct call
                return self.ev(("call", f[1], tuple(("lit", a) for a in args)))
            return ("agg", _last(f[1]), tuple(args))     # a tuple-variant constructor used as a function
        return self.call_closure(f, args)

    def _as_seq(self, name, v):
        """The receiver of a std iterator adapter as a finite sequence: a modelled iterator, or a library iterator type drained through
        its own `next` (the model of that function is evaluated until it returns None)."""
        if isinstance(v, tuple) and v and v[0] == "iter" and v[1] == "seq":
            return tuple(v[2][v[3]:])
        if isinstance(v, tuple) and v and v[0] == "bytes":
            return tuple(ord(c) for c in v[1])
        if name.startswith("<owlchess"):
            ty = name[1:].split(" as ")[0]
            nx = self.facts.fns.get("<%s as core::iter::traits::iterator::Iterator>::next" % ty)
            if nx is not None:
                items = []
                state = v
                for _ in range(300):
                    ck = (id(self.facts), nx.id, ())
                    m = _MACHINES.get(ck)
                    if m is None:
                        m = _MACHINES[ck] = Machine(self.facts, FxBuilder(self.facts, ai_mode=True, max_depth=12, max_blocks=400).tree(nx))
                    m.reset()
                    m.syms[1] = state
                    m.mem = lambda place, mm: _self_mem(place, mm)
                    r = m.start()
                    steps = 0
                    while r[0] == "at" and steps < 100:
                        r = m.resume(r[1])
                        steps += 1
                    if r[0] != "ret":
                        raise Stuck("next() of %s ends with %s" % (ty, r[0]))
                    for k_, hist in m.memv.items():
                        if k_.startswith("*self") or k_.startswith("(*self)"):
                            state = hist[-1]
                    val = r[1]
                    if not (isinstance(val, tuple) and val[0] == "agg" and val[1] in ("Some", "None")):
                        raise Stuck("next() of %s returns %r" % (ty, val))
                    if val[1] == "None":
                        return tuple(items)
                    items.append(val[2][0])
                raise Stuck("iterator of %s does not end" % ty)
        raise Stuck("iterator value %r" % (v,))

    def _named_bytes(self, name):
        """Bytes of a constant that is (a reference to) a byte string, or None."""
        c = self.facts.consts.get(name)
        ty = self.facts.ty_str(c["ty"]) if c else ""
        if "u8" not in ty:
            return None
        if c and "ptr" in c["v"] and "alloc" in c["v"]["ptr"]:
            a = self.facts.allocs.get(str(c["v"]["ptr"]["alloc"]))
            if a is not None and not a.get("relocs"):
                return bytes.fromhex(a["bytes"])[int(c["v"]["ptr"].get("off", 0)):]
            return None
        try:
            raw, relocs = self.facts.table_bytes(name)
        except KeyError:
            return None
        if relocs and len(raw) in (8, 16):
            off, target = relocs[0]
            if isinstance(target, dict) and "alloc" in target:
                a = self.facts.allocs.get(str(target["alloc"]))
                if a is not None and not a.get("relocs"):
                    b = bytes.fromhex(a["bytes"])[int(target.get("off", 0)):]
                    if len(raw) == 16:
                        b = b[:int.from_bytes(raw[8:16], "little")]
                    return b
            return None
        if not relocs:
            return raw
        return None

    def _typed_const(self, name):
        """A constant array of tuples / plain values decoded through the layout the compiler reports (a sequence), or None."""
        c = self.facts.consts.get(name)
        if not c or "mem" not in c.get("v", {}):
            return None
        t = self.facts.types[c["ty"]]
        if t.get("k") != "array":
            return None
        a = self.facts.allocs.get(str(c["v"]["mem"]["alloc"]))
        if a is None:
            return None
        raw = bytes.fromhex(a["bytes"])
        relocs = {int(o): tg for o, tg in a.get("relocs", [])}
        base = int(c["v"]["mem"].get("off", 0))
        n = int(t["len"])
        if n == 0:
            return ("iter", "seq", (), 0)
        esize = c["v"]["size"] // n
        try:
            return ("iter", "seq", tuple(self._decode(t["of"], raw, relocs, base + i * esize) for i in range(n)), 0)
        except Unsupported:
            return None

    def _decode(self, ti, raw, relocs, off):
        t = self.facts.types[ti]
        k = t.get("k")
        if k == "int":
            w = int(t["w"]) // 8
            return int.from_bytes(raw[off:off + w], "little")
        if k in ("bool", "char"):
            w = 1 if k == "bool" else 4
            return int.from_bytes(raw[off:off + w], "little")
        if k == "tuple" and t.get("offsets") is not None:
            return ("agg", "tuple", tuple(self._decode(x, raw, relocs, off + int(o)) for x, o in zip(t["of"], t["offsets"])))
        if k == "ref":
            to = self.facts.types[t["to"]]
            tg = relocs.get(off)
            if to.get("k") == "str" and isinstance(tg, dict) and "alloc" in tg:
                n = int.from_bytes(raw[off + 8:off + 16], "little")
                a = self.facts.allocs.get(str(tg["alloc"]))
                if a is not None:
                    o = int(tg.get("off", 0))
                    return ("str", bytes.fromhex(a["bytes"])[o:o + n].decode("utf-8", "replace"))
            raise Unsupported("constant reference")
        if k == "adt":
            a = self.facts.adts.get(t.get("key")) or self.facts.adts.get(t.get("path"))
            if a and a["kind"] == "enum" and all(not v["fields"] for v in a["variants"]) and a.get("size") in (1, 2, 4, 8):
                return int.from_bytes(raw[off:off + int(a["size"])], "little")
            if a and a["kind"] == "struct" and a.get("offsets") is not None and len(a["variants"]) == 1:
                fs = a["variants"][0]["fields"]
                vals = tuple(self._decode(f["ty"], raw, relocs, off + int(o)) for f, o in zip(fs, a["offsets"]))
                if len(vals) == 1 and isinstance(vals[0], int):
                    return vals[0]                     # transparent newtype
                return ("agg", a["variants"][0]["name"], vals, a["path"])
        raise Unsupported("constant of type %s" % (t.get("n") or k))

    def _str_table(self, name, i):
        """Element i of a constant `[&str; N]` (fat pointers with relocations), or None if the table is not one."""
        try:
            raw, relocs = self.facts.table_bytes(name)
        except KeyError:
            return None
        if not relocs or len(raw) % 16:
            return None
        if not (0 <= i < len(raw) // 16):
            raise Panic("index out of bounds")
        for off, target in relocs:
            if int(off) == 16 * i:
                n = int.from_bytes(raw[16 * i + 8:16 * i + 16], "little")
                if isinstance(target, dict) and "alloc" in target:
                    a = self.facts.allocs.get(str(target["alloc"]))
                    if a is None:
                        return None
                    b = bytes.fromhex(a["bytes"])
                    o = int(target.get("off", 0))
                    return ("str", b[o:o + n].decode("utf-8", "replace"))
        return None

    def call_closure(self, clo, args):
        while clo[0] == "ref":
            clo = clo[1]
        if clo[0] == "agg" and clo[1] == "closure":
            path = clo[2]
        else:
            raise Stuck("closure value " + show(clo)[:60])
        fn = None
        for k, f in self.facts.fns.items():
            if f.def_path == path or k == path:
                fn = f
                break
        if fn is None:
            raise Stuck("closure body of " + str(path))
        params = {i + 2: a for i, a in enumerate(args)}
        if len(clo) > 3 and clo[3]:
            # captured variables: the environment is the closure's first parameter
            params[1] = ("agg", "closure", tuple(self._tryev(x) for x in clo[3]))
        r = run_function(self.facts, fn, params, deref_self=True)
        return r[0]


_MACHINES = {}


def run_function(facts, fn, params, mem=None, oracle=None, deref_self=False, inputs=None, stop=()):
    """Run a (loop-free or deterministic-loop) function model to its return: (value, output pieces)."""
    ck = (id(facts), fn.id, tuple(sorted(stop)))
    m = _MACHINES.get(ck)
    if m is None:
        fb = FxBuilder(facts, ai_mode=True, max_depth=12, max_blocks=400, stop=stop)
        m = _MACHINES[ck] = Machine(facts, fb.tree(fn))
    m.reset()
    m.mem, m.user_oracle = mem, oracle
    for i, v in params.items():
        m.syms[i] = v
    m.inputs = dict(inputs or {})
    if deref_self and mem is None:
        m.mem = lambda place, mm: _self_mem(place, mm)
    r = m.start()
    out = list(m.out)
    steps = 0
    while r[0] == "at":
        steps += 1
        if steps > 5000:
            raise Stuck("no termination within 5000 loop steps")
        r = m.resume(r[1])
        out += m.out
        m.out = []
    if r[0] == "panic":
        raise Panic(str(r[1]))
    return r[1], out


def _self_mem(place, m):
    """A read through a by-reference parameter (or a reference a call returned) that holds a plain value: the place is resolved
    inside that value."""
    def get(x):
        return val(x) if x[0] in ("deref", "ref", "downcast", "field") else m.ev(x)

    def val(p):
        if p[0] == "deref" and p[1][0] == "param":
            return m.ev(p[1])
        if p[0] in ("deref", "ref"):
            return get(p[1])
        if p[0] == "downcast":
            v = get(p[1])
            while (isinstance(v, tuple) and len(v) == 4 and v[0] == "agg" and v[1] != p[2] and len(v[2]) == 1
                   and isinstance(v[2][0], tuple) and v[2][0][:1] == ("agg",)):
                v = v[2][0]                            # a newtype around the enum: `.0` is dropped from places
            if isinstance(v, tuple) and v and v[0] == "agg" and v[1] == p[2]:
                return v[2][0] if len(v[2]) == 1 else v      # same convention as expressions: a one-field variant is its payload
            raise Unsupported("downcast of %r to %s" % (v, p[2]))
        if p[0] == "field":
            v = get(p[1])
            if isinstance(v, int) and str(p[2]) == "0":
                return v                               # transparent newtype
            if p[1][0] == "downcast" and not (isinstance(v, tuple) and v[:1] == ("agg",) and len(v) == 4 and v[1] == p[1][2]):
                return v                               # the payload of a one-field variant
            if isinstance(v, tuple) and v and v[0] == "agg":
                idx = p[3] if len(p) > 3 and isinstance(p[3], int) else None
                if idx is None and str(p[2]).lstrip("#").isdigit():
                    idx = int(str(p[2]).lstrip("#"))
                if idx is None and len(v) == 4:
                    a = m.facts.adts.get(v[3])
                    for var in (a or {}).get("variants", ()):
                        if var["name"] == v[1]:
                            names = [x.get("name") for x in var["fields"]]
                            if p[2] in names:
                                idx = names.index(p[2])
                if idx is not None and idx < len(v[2]):
                    return v[2][idx]
            raise Unsupported("field %s of %r" % (p[2], v))
        raise Unsupported("memory read " + show(place)[:60])
    return val(place)
