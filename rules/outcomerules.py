"""Outcome classification rules (C07 O1-O3)."""
from itertools import product

from . import decision
from .fx import FxBuilder, walk_tree, unstamp
from .expr import show, norm_bin
from .attackrules import _is_inv_of_side, atom
from .boardsim import cell, KING, KNIGHT, BISHOP, WHITE, BLACK

T = "owlchess_base::types::"
LIGHT = 0xaa55aa55aa55aa55
DARK = 0x55aa55aa55aa55aa


def _variant_name(facts, path, val):
    for v in facts.adts[path]["variants"]:
        if v["discr"] == val:
            return v["name"]
    return None


def classify_outcome(facts, ret):
    """-> ("none",) | ("draw", reason) | ("win", winner_expr_kind, reason) | ("?", text)"""
    if ret is None:
        return ("?", "no return")
    if ret[0] == "agg" and ret[2] == "None":
        return ("none",)
    if ret[0] == "agg" and ret[2] == "Some":
        o = ret[3][0]
        if o[0] == "agg" and o[1] == T + "Outcome":
            if o[2] == "Draw" and o[3][0][0] == "const":
                return ("draw", _variant_name(facts, T + "DrawReason", o[3][0][1]))
            if o[2] == "Win":
                side, reason = o[3][0], o[3][1]
                w = "opponent-of-side-to-move" if _is_inv_of_side(side) else show(side)
                rn = _variant_name(facts, T + "WinReason", reason[1]) if reason[0] == "const" else show(reason)
                return ("win", w, rn)
    return ("?", show(ret))


def calc_outcome_rule(ctx, facts, rid):
    r = ctx.rule(rid, "Board::calc_outcome classification and precedence over all abstract inputs")
    fn = facts.fns.get("owlchess::board::Board::calc_outcome")
    if fn is None:
        r.anchor_missing("owlchess::board::Board::calc_outcome")
        return
    fb = FxBuilder(facts, stop=("owlchess::movegen::has_legal_moves", "owlchess::board::Board::is_check",
                                "owlchess::board::Board::is_insufficient_material"))
    tree = fb.tree(fn)

    def rec(d):
        s = show(d)
        if d[0] == "const":
            return ("ignore",)
        if s == "has_legal_moves(self)":
            return ("pred", "moves", True)
        if s == "is_check(self)":
            return ("pred", "check", True)
        if s == "is_insufficient_material(self)":
            return ("pred", "insuf", True)
        if d[0] == "bin" and d[1] in ("Ge", "Gt", "Lt", "Le", "Eq", "Ne"):
            a, b = d[2], d[3]
            if show(a) == "*self.r.move_counter" and b[0] == "const":
                return ("cmp", "clock", d[1], b[1])
            if show(b) == "*self.r.move_counter" and a[0] == "const":
                flip = {"Ge": "Le", "Gt": "Lt", "Lt": "Gt", "Le": "Ge", "Eq": "Eq", "Ne": "Ne"}[d[1]]
                return ("cmp", "clock", flip, a[1])
        if d[0] == "discr" and d[1][0] == "agg":
            return ("ignore",)
        if s == "discr(*self.r.side)":
            return ("discr", "side")
        return None

    paths = decision.extract(tree, rec)
    unknown = sorted({u for p in paths for u in p.unknown})
    r.check(not unknown, "calc_outcome/conditions", "calc_outcome tests conditions this rule does not understand: %s" % unknown[:4],
            site=ctx.site(fn), what="all branch conditions recognised")
    clocks = [0, 1, 98, 99, 100, 101, 149, 150, 151, 65535]
    for moves, check, insuf, clock, side in product((False, True), (False, True), (False, True), clocks, (0, 1)):
        if not moves:
            want = ("win", str(1 - side), "Checkmate") if check else ("draw", "Stalemate")
        elif insuf:
            want = ("draw", "InsufficientMaterial")
        elif clock >= 150:
            want = ("draw", "Moves75")
        elif clock >= 100:
            want = ("draw", "Moves50")
        else:
            want = ("none",)
        pt = {"moves": moves, "check": check, "insuf": insuf, "clock": clock, "side": side}
        ms = decision.evaluate(paths, pt)
        key = "calc_outcome(moves=%s,check=%s,insufficient=%s,clock=%d,side=%s)" % (moves, check, insuf, clock, "WB"[side])
        # conditions that are not consulted on a path are "don't care": several paths cannot match one point, but a path may omit keys
        ms = [p for p in ms]
        if len(ms) != 1:
            # paths that do not test a key match regardless; accept if all matching paths agree
            res = {classify_outcome(facts, p.ret) for p in _loose(paths, pt)}
            if len(res) == 1:
                got = res.pop()
            else:
                r.fail(key, "%s: %d paths apply (%s)" % (key, len(res), sorted(map(str, res))), site=ctx.site(fn))
                continue
        else:
            got = classify_outcome(facts, ms[0].ret)
        r.check(got == want, key, "%s returns %s, the statement prescribes %s" % (key, got, want), site=ctx.site(fn), what=key)


def _loose(paths, point):
    """Paths consistent with the point where a path is allowed not to test some predicates."""
    out = []
    for p in paths:
        if p.end != "ret" or p.unknown:
            continue
        ok = True
        for c in p.conds:
            if c[0] == "cmp":
                if not decision._cmp(c[2], point[c[1]], c[3]) == c[4]:
                    ok = False
            elif c[0] == "discr":
                v = point.get(c[1])
                if v is not None and ((c[2] == "else" and v in c[3]) or (c[2] != "else" and v not in c[2])):
                    ok = False
            else:
                if c[0] in point and point[c[0]] != c[1]:
                    ok = False
        if ok:
            out.append(p)
    return out


def insufficient_rule(ctx, facts, rid):
    r = ctx.rule(rid, "is_insufficient_material decides exactly: bare kings, a single knight, or only bishops of one square colour")
    fn = facts.fns.get("owlchess::board::Board::is_insufficient_material")
    if fn is None:
        r.anchor_missing("owlchess::board::Board::is_insufficient_material")
        return
    # square-colour constants: complementary, and LIGHT is a checkerboard
    try:
        light = facts.table_u64("owlchess_base::bitboard_consts::LIGHT_SQUARES")[0]
        dark = facts.table_u64("owlchess_base::bitboard_consts::DARK_SQUARES")[0]
    except KeyError as e:
        r.anchor_missing(str(e))
        return
    checker = 0
    for s in range(64):
        if ((s & 7) + (s >> 3)) % 2 == 0:
            checker |= 1 << s
    r.check({light, dark} == {checker, checker ^ ((1 << 64) - 1)}, "LIGHT/DARK", "LIGHT_SQUARES/DARK_SQUARES are not the two square colours",
            what="LIGHT/DARK are the two checkerboard colours and complementary")
    fb = FxBuilder(facts)
    tree = fb.tree(fn)
    ps = lambda c: ("tbl", ("field", ("deref", ("param", 1, "self")), "pieces"), ("const", c, "usize"))

    def PS(c):
        return ("PS", c)
    kings = ("OR", frozenset([PS(cell(WHITE, KING)), PS(cell(BLACK, KING))]))
    knights = ("OR", frozenset([PS(cell(WHITE, KNIGHT)), PS(cell(BLACK, KNIGHT))]))
    bishops = ("OR", frozenset([PS(cell(WHITE, BISHOP)), PS(cell(BLACK, BISHOP))]))

    def is_awk(e):
        e = unstamp(e)
        if e[0] == "bin" and e[1] == "BitXor":
            a, b = atom(e[2]), atom(e[3])
            return {a, b} == {kings, ("E", "*self.all")}
        return False

    def rec(d):
        if d[0] == "const":
            return ("ignore",)
        if d[0] == "bin" and d[1] in ("Ne", "Eq"):
            a, b = d[2], d[3]
            pos = d[1] == "Eq"
            zero = ("const", 0, "u64")
            if a == zero or b == zero:
                x = b if a == zero else a
                if is_awk(x):
                    return ("pred", "E", pos)
                if x[0] == "bin" and x[1] == "BitAnd":
                    p, q = x[2], x[3]
                    c = p if p[0] == "const" else (q if q[0] == "const" else None)
                    o = q if c is p else p
                    if c is not None and is_awk(o):
                        if c[1] == light:
                            return ("pred", "L", not pos)
                        if c[1] == dark:
                            return ("pred", "D", not pos)
                return None
            one = ("const", 1, "u32")
            if a == one or b == one:
                x = b if a == one else a
                if x[0] == "call" and x[1].endswith("count_ones") and atom(x[2][0]) == knights:
                    return ("pred", "K1", pos)
                return None
            for x, y in ((a, b), (b, a)):
                if is_awk(x):
                    ay = atom(y)
                    if ay == knights:
                        return ("pred", "KN", pos)
                    if ay == bishops:
                        return ("pred", "BS", pos)
        return None

    paths = decision.extract(tree, rec)
    unknown = sorted({u for p in paths for u in p.unknown})
    r.check(not unknown, "insufficient/conditions", "is_insufficient_material tests conditions this rule does not understand: %s" % unknown[:3],
            site=ctx.site(fn), what="all material tests recognised (awk = all ^ kings, knights, bishops, LIGHT/DARK)")
    if unknown:
        return
    n = 0
    bad = None
    for nl, nd, bl, bd, ol, od in product(range(3), repeat=6):
        N, Bp, O = nl + nd, bl + bd, ol + od
        pt = {
            "L": (nl + bl + ol) > 0, "D": (nd + bd + od) > 0, "E": N + Bp + O == 0,
            "KN": Bp + O == 0, "K1": N == 1, "BS": N + O == 0,
        }
        want = (N + Bp + O == 0) or (Bp + O == 0 and N == 1) or (N + O == 0 and Bp > 0 and (bl == 0 or bd == 0))
        res = set()
        for p in _loose(paths, pt):
            res.add(p.ret)
        n += 1
        got = None
        if len(res) == 1:
            rv = res.pop()
            if rv is not None and rv[0] == "const":
                got = rv == ("const", 1, "bool")
            elif rv is not None:
                # the last test returned as a value (`a == b` as tail expression)
                rc = rec(rv)
                if rc is not None and rc[0] == "pred":
                    got = pt[rc[1]] == rc[2]
        if got != want and bad is None:
            bad = (dict(knights=(nl, nd), bishops=(bl, bd), others=(ol, od)), got, want)
    r.check(bad is None, "insufficient/table", "is_insufficient_material on material (light,dark counts) %s returns %s, the statement says %s"
            % (bad if bad else ("", "", "")), site=ctx.site(fn), what="all %d abstract material configurations" % n, detail={"configs": n})


# ---------------------------------------------------------------------------------------------- O3 / generator structure

GEN = "owlchess::movegen::MoveGenImpl::<'a, P, C>::"
LEAVES = ("do_gen_pawn_single", "do_gen_pawn_double", "do_gen_pawn_capture", "gen_pawn_enpassant", "do_gen_kn", "do_gen_brq",
          "gen_castling")


_folder = {}


def const_reachable_blocks(facts, fn):
    """Blocks reachable from the entry when switches on compile-time constants (const generics, associated
    constants of the colour parameter) only take their constant edge."""
    from .expr import Builder
    if id(facts) not in _folder:
        _folder[id(facts)] = (Builder(facts), FxBuilder(facts))
    b, fx = _folder[id(facts)]
    body = fn.body
    seen = set()
    stack = [0]
    while stack:
        x = stack.pop()
        if x in seen:
            continue
        seen.add(x)
        t = body.blocks[x]["term"]
        if t["k"] == "switch":
            c = fx.fold(b.operand(body, t["d"]))
            if c is not None:
                nxt = t["else"]
                for v, tb in t["cases"]:
                    if int(v) == c[1]:
                        nxt = tb
                stack.append(nxt)
                continue
        stack.extend(body.succ(x))
    return seen


def emitter_set(facts, root):
    """Leaf emitters reachable from a MoveGenImpl method instance: set of (leaf name, colour, const generics, constant piece)."""
    from .expr import Builder
    b = Builder(facts)
    out = set()
    seen = set()
    stack = [root]
    while stack:
        fn = stack.pop()
        if fn.id in seen:
            continue
        seen.add(fn.id)
        live = const_reachable_blocks(facts, fn)
        for bi, t in fn.body.calls():
            if bi not in live:
                continue
            f = t["f"]
            if "inst" not in f:
                continue
            callee = facts.fns[f["inst"]]
            if not callee.def_path.startswith(GEN):
                continue
            name = callee.def_path[len(GEN):]
            if name in LEAVES:
                consts = tuple(a for a in callee.args if a in ("true", "false"))
                colour = [a for a in callee.args if a.startswith("owlchess::generic::")]
                piece = None
                if name in ("do_gen_kn", "do_gen_brq") and len(t["args"]) >= 2:
                    pe = b.operand(fn.body, t["args"][1])
                    if pe[0] == "const":
                        piece = pe[1]
                    else:
                        pf = FxBuilder(facts).fold(pe) if pe else None
                        piece = pf[1] if pf else show(pe)
                out.add((name, colour[0].split("::")[-1] if colour else "?", consts, piece))
            else:
                stack.append(callee)
    return out


def has_legal_moves_rule(ctx, facts, rid):
    r = ctx.rule(rid, "has_legal_moves runs every emitter of the full generator except castling through the legality filter and stops at the first")
    n = 0
    for col in ("White", "Black"):
        hl = [f for f in facts.instances(GEN + "gen_for_has_legal_moves") if "owlchess::generic::" + col in f.args]
        ga = [f for f in facts.instances(GEN + "gen_all") if "owlchess::generic::" + col in f.args]
        if not hl or not ga:
            r.anchor_missing(GEN + "gen_for_has_legal_moves / gen_all (%s)" % col)
            continue
        a = emitter_set(facts, hl[0])
        full = emitter_set(facts, ga[0])
        full_nc = {x for x in full if x[0] != "gen_castling"}
        n += 1
        missing = sorted(map(str, full_nc - a))
        extra = sorted(map(str, a - full_nc))
        r.check(not missing and not extra, "has_legal_moves/emitters/" + col,
                "gen_for_has_legal_moves::<%s> does not run the same emitters as the full generator minus castling: missing %s, extra %s "
                "(a position whose only legal move comes from a missing emitter would be reported as mate/stalemate)" % (col, missing, extra),
                site=ctx.site(hl[0]), what="emitters(%s) = emitters(gen_all) - castling (%d emitters)" % (col, len(full_nc)))
        r.check(any(x[0] == "gen_castling" for x in full), "gen_all/castling/" + col, "gen_all::<%s> does not generate castling" % col,
                site=ctx.site(ga[0]), what="gen_all(%s) includes castling" % col)
    # sink and polarity
    fn = facts.fns.get("owlchess::movegen::has_legal_moves")
    if fn is None:
        r.anchor_missing("owlchess::movegen::has_legal_moves")
        return
    callees = [(t["f"].get("inst") or t["f"].get("ext") or "") for _bi, t in fn.body.calls()]
    ok_sink = any(c.startswith("owlchess::movegen::LegalFilter::<'_, owlchess::movegen::ErrOnFirst>::new") for c in callees)
    ok_gen = sum(1 for c in callees if "gen_for_has_legal_moves" in c and "LegalFilter<'_, owlchess::movegen::ErrOnFirst>" in c) == 2
    fb = FxBuilder(facts, stop=(GEN + "gen_for_has_legal_moves", "owlchess::movegen::LegalFilter::<'a, P>::new"))
    tree = fb.tree(fn)
    ret = [x[1] for x in tree if x[0] == "ret"]
    s = show(unstamp(ret[0])) if ret else ""
    ok_pol = s.startswith("is_err(") and "Not(" not in s
    r.check(ok_sink and ok_gen and ok_pol, "has_legal_moves/sink", "has_legal_moves is not `gen_for_has_legal_moves into LegalFilter<ErrOnFirst>`.is_err() "
            "(sink=%s both-colours=%s result=%s)" % (ok_sink, ok_gen, s), site=ctx.site(fn), what="LegalFilter<ErrOnFirst> sink, result .is_err()")
    eo = facts.fns.get("<owlchess::movegen::ErrOnFirst as owlchess::movegen::MaybeMovePush>::push")
    if eo is not None:
        fb2 = FxBuilder(facts)
        ret = [x[1] for x in fb2.tree(eo) if x[0] == "ret"]
        r.check(bool(ret) and ret[0][0] == "agg" and ret[0][2] == "Err", "ErrOnFirst::push", "ErrOnFirst::push does not return Err", site=ctx.site(eo),
                what="ErrOnFirst::push returns Err(())")
    r.floor(n, 2, "colour instances of gen_for_has_legal_moves")
    ctx.assume("castling is skipped in has_legal_moves: if castling is legal then the king's single step towards the rook is legal too")
