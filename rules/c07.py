"""C07 - the outcome of a position is classified exactly."""
from . import shared
from . import outcomerules


def run(ctx):
    facts = ctx.facts("dev")
    ctx.decided += [
        "O1 Board::calc_outcome evaluated on every abstract input (has-legal-move x in-check x insufficient-material x clock in "
        "{0,1,98..101,149..151,65535}) returns exactly the outcome and precedence of the statement; winner = opponent of the side to move",
        "O2 is_insufficient_material, whose tests are recognised as predicates over (all ^ kings), knights, bishops and the two square-colour "
        "masks, agrees with 'bare kings | single knight | only bishops of one square colour' on all 729 abstract material configurations; "
        "LIGHT/DARK are the two checkerboard colours",
        "O3 gen_for_has_legal_moves reaches exactly the emitters of the full generator except castling, for both colours; its sink is "
        "LegalFilter<ErrOnFirst> and the result is .is_err()",
    ]
    ctx.not_decided += ["that the legal move set itself is right (C01/C06) and that occupancy sets match the squares (C05); "
                        "castling omission in has_legal_moves rests on a chess argument recorded as an assumption"]
    outcomerules.calc_outcome_rule(ctx, facts, "O1")
    outcomerules.insufficient_rule(ctx, facts, "O2")
    outcomerules.has_legal_moves_rule(ctx, facts, "O3")
    shared.legality_component(ctx, facts, "O4", "has_legal_moves and therefore mate/stalemate use the legality filter")
    shared.attack_component(ctx, facts, "O5", "is_check decides between checkmate and stalemate")
