"""Value-type rules: character tables, operator impls, Coord::shift (C20 E2; C12 P2 alphabets)."""
from .fx import FxBuilder, walk_tree, unstamp
from .expr import show, Builder, N
from .teval import TreeEval, Unsupported, Panic

T = "owlchess_base::types::"
OPT = "core::option::Option"


def _fold_ret(fb, fn, env):
    tree = fb.tree(fn, env=env)
    if any(n[0] == "panic" for n, _c, _i in walk_tree(tree)):
        return ("panic",)
    ret = [x[1] for x in tree if x[0] == "ret"]
    return unstamp(ret[0]) if ret else None


def char_tables_rule(ctx, facts, rid):
    r = ctx.rule(rid, "character conversions: from_char accepts exactly the documented spellings and inverts as_char (all code points 0..=0x2FF sampled exhaustively, plus the formatters' full range)")
    fb = FxBuilder(facts)
    specs = [
        ("File", "abcdefgh", lambda ch: "abcdefgh".index(ch)),
        ("Rank", "12345678", lambda ch: 8 - int(ch)),
        ("Color", "wb", lambda ch: "wb".index(ch)),
        ("Cell", ".PKNBRQpknbrq", lambda ch: ".PKNBRQpknbrq".index(ch)),
    ]
    for ty, alphabet, idx in specs:
        fc = facts.fns.get(T + ty + "::from_char")
        ac = facts.fns.get(T + ty + "::as_char")
        if fc is None or ac is None:
            r.anchor_missing(T + ty + "::from_char/as_char")
            continue
        bad = None
        n = 0
        # the model of from_char (narrowing casts kept) on: every code point below 0x300, and every scalar value that shares its low
        # byte or its low 16 bits with a documented spelling (what a cast to a narrower integer would confuse)
        from .machine import run_function, Stuck
        from .teval import Unsupported, Panic
        codes = list(range(0x300))
        for a in alphabet:
            codes += [ord(a) + 0x100 * k_ for k_ in range(3, 0x100)] + [ord(a) + 0x10000 * k_ for k_ in range(1, 0x11)]
        codes = [c_ for c_ in codes if not (0xD800 <= c_ <= 0xDFFF) and c_ <= 0x10FFFF]
        for code in codes:
            try:
                v = run_function(facts, fc, {1: code})[0]
                got = ("Some", v[2][0]) if isinstance(v, tuple) and v[0] == "agg" and v[1] == "Some" else \
                    (("None",) if isinstance(v, tuple) and v[0] == "agg" and v[1] == "None" else ("?", repr(v)[:40]))
            except Panic as ex:
                got = ("panic", str(ex)[:40])
            except (Stuck, Unsupported) as ex:
                got = ("not evaluable", str(ex)[:60])
            n += 1
            ch = chr(code)
            want = ("Some", idx(ch)) if ch in alphabet else ("None",)
            if got != want and bad is None:
                bad = (code, "%s (U+%04X)" % (" ".join(str(x) for x in got), code))
        r.check(bad is None, ty + "::from_char", "%s::from_char(%r) = %s; documented spellings are exactly %r"
                % (ty, chr(bad[0]) if bad else "", bad[1] if bad else "", alphabet), site=ctx.site(fc), what="%s::from_char on %d code points" % (ty, n))
        badw = None
        for i, ch in enumerate(alphabet):
            try:
                v = run_function(facts, ac, {1: idx(ch)}, deref_self=True)[0]
            except (Stuck, Unsupported, Panic) as ex:
                v = "not evaluable: %s" % str(ex)[:60]
            if v != ord(ch) and badw is None:
                badw = (ch, repr(chr(v)) if isinstance(v, int) and 0 <= v < 0x110000 else str(v))
        r.check(badw is None, ty + "::as_char", "%s::as_char of the value spelled %r gives %s" % (ty, badw[0] if badw else "", badw[1] if badw else ""),
                site=ctx.site(ac), what="%s::as_char inverts from_char on all %d values" % (ty, len(alphabet)))


def operator_rule(ctx, facts, rid):
    r = ctx.rule(rid, "Bitboard's derived operators and raw conversions are the same-named u64 primitive on the wrapped word")
    b = Builder(facts)
    BB = "owlchess_base::bitboard::Bitboard"
    ops = {
        "<%s as core::ops::bit::BitAnd>::bitand" % BB: "BitAnd", "<%s as core::ops::bit::BitOr>::bitor" % BB: "BitOr",
        "<%s as core::ops::bit::BitXor>::bitxor" % BB: "BitXor",
    }
    for name, op in ops.items():
        fn = facts.fns.get(name)
        if fn is None:
            r.anchor_missing(name)
            continue
        e = N(b.place(fn.body, {"l": 0, "p": []}))
        p1, p2 = ("param", 1, fn.body.names.get(1, "_1")), ("param", 2, fn.body.names.get(2, "_2"))
        from .expr import norm_bin
        r.check(e == norm_bin(op, p1, p2), name.split("::")[-1], "%s is %s" % (name, show(e)), site=ctx.site(fn), what="%s = u64 %s" % (name.split("::")[-1], op))
    fn = facts.fns.get("<%s as core::ops::bit::Not>::not" % BB)
    if fn is None:
        r.anchor_missing("Not for Bitboard")
    else:
        e = N(b.place(fn.body, {"l": 0, "p": []}))
        r.check(e == ("un", "Not", ("param", 1, fn.body.names.get(1, "_1"))), "not", "Bitboard::not is %s" % show(e), site=ctx.site(fn), what="not = !u64")
    fb = FxBuilder(facts)
    for name, op in (("BitAndAssign>::bitand_assign", "BitAnd"), ("BitOrAssign>::bitor_assign", "BitOr"), ("BitXorAssign>::bitxor_assign", "BitXor")):
        full = "<%s as core::ops::bit::%s" % (BB, name)
        fn = facts.fns.get(full)
        if fn is None:
            r.anchor_missing(full)
            continue
        st = [n for n, _c, _i in walk_tree(fb.tree(fn)) if n[0] == "store"]
        ok = len(st) == 1 and show(unstamp(st[0][1])) == "*self" and show(unstamp(st[0][2])) in ("(*self %s rhs)" % op, "(rhs %s *self)" % op)
        r.check(ok, name.split("::")[-1], "%s stores %s" % (full, [(show(unstamp(x[1])), show(unstamp(x[2]))) for x in st]), site=ctx.site(fn),
                what="%s: *self = *self %s rhs" % (name.split("::")[-1], op))
    for name, want in (("owlchess_base::bitboard::Bitboard::as_raw", ("deref", ("param", 1, "self"))),
                       ("owlchess_base::bitboard::Bitboard::from_raw", ("param", 1, "val")),
                       ("<owlchess_base::bitboard::Bitboard as core::convert::From<u64>>::from", ("param", 1, "u")),
                       ("owlchess_base::bitboard::<impl core::convert::From<owlchess_base::bitboard::Bitboard> for u64>::from", ("param", 1, "b"))):
        fn = facts.fns.get(name)
        if fn is None:
            r.anchor_missing(name)
            continue
        e = N(b.place(fn.body, {"l": 0, "p": []}))
        r.check(e[0] == want[0] and (e[0] != "param" or e[1] == 1), name.split("::")[-1] + "/" + name.split("::")[-2][-12:],
                "%s is %s, expected the wrapped word" % (name, show(e)), site=ctx.site(fn), what=name.split("::")[-1] + " is the identity on the word")


def shift_rule(ctx, facts, rid):
    r = ctx.rule(rid, "Coord::shift is None exactly when a component leaves the board, else the square with the shifted file and rank")
    fn = facts.fns.get(T + "Coord::shift")
    if fn is None:
        r.anchor_missing(T + "Coord::shift")
        return
    fb = FxBuilder(facts)
    tree = fb.tree(fn, env=[("sym", "c"), ("sym", "df"), ("sym", "dr")])
    te = TreeEval(facts)
    bad = None
    n = 0
    try:
        for c in range(64):
            for df in range(-9, 10):
                for dr in range(-9, 10):
                    res = te.run(tree, {"c": c, "df": df & ((1 << 64) - 1), "dr": dr & ((1 << 64) - 1)})
                    n += 1
                    f, rk = (c & 7) + df, (c >> 3) + dr
                    want = ("agg", "Some", (rk * 8 + f,)) if (0 <= f < 8 and 0 <= rk < 8) else ("agg", "None", ())
                    got = res[1] if res else None
                    if got != want and bad is None:
                        bad = (c, df, dr, got, want)
    except (Unsupported, Panic) as e:
        bad = ("not evaluable", repr(e), "", "", "")
    r.check(bad is None, "Coord::shift", "Coord::shift(%s, %s, %s) = %s, expected %s" % (bad if bad else ("", "", "", "", "")), site=ctx.site(fn),
            what="Coord::shift on %d (square, dfile, drank) points" % n)
    ctx.extra["shift_points"] = n
