"""The semilegal generator, read as set algebra.

Every `add_move` site of `MoveGenImpl::gen` sits inside loops over the set bits of bitboard expressions
(`for dst in advance_forward(pawns) & !all`, `for src in knights { for dst in attack::knight(src) & allowed }`).
From the effect tree the rule extracts, per site, the constant (kind, piece), the source and destination as
functions of the loop items, and the set expressions iterated. "The move (S, D) is emitted" is then a closed
condition: S and D determine the loop items, and membership of a square in a set expression is evaluated
structurally (constants, table reads, and/or/not, shifts, the board's piece and occupancy sets), never by
running a loop. That condition is compared, for all 64x64 square pairs and small abstract boards (what stands
on the source, the destination, the square in between, blockers, the en-passant mark), with the semilegality
reference written from the rules of chess (the same one C06/G6 compares the validator with).

Sliding attacks: `attack::bishop/rook(src, occ)` are not expanded; their meaning - the squares reached along
empty lines - is what C15/T2-T3 prove about them, and is used here as their definition."""
from . import geom
from .fx import FxBuilder, unstamp, resolve_phi, simplify_variants
from .expr import show
from .genrules import wf_ref, _ref_semilegal, _scenarios
from .boardsim import cell, PAWN, KING, KNIGHT, BISHOP, ROOK, QUEEN, WHITE, BLACK, KINDS

MG = "owlchess::movegen::MoveGenImpl::<'_, owlchess::movegen::UnsafeMoveList, owlchess::generic::%s>::gen::<true, true, true, true>"
ADD = "owlchess::movegen::MoveGenImpl::<'a, P, C>::add_move"
STOP = {ADD, "owlchess::attack::bishop", "owlchess::attack::rook", "owlchess::movegen::MoveGenImpl::<'a, P, C>::gen_castling"}
M64 = (1 << 64) - 1
_ARITH = {"BitAnd": lambda a, b: a & b, "BitOr": lambda a, b: a | b, "BitXor": lambda a, b: a ^ b, "Shr": lambda a, b: a >> b,
          "Shl": lambda a, b: a << b, "Add": lambda a, b: a + b, "Sub": lambda a, b: a - b, "Mul": lambda a, b: a * b}
_VD = {"None": 0, "Some": 1, "Ok": 0, "Err": 1, "Continue": 0, "Break": 1}


class Unknown(Exception):
    pass


class NoMark(Exception):
    pass



def _xor_lowest(f_, v):
    """`v ^ (1 << trailing_zeros(v))`: the other spelling of clearing the lowest set bit (the loop is entered with v != 0 only)."""
    if f_[0] != "bin" or f_[1] != "BitXor":
        return False
    for a, b in ((f_[2], f_[3]), (f_[3], f_[2])):
        if a == v and b[0] == "bin" and b[1] in ("Shl", "ShlUnchecked") and b[2][0] == "const" and b[2][1] == 1:
            t = b[3]
            while t[0] == "cast":
                t = t[2]
            if t[0] == "call" and t[1].endswith("trailing_zeros") and tuple(t[2]) == (v,):
                return True
    return False

def _contains_backedge(nodes, b):
    """b = (header block, frame id)"""
    for n in nodes:
        k = n[0]
        if k == "backedge" and (n[1], n[4] if len(n) > 4 else None) == b:
            return True
        if k == "switch":
            if any(_contains_backedge(s, b) for s in n[2].values()):
                return True
        elif k == "inlined":
            if _contains_backedge(n[3], b):
                return True
    return False


def collect_sites(tree, fb):
    """[(kind, piece, src_expr, dst_expr, loops, conds)] for every add_move call; loops = [(header, iter var, set expr)]
    of the loops whose body contains the site; conds = [(condition expr, label, case values)] on the way."""
    sites = []
    switches = {}
    iters = {}       # (header, frame) -> {"l": local, "var": var, "finals": [value of the iterator at each back edge]}

    def walk(nodes, active, pending, choices, conds):
        pending = dict(pending)
        for n in nodes:
            k = n[0]
            if k == "loophead":
                # the iterator local: the loop-carried value of bitboard iterator type
                for l, (pre, var) in n[2].items():
                    ty = fb.etypes.get(var)
                    t = fb.facts.types[ty] if ty is not None else None
                    if t is not None and t["k"] == "adt" and t["path"] == "owlchess_base::bitboard::Iter":
                        pending[(n[1], n[4] if len(n) > 4 else None)] = (var, pre)
                        iters[(n[1], n[4] if len(n) > 4 else None)] = {"l": l, "var": var, "finals": []}
            elif k == "switch":
                switches[n[5]] = (n[1], tuple(n[2].keys()), n[4])
                for lab, sub in n[2].items():
                    act = list(active)
                    pend = dict(pending)
                    # the branch of the first switch below a loop head that reaches the back edge is the loop body;
                    # everything nested in it belongs to the loop, the exit continuation lives in the other branch
                    for b, (var, pre) in list(pend.items()):
                        if _contains_backedge(sub, b):
                            act.append((b, var, simplify_variants(resolve_phi(pre, choices))))
                            del pend[b]
                    ch = dict(choices)
                    ch[n[5]] = lab
                    d = n[1]
                    if d[0] == "discr" and d[1][0] == "phi":
                        # `match it.next() { Some(x) => .. }`: the variant tested identifies the branch taken inside next()
                        cands = []
                        for l, v in d[1][3]:
                            v = simplify_variants(resolve_phi(v, ch))
                            if v[0] == "agg" and v[2] in _VD:
                                if (_VD[v[2]] in lab) if lab != "else" else (_VD[v[2]] not in n[4]):
                                    cands.append(l)
                            else:
                                cands.append(l)
                        if len(cands) == 1:
                            ch[d[1][1]] = cands[0]
                    walk(sub, act, pend, ch, conds + [(n[1], lab, n[4])])
            elif k == "inlined":
                walk(n[3], active, pending, choices, conds)
            elif k == "backedge":
                key = (n[1], n[4] if len(n) > 4 else None)
                if key in iters and iters[key]["l"] in n[3]:
                    iters[key]["finals"].append(simplify_variants(resolve_phi(n[3][iters[key]["l"]], choices)))
            elif k == "call" and n[2] == ADD:
                args = n[3]
                vals = [simplify_variants(resolve_phi(a, choices)) for a in args]
                sites.append({"kind": vals[1], "piece": vals[2], "src": vals[3], "dst": vals[4], "loops": list(active),
                              "conds": [(simplify_variants(resolve_phi(c, choices)), lab, cv) for c, lab, cv in conds],
                              "site": n[4], "choices": dict(choices)})
    walk(tree, [], {}, {}, [])
    for st in sites:
        st["switches"] = switches
        st["iters"] = iters
        prepare(st)
    return sites


def prepare(st):
    """Strip casts/stamps once and classify the path conditions."""
    loops = [(b, strip(v), strip(p)) for b, v, p in st["loops"]]
    st["loops_s"] = loops
    st["src_s"], st["dst_s"] = strip(st["src"]), strip(st["dst"])
    st["items"] = (item_of(st["src_s"], loops), item_of(st["dst_s"], loops))
    cs_out = []
    for c, lab, cv in st["conds"]:
        cs = strip(c)
        txt = show(cs)
        if "Try>::branch" in txt or "Iter as" in txt:
            continue
        if cs[0] == "bin" and cs[1] == "Eq" and any(v == x for (_b, v, _p) in loops for x in (cs[2], cs[3])):
            continue        # `iter == 0`: the loop's own exit test
        if cs[0] == "const":
            continue
        cs_out.append((cs, lab, cv, "ep_source" in txt))
    st["conds_s"] = cs_out


def strip(e):
    """Drop casts and version stamps."""
    e = unstamp(e)

    def rec(x):
        if not isinstance(x, tuple) or not x:
            return x
        if x[0] == "cast":
            return rec(x[2])
        out = []
        for y in x:
            if isinstance(y, tuple):
                if y and isinstance(y[0], str):
                    out.append(rec(y))
                else:
                    out.append(tuple(rec(z) if isinstance(z, tuple) else z for z in y))
            else:
                out.append(y)
        return tuple(out)
    return rec(e)


def item_of(e, loops):
    """e as (loop index, offset) when it is `item` or `item + const` of one of the loops' items; else None.
    The item of a loop is trailing_zeros(iter var) (checked by the caller on the iterator's inlined next())."""
    e = strip(e)
    off = 0
    if e[0] == "call" and e[1].endswith("wrapping_add") and len(e[2]) == 2 and e[2][1][0] == "const":
        off = e[2][1][1]
        if off >= 1 << 63:
            off -= 1 << 64
        e = e[2][0]
    if e[0] == "call" and e[1].endswith("trailing_zeros") and len(e[2]) == 1:
        for i, (_b, var, _pre) in enumerate(loops):
            if strip(e[2][0]) == strip(var):
                return (i, off)
    return None


class Board:
    """Sparse abstract board: {square: cell}."""

    def __init__(self, cells, ep):
        self.cells = {q: c for q, c in cells.items() if c}
        self.ep = ep

    def at(self, q):
        return self.cells.get(q, 0)


def board_of(C, kind, c, s, d, sc):
    enemy_kn = cell(1 - C, KNIGHT)
    cells = {}
    for q in geom.bits(sc["all"]):
        cells[q] = enemy_kn
    cells[s] = sc["board_src"]
    if sc["dst"]:
        cells[d] = sc["dst"]
    else:
        cells.pop(d, None)
    if kind == 4:
        mid = s + (-8 if C == WHITE else 8)
        if sc["mid"]:
            cells[mid] = sc["mid"]
        else:
            cells.pop(mid, None)
    if sc["ep"] is not None:
        cells[sc["ep"]] = cell(1 - C, PAWN)
    return Board(cells, sc["ep"])


class SetEval:
    """Membership of a square in a bitboard expression, on an abstract board, with loop items bound."""

    _tables = {}

    def __init__(self, facts, board, binds, switches=None):
        self.facts = facts
        self.b = board
        self.binds = binds          # stripped iter var -> item value (square)
        self.switches = switches or {}

    def table(self, name):
        if name not in self._tables:
            self._tables[name] = self.facts.table_u64(name)
        return self._tables[name]

    def scalar(self, e):
        """Value of a square-valued / small integer expression."""
        k = e[0]
        if k == "const":
            return e[1]
        if k == "phi":
            sw = self.switches.get(e[1])
            if sw is None:
                raise Unknown("phi of an unknown switch")
            d = self.scalar(strip(sw[0]))
            for lab, v in e[3]:
                if (d in lab) if lab != "else" else (d not in sw[2]):
                    return self.scalar(v)
            raise Unknown("phi: no alternative for %r" % (d,))
        if k == "call" and e[1].endswith("trailing_zeros"):
            v = e[2][0]
            if v in self.binds:
                return self.binds[v]
            raise Unknown("item of an unbound loop: " + show(e)[:80])
        if k == "call" and e[1].endswith("wrapping_add"):
            a, b = self.scalar(e[2][0]), self.scalar(e[2][1])
            return (a + b) & M64
        if k == "downcast" and e[2] == "Some" and show(e[1]).endswith("ep_source"):
            if self.b.ep is None:
                raise NoMark()
            return self.b.ep
        if k == "bin" and e[1] in _ARITH:
            return _ARITH[e[1]](self.scalar(e[2]), self.scalar(e[3])) & M64
        if k == "bin" and e[1] in ("Lt", "Le", "Gt", "Ge"):
            a, b = self.scalar(e[2]), self.scalar(e[3])
            return int({"Lt": a < b, "Le": a <= b, "Gt": a > b, "Ge": a >= b}[e[1]])
        if k == "field" and e[2] == "#0" and e[1][0] == "bin" and e[1][1].endswith("WithOverflow"):
            op = e[1][1][:-len("WithOverflow")]
            return _ARITH[op](self.scalar(e[1][2]), self.scalar(e[1][3])) & M64
        if k == "call" and e[1].endswith(("wrapping_sub",)):
            return (self.scalar(e[2][0]) - self.scalar(e[2][1])) & M64
        if k == "un" and e[1] == "Not":
            return int(not self.scalar(e[2]))
        if k == "un" and e[1] == "Neg":
            return (-self.scalar(e[2])) & M64
        if k in ("tbl", "index") and self._is_cells(e[1]):
            return self.b.at(self.scalar(e[2]))
        if k == "discr":
            if show(e[1]).endswith("ep_source"):
                return 0 if self.b.ep is None else 1
            return self.scalar(e[1])
        if k == "bin" and e[1] in ("Eq", "Ne"):
            return int((self.scalar(e[2]) == self.scalar(e[3])) == (e[1] == "Eq"))
        raise Unknown("scalar " + show(e)[:100])

    @staticmethod
    def _is_cells(p):
        return show(p).endswith("board.r.cells")

    def member(self, q, e):
        k = e[0]
        if not (0 <= q <= 63):
            return False
        if k == "const":
            return bool((e[1] >> q) & 1)
        if k == "bin":
            op = e[1]
            if op == "BitAnd":
                return self.member(q, e[2]) and self.member(q, e[3])
            if op == "BitOr":
                return self.member(q, e[2]) or self.member(q, e[3])
            if op == "BitXor":
                return self.member(q, e[2]) != self.member(q, e[3])
            if op in ("Shr", "ShrUnchecked", "Shl", "ShlUnchecked"):
                n = e[3][1] if e[3][0] == "const" else self.scalar(e[3])     # `1 << square`: the amount is a scalar of the site
                if not (0 <= n <= 63):
                    raise Unknown("shift by %r" % (n,))
                if op.startswith("Shr"):
                    return q + n <= 63 and self.member(q + n, e[2])
                return q - n >= 0 and self.member(q - n, e[2])
            raise Unknown("set operator " + op)
        if k == "un" and e[1] == "Not":
            return not self.member(q, e[2])
        if k in ("tbl", "index"):
            base, idx = e[1], e[2]
            txt = show(base)
            if base[0] == "named":
                return bool((self.table(base[1])[self.scalar(idx)] >> q) & 1)
            if txt.endswith("board.pieces"):
                return self.b.at(q) == self.scalar(idx)
            raise Unknown("table " + txt[:80])
        txt = show(e)
        if txt.endswith("board.all"):
            return self.b.at(q) != 0
        if txt.endswith("board.white"):
            return 1 <= self.b.at(q) <= 6
        if txt.endswith("board.black"):
            return 7 <= self.b.at(q) <= 12
        if k == "call" and e[1] in ("owlchess::attack::bishop", "owlchess::attack::rook"):
            src = self.scalar(e[2][0])
            occ = e[2][1]
            dirs = geom.BISHOP_DIRS if e[1].endswith("bishop") else geom.ROOK_DIRS
            bt = geom.between(src, q, dirs)
            if bt is None:
                return False
            return not any(self.member(x, occ) for x in geom.bits(bt))
        raise Unknown("set expression " + txt[:100])

    def truth(self, e):
        """Boolean condition on the path to a site."""
        k = e[0]
        if k == "const":
            return bool(e[1])
        if k == "bin" and e[1] in ("Eq", "Ne"):
            a, b = self.scalar(e[2]), self.scalar(e[3])
            return (a == b) == (e[1] == "Eq")
        if k == "un" and e[1] == "Not":
            return not self.truth(e[2])
        if k == "bin" and e[1] in ("Lt", "Le", "Gt", "Ge"):
            return bool(self.scalar(e))
        if k == "bin" and e[1] in ("BitAnd", "BitOr"):
            a, b = self.truth(e[2]), self.truth(e[3])
            return (a and b) if e[1] == "BitAnd" else (a or b)
        raise Unknown("condition " + show(e)[:100])


def site_emits(facts, site, S, D, board):
    """Does this add_move site emit the move S -> D on the abstract board?"""
    loops = site["loops_s"]
    want = {}
    for sq, io in ((S, site["items"][0]), (D, site["items"][1])):
        if io is not None:
            i, off = io
            val = sq - off
            if i in want and want[i] != val:
                return False
            want[i] = val
    binds = {}
    for i, (_b, var, _pre) in enumerate(loops):
        if i not in want:
            raise Unknown("loop %d does not determine source or destination" % i)
        if not (0 <= want[i] <= 63):
            return False
        binds[var] = want[i]
    ev = SetEval(facts, board, binds, site["switches"])
    try:
        # every loop item is a member of the set its loop iterates
        for i, (_b, var, pre) in enumerate(loops):
            if not ev.member(want[i], pre):
                return False
        # the path conditions, in program order (a later expression may only be defined under an earlier guard)
        for cs, lab, cv, _ep in site["conds_s"]:
            v = ev.scalar(cs) if cs[0] in ("discr", "phi") else int(ev.truth(cs))
            taken = (v in lab) if lab != "else" else (v not in cv)
            if not taken:
                return False
        # the squares themselves, where they are not loop items (en passant)
        for e, sq, io in ((site["src_s"], S, site["items"][0]), (site["dst_s"], D, site["items"][1])):
            if io is None and ev.scalar(e) != sq:
                return False
    except NoMark:
        return False        # the path reads the payload of an absent en-passant mark: it is behind `if let Some(ep)`
    return True


def emitter_rule(ctx, facts, rid):
    r = ctx.rule(rid, "the semilegal generator emits the move S->D of a (kind, piece) exactly when the rules allow it, from exactly one site: per-site set algebra "
                      "of the iterated bitboards against the semilegality reference, all 64x64 square pairs, abstract boards, both colours")
    total = 0
    for C, col in ((WHITE, "White"), (BLACK, "Black")):
        fn = facts.fns.get(MG % col)
        if fn is None:
            r.anchor_missing(MG % col)
            continue
        fb = FxBuilder(facts, stop=STOP, ai_mode=True, max_depth=12)
        tree = fb.tree(fn)
        sites = collect_sites(tree, fb)
        by_pair = {}
        bad = None
        for s in sites:
            k, p = strip(s["kind"]), strip(s["piece"])
            if k[0] != "const" or p[0] != "const":
                bad = "an add_move site has a non-constant (kind, piece): %s, %s" % (show(k)[:60], show(p)[:60])
                break
            by_pair.setdefault((k[1], p[1]), []).append(s)
        if bad:
            r.fail("emit/%s/shape" % col, bad, site=ctx.site(fn))
            continue
        r.floor(len(sites), 20, "add_move sites in gen::<%s>" % col)
        # every loop iterates the set bits of its expression: item = trailing_zeros(iter), iter' = iter & (iter - 1)
        checked = set()
        for s in sites:
            for (bkey, var, _pre) in s["loops"]:
                if bkey in checked:
                    continue
                checked.add(bkey)
                info = s["iters"].get(bkey)
                v = strip(var)
                okit = bool(info and info["finals"])
                for fin in (info["finals"] if info else ()):
                    f_ = strip(fin)
                    want1 = ("bin", "BitAnd", ("call", "core::num::<impl u64>::wrapping_sub", (v, ("const", 1, "u64"))), v)
                    want2 = ("bin", "BitAnd", v, ("call", "core::num::<impl u64>::wrapping_sub", (v, ("const", 1, "u64"))))
                    if f_ not in (want1, want2) and not _xor_lowest(f_, v):
                        okit = False
                if not okit:
                    bad = "a generator loop does not step its bitboard iterator by clearing the lowest set bit (each square exactly once): %s" % (
                        show(strip(info["finals"][0]))[:100] if info and info["finals"] else "no back edge value")
                    break
            if bad:
                break
        if bad:
            r.fail("emit/%s/iterator" % col, bad, site=ctx.site(fn))
            continue
        r.ok("emit/%s/iterator: %d loops step by clearing the lowest set bit; the item is its index" % (col, len(checked)))
        fwd = -8 if C == WHITE else 8
        for kind in (1, 4, 5, 6, 7, 8, 9):
            for piece in range(6):
                if bad:
                    break
                c = cell(C, piece)
                ss = by_pair.get((kind, piece), [])
                legit = any(wf_ref(kind, c, a, b) for a in range(64) for b in range(64))
                if not legit:
                    if ss:
                        bad = (kind, piece, "sites exist for a (kind, piece) pair that has no well-formed move")
                    continue
                n_pts = 0
                for S in range(64):
                    if bad:
                        break
                    for D in range(64):
                        if S == D:
                            continue
                        wf = wf_ref(kind, c, S, D)
                        if wf:
                            scs = _scenarios(C, kind, c, S, D, True)
                        else:
                            # not a possible move: try the boards on which a wrong emitter would be most likely to fire
                            occ = (1 << S)
                            scs = [{"board_src": c, "dst": dc, "mid": 0, "ep": ep, "right": {}, "attacked": {}, "all": occ | ((1 << D) if dc else 0)}
                                   for dc in (0, cell(1 - C, KNIGHT))
                                   # marks next to S in index order (also across the board edge) and the one mark that makes D the capture square
                                   for ep in ((None,) if kind != 5 else sorted({S - 1, S + 1, D - fwd}) + [None])]
                        for sc in scs:
                            if sc["ep"] is not None and not (0 <= sc["ep"] <= 63):
                                continue
                            board = board_of(C, kind, c, S, D, sc)
                            if any(cl in (1, 7) and (q >> 3) in (0, 7) for q, cl in board.cells.items()):
                                continue        # pawns never stand on the back ranks of a valid Board (validator, C11/V1)
                            if sc["ep"] is not None and (sc["ep"] >> 3) != (3 if C == WHITE else 4):
                                continue        # the en-passant mark of a valid Board is on the rank of the pawn that just moved (C11/V1, C19/U2)
                            if sc["ep"] is not None and board.at(sc["ep"] + fwd) != 0:
                                continue        # ... and the square that pawn passed over is empty (validation clears the mark otherwise, C11/V2)
                            want = wf and sc["board_src"] == c and _ref_semilegal(C, kind, c, S, D, sc)
                            boards = [(board, "")]
                            if kind == 5 and sc["ep"] is not None and abs(S - sc["ep"]) == 1:
                                # a bystander on the other side of the marked pawn changes nothing (two pawns may both capture en passant)
                                O = 2 * sc["ep"] - S
                                if 0 <= O <= 63 and (O >> 3) == (sc["ep"] >> 3) and O != D and O not in board.cells:
                                    for extra in (cell(C, PAWN), cell(C, KNIGHT), cell(1 - C, PAWN)):
                                        cells2 = dict(board.cells)
                                        cells2[O] = extra
                                        boards.append((Board(cells2, sc["ep"]), ", bystander cell %d on %s" % (extra, geom.name(O))))
                            for board, note in boards:
                                try:
                                    cnt = sum(1 for st in ss if site_emits(facts, st, S, D, board))
                                    got = cnt > 0
                                    if cnt > 1:
                                        got = "emitted by %d sites (a duplicate in the move list)" % cnt
                                except Unknown as e:
                                    got = "not evaluable: %s" % (e,)
                                n_pts += 1
                                if got != want:
                                    break
                            if got != want:
                                bad = (kind, piece, "%s from %s to %s: generator %s, rules %s (source cell %d, destination cell %d, blockers %#x, "
                                       "en-passant mark %s)" % (KINDS[kind], geom.name(S), geom.name(D), "emits" if got is True else
                                                                ("does not emit" if got is False else got), "allow" if want else "forbid",
                                                                sc["board_src"], sc["dst"], sc["all"], str(sc["ep"]) + note))
                                break
                        if bad:
                            break
                total += n_pts
                if not bad:
                    r.ok("emit/%s/%s/%s" % (col, KINDS[kind], ["pawn", "king", "knight", "bishop", "rook", "queen"][piece]), {"points": n_pts, "sites": len(ss)})
        if bad:
            kind, piece, msg = bad if isinstance(bad, tuple) else (0, 0, bad)
            r.fail("emit/%s/%s" % (col, KINDS.get(kind, "?")), "gen::<%s>: %s" % (col, msg), site=ctx.site(fn))
    ctx.extra["emitter_points"] = total
