"""C14 - repetition counting and the chain's outcome follow the game history."""
from . import shared
from . import chainrules, hashrules


def run(ctx):
    facts = ctx.facts("dev")
    ctx.decided += [
        "R1 Outcome::passes and is_force, tabulated by constant folding over all 22 outcomes x 3 filters, equal the table of the statement",
        "R2 BaseMoveChain::calc_outcome, for every abstract input (board outcome none / strict / non-strict) x (0..7 occurrences), takes "
        "exactly one path and returns what the precedence in the statement prescribes",
        "R2a set_auto_outcome stores the calculated outcome exactly on the path where it is present and passes(requested filter)",
        "R4 the key the repetition table counts by distinguishes positions that differ in one feature (a man on a square, the side to "
        "move, one castling right, the en-passant mark on each of its 16 possible squares): the build's key tables are non-zero and distinct",
        "R3 the repetition table is keyed by the Zobrist hash only, incremented/inserted on push, decremented/removed on pop; the start "
        "position is entered by new(); (push/pop pairing with make/unmake is C13 L1/L2)",
    ]
    ctx.not_decided += ["occurrence counts along whole histories (needs C05's hash exactness per step and is subject to inherent hash "
                        "collisions); that Board::calc_outcome's own reasons apply is C07"]
    chainrules.passes_table_rule(ctx, facts, "R1")
    chainrules.calc_outcome_rule(ctx, facts, "R2")
    chainrules.auto_outcome_rule(ctx, facts, "R2a")
    chainrules.repeat_pairing_rule(ctx, facts, "R3")
    hashrules.key_distinct_rule(ctx, facts, "R4")
    shared.hash_component(ctx, facts, "R5", "repetitions are counted by the incremental hash: equal positions must carry equal hashes")
