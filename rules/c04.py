"""C04 - undoing a move restores the position exactly."""
from .common import sim_rules
from . import apirules, shared


def run(ctx):
    facts = ctx.facts("dev")
    ctx.decided += [
        "K1 the RawUndo returned by do_make_move holds, for every kind and colour, the values of hash, destination cell, "
        "castling rights, en-passant mark and both counters read before the first store (memory-version 0)",
        "K2/K3 for both colours x 10 kinds x quiet/capture, do_unmake_move interpreted on the abstract post-state of the move "
        "ends in exactly the abstract pre-state: every touched square, every colour/piece set membership, `all`, and hash, "
        "castling, en-passant mark, both counters restored from the undo record, side = mover",
        "K4 make_move_unchecked dispatches side->colour identically, unmake_move_unchecked inverted",
        "K5 every Make::make_raw path that returns an error has either not touched the board or rolled back with the same move "
        "and the undo record of that very make",
    ]
    ctx.not_decided += ["that the concrete board a caller passes matches an abstract case (semilegality, C06); nesting depth needs "
                        "no extra argument: each apply/undo pair is exact by K1-K3"]
    sim_rules(ctx, facts, {
        "K1": ("undo record captures the pre-state before any store", ("undo",), "make/"),
        "K2": ("unmake restores squares, occupancy sets and all scalar fields (abstract board)", ("undo", "cells", "occupancy", "unmodelled"), "unmake/"),
    })
    apirules.dispatch_rule(ctx, facts, "K4")
    apirules.make_impl_rules(ctx, facts, "K5c", "K5")
    shared.walker_component(ctx, facts, "K6", "the chain and its walker are the library's own users of undo: they must unmake exactly the moves they pass, in order")
