"""Rules on the move chain (C13 L1-L4, C14 R1-R3, C17 W1/W2/W4)."""
from .fx import FxBuilder, tree_paths, walk_tree, unstamp, path_value
from .expr import show, walk
from .apirules import API_STOP, MAKE_U, UNMAKE_U, norm_val, _strip_payload, try_test

CHAIN = "owlchess::chain::BaseMoveChain"
CHAIN_R = "owlchess::chain::BaseMoveChain::<R>::"
HR = "owlchess::chain::HashRepeat"
OUT = "owlchess_base::types::Outcome"


def chain_fn(facts, name):
    lst = facts.instances(CHAIN_R + name)
    return lst


def chain_stop(facts):
    stop = set(API_STOP)
    for fn in facts.fns.values():
        if fn.id.endswith(" as owlchess::moves::make::Make>::make_raw"):
            stop.add(fn.def_path)
    stop.add(OUT + "::passes")
    stop.add(CHAIN_R + "calc_outcome")
    return stop


def _events(path):
    return path[0]


def _calls(events, pred):
    return [e for e in events if e[0] == "call" and pred(e)]


def _is_repeat_push(e):
    return e[0] == "call" and (e[2] or "").endswith("HashMap::<K, V, S, A>::entry")


def _is_repeat_pop(e):
    return e[0] == "call" and (e[2] or "").endswith("HashMap::<K, V, S, A>::get_mut")


def _is_stack_push(e):
    return e[0] == "call" and (e[2] or "") == "alloc::vec::Vec::<T, A>::push" and "self.stack" in show(unstamp(e[3][0]))


def _is_stack_pop(e):
    return e[0] == "call" and (e[2] or "") == "alloc::vec::Vec::<T, A>::pop" and "self.stack" in show(unstamp(e[3][0]))


def _hash_of_board(e):
    """Is the expression the cached hash of self.board?"""
    return show(unstamp(e)).lstrip("&").startswith("*self.board.hash")


# ---------------------------------------------------------------------------------------------- C13

def push_rule(ctx, facts, rid):
    r = ctx.rule(rid, "push records (move, undo) and the repetition entry exactly when make_raw succeeds; a refused push changes nothing")
    fns = [f for f in chain_fn(facts, "push")]
    stop = chain_stop(facts)
    for fn in fns:
        fb = FxBuilder(facts, stop=stop)
        tree = fb.tree(fn)
        m_ty = fn.args[-1] if fn.args else "?"
        n_ok = n_err = 0
        for events, choices in tree_paths(tree):
            last = events[-1] if events else None
            if last is None or last[0] != "ret":
                continue
            ret = unstamp(path_value(last[1], choices))
            mk = [e for e in events if e[0] == "call" and (e[2] or "").endswith("::make_raw")]
            pushes = [e for e in events if _is_stack_push(e)]
            reps = [e for e in events if _is_repeat_push(e)]
            # stores into the repetition table's own entry (`*map.entry(k).or_insert(0) += 1`) belong to repeat.push
            stores = [e for e in events if e[0] == "store" and "or_insert" not in show(unstamp(e[1])) and "self.repeat" not in show(unstamp(e[1]))]
            key = "push<%s>" % m_ty
            variant = ret[2] if ret[0] == "agg" and ret[1] == "core::result::Result" else "?"
            if variant == "Ok":
                n_ok += 1
                ok = len(mk) == 1 and len(pushes) == 1 and len(reps) == 1
                why = "make_raw x%d, stack.push x%d, repeat.push x%d" % (len(mk), len(pushes), len(reps))
                if ok:
                    # order: make_raw, then repeat.push (hash of the new position), then stack.push of make_raw's payload
                    i_mk, i_rep, i_push = events.index(mk[0]), events.index(reps[0]), events.index(pushes[0])
                    ok = i_mk < i_rep and i_mk < i_push
                    pushed = _strip_payload(unstamp(path_value(pushes[0][3][1], choices)))
                    mkret = _strip_payload(unstamp(path_value(mk[0][5]["ret"], choices)))
                    want = ("agg", "tuple", "", (("field", ("payload", mkret), "#0"), ("field", ("payload", mkret), "#1")))
                    if pushed != want:
                        ok = False
                        why = "stack.push(%s) is not the (move, undo) pair returned by make_raw" % show(pushed)
                    if not _hash_of_board(reps[0][3][1]):
                        ok = False
                        why = "repetition entry keyed by %s, not by the board's hash" % show(reps[0][3][1])
                    if any("self.board" not in show(unstamp(a)) for a in mk[0][3][1:2]):
                        ok = False
                        why = "make_raw is not applied to the chain's live board"
                r.check(ok and not stores, key + "/ok", "%s: accepted push does not record exactly one (move, undo) and one repetition entry: %s"
                        % (fn.id, why), site=ctx.site(fn), what=key + " Ok path: " + why)
            elif variant == "Err":
                n_err += 1
                r.check(not pushes and not reps and not stores, key + "/err",
                        "%s: a refused push still records something (stack.push x%d, repeat.push x%d, stores x%d)"
                        % (fn.id, len(pushes), len(reps), len(stores)), site=ctx.site(fn), what=key + " Err path records nothing")
            else:
                r.fail(key + "/unknown", "%s: cannot classify a path result %s" % (fn.id, show(ret)), site=ctx.site(fn))
        r.check(n_ok >= 1 and n_err >= 1, "push<%s>/paths" % m_ty, "%s has no Ok or no Err path" % fn.id, site=ctx.site(fn),
                what="push<%s> has %d Ok / %d Err paths" % (m_ty, n_ok, n_err))
    r.floor(len(fns), 5, "instances of BaseMoveChain::push")


def pop_rule(ctx, facts, rid):
    r = ctx.rule(rid, "pop undoes exactly the latest accepted push: stack.pop, repeat.pop before unmake, outcome cleared, same (move, undo)")
    fns = chain_fn(facts, "pop")
    if not fns:
        r.anchor_missing(CHAIN_R + "pop")
        return
    for fn in fns:
        fb = FxBuilder(facts, stop=chain_stop(facts))
        tree = fb.tree(fn)
        seen_some = seen_none = False
        for events, choices in tree_paths(tree):
            last = events[-1] if events else None
            if last is None or last[0] != "ret":
                continue
            ret = unstamp(path_value(last[1], choices))
            pops = [e for e in events if _is_stack_pop(e)]
            reps = [e for e in events if _is_repeat_pop(e)]
            unm = [e for e in events if e[0] == "call" and e[2] == UNMAKE_U]
            clr = [e for e in events if e[0] == "store" and show(unstamp(e[1])) == "*self.outcome"
                   and unstamp(e[2])[0] == "agg" and unstamp(e[2])[2] == "None"]
            is_some = ret[0] == "agg" and ret[2] == "Some"
            if is_some:
                seen_some = True
                ok = len(pops) == 1 and len(reps) == 1 and len(unm) == 1 and len(clr) >= 1
                why = "stack.pop x%d repeat.pop x%d unmake x%d clear_outcome x%d" % (len(pops), len(reps), len(unm), len(clr))
                if ok:
                    i_pop, i_rep, i_un = events.index(pops[0]), events.index(reps[0]), events.index(unm[0])
                    if not (i_pop < i_un and i_rep < i_un):
                        ok = False
                        why = "repeat.pop must precede unmake (it is keyed by the position being left)"
                    popped = _strip_payload(unstamp(path_value(pops[0][5]["ret"], choices)))
                    a = [_strip_payload(unstamp(path_value(x, choices))) for x in unm[0][3]]
                    if "self.board" not in show(a[0]) or a[1] != ("field", ("payload", popped), "#0") \
                            or a[2] != ("field", ("payload", popped), "#1"):
                        ok = False
                        why = "unmake is not applied to the live board with the popped (move, undo): %s" % [show(x) for x in a]
                    if not _hash_of_board(reps[0][3][1]):
                        ok = False
                        why = "repetition entry looked up by %s" % show(reps[0][3][1])
                    rv = _strip_payload(ret)
                    if rv[3][0] != ("field", ("payload", popped), "#0"):
                        ok = False
                        why = "returns %s, not the popped move" % show(ret)
                r.check(ok, "pop/some", "%s: %s" % (fn.id, why), site=ctx.site(fn), what="pop Some path: " + why)
            else:
                seen_none = True
                muts = [e for e in events if e[0] == "store" or (e[0] == "call" and e[5]["mutargs"] and not _is_stack_pop(e))]
                r.check(not muts, "pop/none", "%s: popping an empty chain still mutates (%d events)" % (fn.id, len(muts)),
                        site=ctx.site(fn), what="pop None path mutates nothing")
        r.check(seen_some and seen_none, "pop/paths", "%s lacks a Some or a None path" % fn.id, site=ctx.site(fn), what="pop has Some and None paths")


# who may touch which field of the chain (method names, any instantiation)
FIELD_WRITERS = {
    "stack": {"do_finish_push", "pop", "new"},
    "board": {"push", "push_unchecked", "pop", "new"},
    "start": {"new"},
    "repeat": {"do_finish_push", "pop", "new"},
    # set_auto_outcome is an outcome setter of the API as well (what it stores is decided by C14/R2a)
    "outcome": {"clear_outcome", "set_outcome", "reset_outcome", "new", "set_auto_outcome"},
}


def writers_rule(ctx, facts, rid):
    r = ctx.rule(rid, "the chain's fields are written only by their owning methods")
    seen = set()
    for fn in facts.fns.values():
        if fn.krate != "owlchess":
            continue
        body = fn.body

        def cf(place):
            for el in place["p"]:
                if el[0] == "field" and el[3] == CHAIN:
                    return el[2]
            return None
        hits = []
        for bi, si, s in body.iter_stmts():
            if s[0] == "assign":
                f = cf(s[1])
                if f and s[1]["p"]:
                    hits.append((bi, "store", f))
                rv = s[2]
                if rv[0] == "ref" and rv[1]:
                    f = cf(rv[2])
                    if f:
                        hits.append((bi, "&mut", f))
                if rv[0] == "agg" and rv[1].get("k") == "adt" and rv[1].get("path") == CHAIN:
                    for f in FIELD_WRITERS:
                        hits.append((bi, "construct", f))
        for bi, t in body.iter_terms():
            if t["k"] == "call":
                f = cf(t["dest"])
                if f:
                    hits.append((bi, "store", f))
        meth = fn.def_path.split("::")[-1]
        for bi, kind, f in hits:
            key = "%s/%s/%s" % (fn.def_path, kind, f)
            if key in seen:
                continue
            seen.add(key)
            allowed = FIELD_WRITERS.get(f, set())
            derived_clone = kind == "construct" and fn.def_path == "<owlchess::chain::BaseMoveChain<R> as core::clone::Clone>::clone"
            r.check((fn.def_path.startswith(CHAIN_R) and meth in allowed) or derived_clone, key,
                    "%s %ss BaseMoveChain.%s; only %s may" % (fn.def_path, kind, f, sorted(allowed)), site=ctx.site(fn, bi), what=key)
    r.floor(len(seen), 10, "writers of BaseMoveChain fields")
    adt = None
    for k, a in facts.adts.items():
        if a and a.get("path") == CHAIN:
            adt = a
    if adt:
        for f in adt["variants"][0]["fields"]:
            r.check(f["vis"] not in ("pub", "crate"), "field-vis/" + f["name"], "BaseMoveChain.%s is visible outside chain.rs (%s)" % (f["name"], f["vis"]),
                    what="BaseMoveChain.%s private" % f["name"])


def eq_rule(ctx, facts, rid):
    r = ctx.rule(rid, "chain equality compares start position, move count, every move and the stored outcome")
    name = "<owlchess::chain::BaseMoveChain<R> as core::cmp::PartialEq>::eq"
    lst = facts.instances(name)
    if not lst:
        r.anchor_missing(name)
        return
    fn = lst[0]
    fb = FxBuilder(facts, stop=chain_stop(facts) | {"owlchess::board::RawBoard::eq"})
    tree = fb.tree(fn)
    txt = []
    for n, conds, _i in walk_tree(tree):
        if n[0] == "switch":
            txt.append(show(unstamp(n[1])))
        if n[0] == "call":
            txt.append("%s(%s)" % (n[1], ", ".join(show(unstamp(a)) for a in n[3])))
    blob = "\n".join(txt)
    need = {
        "start": ("self.start" in blob and "other.start" in blob),
        "len": ("len(&*self.stack)" in blob or "len(&*self.stack" in blob) and ("len(&*other.stack" in blob),
        "outcome": ("self.outcome" in blob and "other.outcome" in blob),
        "moves": ("self.stack" in blob and "other.stack" in blob and ("zip" in blob or "all" in blob))
                 or ("iterator::Iterator::eq" in blob and "iter(" in blob),
    }
    for k, ok in need.items():
        r.check(ok, "eq/" + k, "BaseMoveChain::eq does not compare %s of both chains" % k, site=ctx.site(fn), what="eq compares " + k)
    # the element-wise closure compares the moves
    clos = [f for f in facts.fns.values() if f.def_path.startswith("<owlchess::chain::BaseMoveChain<R> as core::cmp::PartialEq>::eq::{closure")]
    okc = False
    for c in clos:
        for bi, t in c.body.calls():
            nm = t["f"].get("inst") or t["f"].get("ext") or ""
            if "owlchess::moves::base::Move as core::cmp::PartialEq>::eq" in nm or \
                    nm == "core::cmp::impls::<impl core::cmp::PartialEq for &owlchess::moves::base::Move>::eq":
                okc = True
    if not okc:
        # other shape: `self.iter().eq(other.iter())` - Iterator::eq over the chains' move iterators (items are Move, compared by ==)
        for n, conds, _i in walk_tree(tree):
            if n[0] == "call" and (n[2] or "").endswith("iterator::Iterator::eq") and len(n[3]) == 2:
                a, b2 = show(unstamp(n[3][0])), show(unstamp(n[3][1]))
                if "iter(" in a and "iter(" in b2 and "self" in a and "other" in b2 and "Move" in n[1]:
                    # iter() yields the recorded moves: its closure projects the pair to its first component
                    for f in facts.fns.values():
                        if f.def_path.startswith(CHAIN_R + "iter::{closure"):
                            rets = [x[1] for x in FxBuilder(facts).tree(f) if x[0] == "ret"]
                            if rets and show(unstamp(rets[0])).endswith(".#0"):
                                okc = True
    r.check(okc, "eq/closure", "the element-wise comparison does not compare the moves with Move::eq", site=ctx.site(fn), what="closure compares Move == Move")


# ---------------------------------------------------------------------------------------------- C14

WIN_REASONS = ["Checkmate", "TimeForfeit", "InvalidMove", "EngineError", "Resign", "Abandon", "Unknown"]
DRAW_REASONS = ["Stalemate", "InsufficientMaterial", "Moves75", "Repeat5", "Moves50", "Repeat3", "Agreement", "Unknown"]
FILTERS = ["Force", "Strict", "Relaxed"]


def expected_passes(kind, reason, flt):
    forced = (kind == "Win" and reason == "Checkmate") or (kind == "Draw" and reason == "Stalemate")
    if forced:
        return True
    mandatory = kind == "Draw" and reason in ("InsufficientMaterial", "Moves75", "Repeat5")
    claim = kind == "Draw" and reason in ("Moves50", "Repeat3")
    if mandatory:
        return flt in ("Strict", "Relaxed")
    if claim:
        return flt == "Relaxed"
    return False


def _enum_const(facts, path, name):
    a = facts.adts[path]
    for v in a["variants"]:
        if v["name"] == name:
            return ("const", v["discr"], path)
    raise KeyError(name)


def passes_table_rule(ctx, facts, rid):
    r = ctx.rule(rid, "Outcome::passes / is_force tabulated over all 22 outcomes x 3 filters")
    fn = facts.fns.get(OUT + "::passes")
    fn2 = facts.fns.get(OUT + "::is_force")
    if fn is None or fn2 is None:
        r.anchor_missing(OUT + "::passes / is_force")
        return
    T = "owlchess_base::types::"
    outcomes = []
    try:
        for side in ("White", "Black"):
            for wr in WIN_REASONS:
                outcomes.append(("Win", wr, side, ("agg", OUT, "Win", (_enum_const(facts, T + "Color", side), _enum_const(facts, T + "WinReason", wr)))))
        for dr in DRAW_REASONS:
            outcomes.append(("Draw", dr, None, ("agg", OUT, "Draw", (_enum_const(facts, T + "DrawReason", dr),))))
    except KeyError as e:
        r.fail("enum-variants", "outcome enums changed: %s" % e)
        return
    n_var = len(facts.adts[T + "WinReason"]["variants"]), len(facts.adts[T + "DrawReason"]["variants"])
    r.check(n_var == (len(WIN_REASONS), len(DRAW_REASONS)), "enum-arity", "WinReason/DrawReason have %s variants; table written for %s"
            % (n_var, (len(WIN_REASONS), len(DRAW_REASONS))), what="22 outcomes enumerated")
    fb = FxBuilder(facts)
    for kind, reason, side, agg in outcomes:
        tree = fb.tree(fn2, env=[("ref", agg)])
        ret = [n[1] for n in tree if n[0] == "ret"]
        val = ret[0][1] if ret and ret[0][0] == "const" else None
        want = 1 if expected_passes(kind, reason, "Force") else 0
        key = "is_force(%s/%s%s)" % (kind, reason, "/" + side if side else "")
        r.check(val == want, key, "%s = %r, the statement says %r" % (key, val, want), site=ctx.site(fn2), what=key)
        for flt in FILTERS:
            tree = fb.tree(fn, env=[("ref", agg), _enum_const(facts, T + "OutcomeFilter", flt)])
            ret = [n[1] for n in tree if n[0] == "ret"]
            val = ret[0][1] if ret and ret[0][0] == "const" else None
            want = 1 if expected_passes(kind, reason, flt) else 0
            key = "passes(%s/%s%s, %s)" % (kind, reason, "/" + side if side else "", flt)
            r.check(val == want, key, "%s = %r, the statement says %r" % (key, val, want), site=ctx.site(fn), what=key)
    ctx.extra["exhaustive_tables"] = True


def calc_outcome_rule(ctx, facts, rid):
    r = ctx.rule(rid, "chain calc_outcome precedence: strict board outcome, then Repeat5, then Repeat3, then the board outcome")
    fns = chain_fn(facts, "calc_outcome")
    if not fns:
        r.anchor_missing(CHAIN_R + "calc_outcome")
        return
    fn = fns[0]
    stop = chain_stop(facts) - {CHAIN_R + "calc_outcome"}
    fb = FxBuilder(facts, stop=stop)
    tree = fb.tree(fn)
    T = "owlchess_base::types::"
    strict = _enum_const(facts, T + "OutcomeFilter", "Strict")[1]
    paths = []
    for events, choices in tree_paths(tree):
        last = events[-1] if events else None
        if last is None or last[0] != "ret":
            continue
        cons = {"some": None, "strict": None, "rep": []}
        for e in events:
            if e[0] != "branch":
                continue
            d = unstamp(path_value(e[1], choices))
            lab = e[2]
            truth = not (lab != "else" and 0 in lab)
            s = show(d)
            if d[0] == "const":
                continue          # a flag the path has already fixed (`matches!(..)` keeps its result in a temporary)
            if d[0] == "discr" and "calc_outcome(&*self.board)" in s and "passes" not in s:
                cons["some"] = (lab != "else" and 1 in lab)
            elif d[0] == "call" and d[1] == OUT + "::passes":
                flt = d[2][1]
                if flt == ("const", strict, T + "OutcomeFilter"):
                    cons["strict"] = truth
                else:
                    cons["strict"] = "?"
            elif d[0] == "bin" and d[1] in ("Ge", "Gt", "Lt", "Le") and "self.repeat" in s:
                c = d[3] if d[3][0] == "const" else d[2]
                flipped = d[3][0] != "const"
                cons["rep"].append((d[1], c[1], truth, flipped))
            else:
                cons.setdefault("other", []).append(s)
        ret = unstamp(path_value(last[1], choices))
        paths.append((cons, ret))

    def rep_ok(cons, rep):
        for op, c, truth, flipped in cons["rep"]:
            a, b = (c, rep) if flipped else (rep, c)
            v = {"Ge": a >= b, "Gt": a > b, "Lt": a < b, "Le": a <= b}[op]
            if v != truth:
                return False
        return True

    def classify(ret):
        s = show(ret)
        if ret[0] == "agg" and ret[2] == "Some":
            inner = ret[3][0]
            if inner[0] == "agg" and inner[2] == "Draw":
                dr = inner[3][0]
                for v in facts.adts[T + "DrawReason"]["variants"]:
                    if dr == ("const", v["discr"], T + "DrawReason"):
                        return v["name"]
        if "calc_outcome(&*self.board)" in s and "Repeat" not in s:
            return "BOARD"
        if ret[0] == "agg" and ret[2] == "None":
            return "NONE"
        return "?" + s

    for O in ("None", "SomeStrict", "SomeLoose"):
        for rep in range(0, 8):
            want = "BOARD" if O == "SomeStrict" else ("Repeat5" if rep >= 5 else ("Repeat3" if rep >= 3 else "BOARD"))
            match = []
            for cons, ret in paths:
                if cons.get("other"):
                    continue
                if O == "None" and cons["some"] is True:
                    continue
                if O != "None" and cons["some"] is False:
                    continue
                if cons["strict"] == "?":
                    match.append(("?", ret))
                    continue
                if O == "SomeStrict" and cons["strict"] is False:
                    continue
                if O == "SomeLoose" and cons["strict"] is True:
                    continue
                if not rep_ok(cons, rep):
                    continue
                match.append((cons, ret))
            key = "calc_outcome(board=%s, occurrences=%d)" % (O, rep)
            if len(match) != 1:
                r.fail(key, "%s: %d paths match this abstract input (expected exactly one; conditions not understood)" % (key, len(match)),
                       site=ctx.site(fn))
                continue
            got = classify(match[0][1])
            if got == "NONE" and O == "None" and want == "BOARD":
                got = "BOARD"
            r.check(got == want, key, "%s returns %s, the statement prescribes %s" % (key, got, want), site=ctx.site(fn), what=key + " -> " + want)


def auto_outcome_rule(ctx, facts, rid):
    r = ctx.rule(rid, "set_auto_outcome stores the calculated outcome exactly when it passes the requested filter")
    fns = chain_fn(facts, "set_auto_outcome")
    if not fns:
        r.anchor_missing(CHAIN_R + "set_auto_outcome")
        return
    fn = fns[0]
    fb = FxBuilder(facts, stop=chain_stop(facts))
    tree = fb.tree(fn)
    filt = ("param", 2, fn.body.names.get(2, "_2"))
    for events, choices in tree_paths(tree):
        last = events[-1]
        if last[0] != "ret":
            continue
        some = passes = None
        for e in events:
            if e[0] != "branch":
                continue
            d = unstamp(path_value(e[1], choices))
            if d[0] == "discr" and d[1][0] == "call" and d[1][1].endswith("calc_outcome"):
                some = e[2] != "else" and 1 in e[2]
            if d[0] == "call" and d[1] == OUT + "::passes":
                okargs = d[2][1] == filt and "calc_outcome(self)" in show(d[2][0])
                passes = (not (e[2] != "else" and 0 in e[2])) if okargs else "?"
        stores = [e for e in events if e[0] == "store" and show(unstamp(e[1])) == "*self.outcome"]
        should = bool(some) and passes is True
        key = "set_auto_outcome/some=%s/passes=%s" % (some, passes)
        if passes == "?":
            r.fail(key, "set_auto_outcome tests passes() on something else than (calculated outcome, requested filter)", site=ctx.site(fn))
            continue
        # what the field holds afterwards: untouched (it is None on entry: the function asserts the game is unfinished), None, or the
        # calculated outcome - whether by a guarded store or by storing a filtered Option
        eff = "none"
        if stores:
            v = unstamp(path_value(stores[-1][2], choices))
            if v[0] == "agg" and v[2] == "None":
                eff = "none"
            elif v[0] == "agg" and v[2] == "Some" and "calc_outcome(self)" in show(v):
                eff = "some"
            else:
                eff = "?"
        ok = eff != "?" and (eff == "some") == should and len(stores) <= 1
        r.check(ok, key, "set_auto_outcome: the outcome field ends as %s on a path where calculated-outcome-present=%s and passes(filter)=%s"
                % ({"none": "None", "some": "the calculated outcome", "?": "something else"}[eff], some, passes), site=ctx.site(fn), what=key)


def repeat_pairing_rule(ctx, facts, rid):
    r = ctx.rule(rid, "repetition table: pushed after every accepted make, popped before the unmake, keyed by the Zobrist hash only")
    # new(): one repeat.push on the start position
    for nm in ("new",):
        fns = chain_fn(facts, nm)
        if not fns:
            r.anchor_missing(CHAIN_R + nm)
            continue
        fn = fns[0]
        fb = FxBuilder(facts, stop=chain_stop(facts))
        tree = fb.tree(fn)
        reps = [n for n, _c, _i in walk_tree(tree) if _is_repeat_push(n)]
        ok = len(reps) == 1 and show(unstamp(reps[0][3][1])).endswith(".hash")
        r.check(ok, "new/repeat.push", "BaseMoveChain::new does not enter the start position into the repetition table", site=ctx.site(fn),
                what="new() pushes the start position")
    # HashRepeat::push/pop/count use b.zobrist_hash() as the only key
    for meth, pred in (("push", _is_repeat_push), ("pop", _is_repeat_pop),
                       ("count", lambda e: e[0] == "call" and (e[2] or "").endswith("HashMap::<K, V, S, A>::get"))):
        name = "<%s as owlchess::chain::Repeat>::%s" % (HR, meth)
        fn = facts.fns.get(name)
        if fn is None:
            r.anchor_missing(name)
            continue
        fb = FxBuilder(facts)
        tree = fb.tree(fn)
        cs = [n for n, _c, _i in walk_tree(tree) if pred(n)]
        ok = len(cs) >= 1 and all(show(unstamp(c[3][1])).lstrip("&") in ("*b.hash",) for c in cs)
        r.check(ok, "HashRepeat::%s/key" % meth, "HashRepeat::%s is not keyed by the board's Zobrist hash: %s"
                % (meth, [show(unstamp(c[3][1])) for c in cs]), site=ctx.site(fn), what="HashRepeat::%s keyed by b.zobrist_hash()" % meth)
    # pop: decrement and remove at zero; push: +1 or insert 1
    fn = facts.fns.get("<%s as owlchess::chain::Repeat>::pop" % HR)
    if fn is not None:
        fb = FxBuilder(facts)
        tree = fb.tree(fn)
        subs = [(n, c) for n, c, _i in walk_tree(tree) if n[0] == "store" and "SubWithOverflow 1" in show(n[2])]
        rems = [(n, c) for n, c, _i in walk_tree(tree) if n[0] == "call" and (n[2] or "").endswith("::remove")]
        okpop = False
        if len(subs) == 1 and len(rems) == 1:
            (st, sc), (rm, rc) = subs[0], rems[0]

            def tests(conds):
                out = []
                for d, lab, _cv in conds:
                    t = show(unstamp(d))
                    truth = not (lab != "else" and 0 in lab)
                    for k in (0, 1):
                        if t.startswith("(%d Eq " % k) or t.endswith(" Eq %d)" % k):
                            out.append((k, truth, d))
                return out
            for k, truth, d in tests(rc):
                if k == 0 and truth:
                    okpop = True            # count -= 1; if count == 0 { remove }
                if k == 1 and truth and any(k2 == 1 and not t2 for k2, t2, _d2 in tests(sc)):
                    okpop = True            # if count == 1 { remove } else { count -= 1 }
        r.check(okpop, "HashRepeat::pop/decrement", "HashRepeat::pop does not decrement by one and remove the entry that would reach zero",
                site=ctx.site(fn), what="pop: count -= 1, entry removed at 0")
    clos = [f for f in facts.fns.values() if f.def_path.startswith("<owlchess::chain::HashRepeat as owlchess::chain::Repeat>::push::{closure")]
    okc = False
    for c in clos:
        fb = FxBuilder(facts)
        for n, _c, _i in walk_tree(fb.tree(c)):
            if n[0] == "store" and _plus_one(n):
                okc = True
    fnp = facts.fns.get("<%s as owlchess::chain::Repeat>::push" % HR)
    ins1 = False
    if fnp is not None:
        fb = FxBuilder(facts)
        for n, _c, _i in walk_tree(fb.tree(fnp)):
            if n[0] == "call" and (n[2] or "").endswith("or_insert") and n[3][1] == ("const", 1, "usize"):
                ins1 = True
        # other shape: `*map.entry(k).or_insert(0) += 1`
        ins0 = any(n[0] == "call" and (n[2] or "").endswith("or_insert") and n[3][1] == ("const", 0, "usize") for n, _c, _i in walk_tree(fb.tree(fnp)))
        inc = any(n[0] == "store" and _plus_one(n) and "or_insert" in show(unstamp(n[1])) for n, _c, _i in walk_tree(fb.tree(fnp)))
        if ins0 and inc:
            okc = ins1 = True
    r.check(okc and ins1, "HashRepeat::push/increment", "HashRepeat::push does not increment by one / insert 1", what="push: count += 1 or insert 1")


def _plus_one(n):
    """The store writes exactly (what the place held) + 1 - nothing clamps or rescales the count."""
    place, v = unstamp(n[1]), unstamp(n[2])
    one = ("const", 1, "usize")
    return v in (("field", ("bin", "AddWithOverflow", place, one), "#0"), ("bin", "Add", place, one),
                 ("field", ("bin", "AddWithOverflow", one, place), "#0"), ("bin", "Add", one, place))


# ---------------------------------------------------------------------------------------------- C17

WALKER = "owlchess::chain::Walker::<'a>::"


def walker_sync_rule(ctx, facts, rid):
    r = ctx.rule(rid, "Walker::set_board_pos loops until board_pos == target: unmake after decrement, make before increment")
    lst = facts.instances(WALKER + "set_board_pos")
    if not lst:
        r.anchor_missing(WALKER + "set_board_pos")
        return
    fn = lst[0]
    fb = FxBuilder(facts, stop=(MAKE_U, UNMAKE_U))
    tree = fb.tree(fn)
    loops = []
    for n in tree:
        if n[0] == "switch":
            d = unstamp(n[1])
            body = None
            for lab, sub in n[2].items():
                if sub and sub[-1][0] == "backedge":
                    body = sub
            loops.append((d, body, n))
    target = ("param", 2, fn.body.names.get(2, "_2"))

    def guard(d):
        if d[0] == "bin" and d[1] in ("Gt", "Lt") and "board_pos" in show(d[2]) and d[3] == target:
            return d[1]
        if d[0] == "bin" and d[1] in ("Gt", "Lt") and "board_pos" in show(d[3]) and d[2] == target:
            return {"Gt": "Lt", "Lt": "Gt"}[d[1]]
        return None
    gs = [(guard(d), body) for d, body, _n in loops]
    back = [g for g, body in gs if g == "Gt"]
    fwd = [g for g, body in gs if g == "Lt"]
    r.check(len(back) == 1 and all(body is not None for g, body in gs if g == "Gt"), "set_board_pos/backward-loop",
            "set_board_pos has no `while board_pos > target` loop (a single test leaves the board more than one ply ahead)", site=ctx.site(fn),
            what="`board_pos > target` is a loop guard")
    r.check(len(fwd) == 1 and all(body is not None for g, body in gs if g == "Lt"), "set_board_pos/forward-loop",
            "set_board_pos has no `while board_pos < target` loop: a single `if` replays only one move, so after start()/end() jumps the "
            "board lags behind the index", site=ctx.site(fn), what="`board_pos < target` is a loop guard")
    for g, body in gs:
        if body is None or g is None:
            continue
        stores = [(i, n) for i, n in enumerate(body) if n[0] == "store" and show(unstamp(n[1])).endswith(".board_pos")]
        calls = [(i, n) for i, n in enumerate(body) if n[0] == "call" and n[2] in (MAKE_U, UNMAKE_U)]
        if g == "Gt":
            ok = (len(stores) == 1 and len(calls) == 1 and calls[0][1][2] == UNMAKE_U and stores[0][0] < calls[0][0]
                  and "SubWithOverflow 1" in show(stores[0][1][2]))
            # the index used must be the decremented one (loaded after the store)
            a = calls[0][1][3] if calls else ()
            idx_ok = len(a) == 3 and all("stack" in show(unstamp(x)) and "board_pos" in show(unstamp(x)) for x in a[1:]) \
                and _loads_after_store(a[1], "board_pos")
            r.check(ok and idx_ok, "set_board_pos/backward-body", "backward loop is not `board_pos -= 1; unmake(stack[board_pos])`", site=ctx.site(fn),
                    what="backward: decrement, then unmake(stack[board_pos].0, .1)")
        else:
            ok = (len(stores) == 1 and len(calls) == 1 and calls[0][1][2] == MAKE_U and calls[0][0] < stores[0][0]
                  and "AddWithOverflow 1" in show(stores[0][1][2]))
            r.check(ok, "set_board_pos/forward-body", "forward loop is not `make(stack[board_pos]); board_pos += 1`", site=ctx.site(fn),
                    what="forward: make(stack[board_pos].0), then increment")


def _loads_after_store(e, field):
    """All loads of `.field` inside e have a memory version > 0 (i.e. were read after the store in this loop body)."""
    ok = True
    found = False

    def rec(x):
        nonlocal ok, found
        if not isinstance(x, tuple) or not x:
            return
        if x[0] == "ld" and show(x[2]).endswith("." + field):
            found = True
            if x[1] == 0:
                ok = False
        for y in x:
            if isinstance(y, tuple):
                if y and isinstance(y[0], str):
                    rec(y)
                else:
                    for z in y:
                        rec(z)
    rec(e)
    return ok and found


def walker_step_rule(ctx, facts, rid):
    r = ctx.rule(rid, "Walker::next/prev hand set_board_pos the index of the move they return, with the walker's own board")
    for meth, want_idx in (("next", "(*self.pos SubWithOverflow 1).#0"), ("prev", "*self.pos")):
        lst = facts.instances(WALKER + meth)
        if not lst:
            r.anchor_missing(WALKER + meth)
            continue
        fn = lst[0]
        fb = FxBuilder(facts, stop=(WALKER + "set_board_pos",))
        tree = fb.tree(fn)
        ok_some = ok_none = False
        why = ""
        for events, choices in tree_paths(tree):
            if events[-1][0] != "ret":
                continue
            ret = unstamp(path_value(events[-1][1], choices))
            calls = [e for e in events if e[0] == "call" and e[2] == WALKER + "set_board_pos"]
            stores = [e for e in events if e[0] == "store" and show(unstamp(e[1])) == "*self.pos"]
            if ret[0] == "agg" and ret[2] == "None":
                ok_none = not calls and not stores
                continue
            if ret[0] == "agg" and ret[2] == "Some":
                tup = ret[3][0]
                if len(calls) != 1 or len(stores) != 1 or not (tup[0] == "agg" and len(tup[3]) == 2):
                    why = "%d set_board_pos calls, %d stores to pos" % (len(calls), len(stores))
                    continue
                st = stores[0]
                ver0 = st[4] if len(st) > 4 else 0

                def lin(e):
                    """(coefficient of the old pos, constant) of an index expression; None if not such a form."""
                    if e[0] == "const" and isinstance(e[1], int):
                        return (0, e[1])
                    if e[0] == "ld" and show(unstamp(e[2])) == "*self.pos":
                        return (1, 0) if e[1] <= ver0 else lin(path_value(st[2], choices))
                    if e[0] == "field" and e[2] == "#0" and e[1][0] == "bin" and e[1][1] in ("AddWithOverflow", "SubWithOverflow"):
                        a, b = lin(e[1][2]), lin(e[1][3])
                        if a is None or b is None:
                            return None
                        sg = 1 if e[1][1].startswith("Add") else -1
                        return (a[0] + sg * b[0], a[1] + sg * b[1])
                    if e[0] == "bin" and e[1] in ("Add", "Sub"):
                        a, b = lin(e[2]), lin(e[3])
                        if a is None or b is None:
                            return None
                        sg = 1 if e[1] == "Add" else -1
                        return (a[0] + sg * b[0], a[1] + sg * b[1])
                    if e[0] == "downcast" and e[2] in ("Some", "Continue"):
                        inner = e[1]
                        if inner[0] == "call" and inner[1].endswith("::branch") and inner[2]:
                            inner = inner[2][0]          # `x?` on an Option: the Some payload
                        if inner[0] == "call" and inner[2] and len(inner[2]) == 2:
                            op = inner[1].split("::")[-1]
                            if op in ("checked_sub", "checked_add"):
                                a, b = lin(inner[2][0]), lin(inner[2][1])
                                if a is None or b is None:
                                    return None
                                sg = 1 if op == "checked_add" else -1
                                return (a[0] + sg * b[0], a[1] + sg * b[1])
                    if e[0] == "call" and e[2] and len(e[2]) == 2 and e[1].split("::")[-1] in ("wrapping_sub", "wrapping_add"):
                        a, b = lin(e[2][0]), lin(e[2][1])
                        if a is None or b is None:
                            return None
                        sg = 1 if e[1].endswith("wrapping_add") else -1
                        return (a[0] + sg * b[0], a[1] + sg * b[1])
                    return None
                want = (1, 0) if meth == "next" else (1, -1)          # next: the move at the old pos; prev: at old pos - 1
                newpos = lin(path_value(st[2], choices))
                idx_e = path_value(calls[0][3][1], choices)
                idx = lin(idx_e)
                ret_st = path_value(events[-1][1], choices)         # stamped: loads keep their memory version
                mi = None
                for x in walk(ret_st):
                    if x[0] in ("index", "tbl") and "self.stack" in show(unstamp(x[1])):
                        mi = lin(x[2])
                brd = show(unstamp(tup[3][0]))
                ok_some = (newpos == ((1, 1) if meth == "next" else (1, -1)) and idx == want and mi == want and brd == "&*self.board"
                           and events.index(st) < events.index(calls[0]))
                why = "pos := old%+d, set_board_pos(old%+d), returns (%s, stack[old%+d])" % (
                    (newpos or (0, 99))[1], (idx or (0, 99))[1], brd, (mi or (0, 99))[1])
        r.check(ok_some and ok_none, "Walker::" + meth, "Walker::%s: %s; expected the board moved to and the move taken from index %s, "
                "with &self.board, None path untouched" % (meth, why, "old pos" if meth == "next" else "old pos - 1"), site=ctx.site(fn),
                what="Walker::%s index discipline" % meth)
    for meth, want in (("start", "0"), ("end", "len(&**self.stack)")):
        lst = facts.instances(WALKER + meth)
        if not lst:
            r.anchor_missing(WALKER + meth)
            continue
        fn = lst[0]
        fb = FxBuilder(facts)
        tree = fb.tree(fn)
        st = [n for n, _c, _i in walk_tree(tree) if n[0] == "store"]
        ok = len(st) == 1 and show(unstamp(st[0][1])) == "*self.pos" and show(unstamp(st[0][2])) in (want, "PtrMetadata(&**self.stack)", "PtrMetadata(**self.stack)")
        r.check(ok, "Walker::" + meth, "Walker::%s does not set pos := %s only" % (meth, want), site=ctx.site(fn), what="Walker::%s sets pos := %s" % (meth, want))
    # walk(): owned clone of the board, shared slice of the stack, pos 0, board_pos = len
    lst = facts.instances(CHAIN_R + "walk")
    if lst:
        fn = lst[0]
        fb = FxBuilder(facts, stop=("<owlchess::board::Board as core::clone::Clone>::clone",))
        ret = [x[1] for x in fb.tree(fn) if x[0] == "ret"]
        v = unstamp(ret[0]) if ret else ("?",)
        s = show(v)
        ok = False
        if v[0] == "agg" and v[2] == "Walker" and len(v[3]) == 4:
            brd, stk, pos, bpos = v[3]
            ok = (brd[0] == "call" and brd[1].endswith("Clone>::clone") and show(brd[2][0]) == "&*self.board"
                  and "self.stack" in show(stk) and pos == ("const", 0, "usize") and show(bpos) in ("len(&*self.stack)",))
        r.check(ok, "walk()", "BaseMoveChain::walk builds %s; expected {board.clone(), &stack, pos 0, board_pos len}" % s, site=ctx.site(fn), what="walk()")
    else:
        r.anchor_missing(CHAIN_R + "walk")
    # the walker cannot alias the chain mutably: it holds a shared slice and an owned board
    adt = None
    for k, a in facts.adts.items():
        if a and a.get("path") == "owlchess::chain::Walker":
            adt = a
    if adt is None:
        r.anchor_missing("owlchess::chain::Walker")
    else:
        f = {x["name"]: facts.types[x["ty"]] if x["ty"] is not None else None for x in adt["variants"][0]["fields"]}
        ok = f.get("stack") and f["stack"]["k"] == "ref" and not f["stack"]["mut"] and f.get("board") and f["board"]["k"] == "adt" \
            and f["board"].get("path") == "owlchess::board::Board"
        r.check(bool(ok), "Walker/fields", "Walker does not hold a shared slice of the stack and an owned Board", what="Walker{board: Board, stack: &[..]}")


def status_rule(ctx, facts, rid):
    r = ctx.rule(rid, "GameStatus::from(Option<Outcome>) table; UCI list separator and from_uci_list")
    fn = facts.fns.get("<owlchess_base::types::GameStatus as core::convert::From<core::option::Option<owlchess_base::types::Outcome>>>::from")
    T = "owlchess_base::types::"
    if fn is None:
        r.anchor_missing("From<Option<Outcome>> for GameStatus")
    else:
        gs = {v["name"]: v["discr"] for v in facts.adts[T + "GameStatus"]["variants"]}
        fb = FxBuilder(facts)
        cases = [(("agg", "core::option::Option", "None", ()), "Running", "None")]
        for side in ("White", "Black"):
            for wr in WIN_REASONS:
                o = ("agg", OUT, "Win", (_enum_const(facts, T + "Color", side), _enum_const(facts, T + "WinReason", wr)))
                cases.append((("agg", "core::option::Option", "Some", (o,)), side, "Win/%s/%s" % (side, wr)))
        for dr in DRAW_REASONS:
            o = ("agg", OUT, "Draw", (_enum_const(facts, T + "DrawReason", dr),))
            cases.append((("agg", "core::option::Option", "Some", (o,)), "Draw", "Draw/" + dr))
        for arg, want, nm in cases:
            ret = [x[1] for x in fb.tree(fn, env=[arg]) if x[0] == "ret"]
            v = ret[0] if ret else None
            r.check(v == ("const", gs[want], T + "GameStatus"), "GameStatus::from(%s)" % nm, "GameStatus::from(%s) = %s, expected %s" % (nm, show(v) if v else None, want),
                    site=ctx.site(fn), what="GameStatus::from(%s) = %s" % (nm, want))
    # UciList: the text for a chain of 0..3 moves is the moves' own texts joined by single spaces (the model of Display is evaluated with
    # the chain's iterator as an input that may end at any step; whatever the shape of the loop)
    lst = [f for f in facts.fns.values() if f.def_path == "<owlchess::chain::UciList<'a, R> as core::fmt::Display>::fmt"]
    if not lst:
        r.anchor_missing("Display for UciList")
    else:
        from .machine import Machine, NeedInput, Stuck, _last
        from .teval import Unsupported, Panic
        fn = lst[0]
        ITER = "owlchess::chain::BaseMoveChain::<R>::iter"
        tree = FxBuilder(facts, ai_mode=True, max_depth=12, max_blocks=400, stop={ITER}).tree(fn)

        def oracle(name, args, m):
            if _last(name) == "iter" and "BaseMoveChain" in name:
                return ("iter", "input", "moves", 0, (("sym", "M"), None))
            return None
        seps = None
        ok = True
        n_runs = 0
        try:
            for n_moves in range(0, 4):
                m = Machine(facts, tree, oracle=oracle)
                given = [0]

                class Feed(dict):
                    def __contains__(self, k):
                        return True

                    def __getitem__(self, k):
                        given[0] += 1
                        return ("sym", "M") if given[0] <= n_moves else None
                m.inputs = Feed()
                res = m.start()
                text = "".join(m.out)
                steps = 0
                while res[0] == "at" and steps < 50:
                    m.out = []
                    m._nreq = 0
                    res = m.resume(res[1])
                    text += "".join(m.out)
                    steps += 1
                want = " ".join(["\x02M\x02"] * n_moves)
                n_runs += 1
                if res[0] != "ret" or text != want:
                    ok = False
                    seps = "for %d moves it writes %r" % (n_moves, text.replace("\x02M\x02", "<move>"))
                    break
        except (Stuck, Unsupported, Panic) as ex:
            ok = False
            seps = "model not evaluable: %s" % str(ex)[:120]
        r.check(ok, "UciList/separator", "UciList writes separators %s; expected a single space before every move but the first" % seps, site=ctx.site(fn),
                what="UciList separator ' ' (ASCII whitespace, split by push_uci_list)")
    lst = facts.instances(CHAIN_R + "push_uci_list")
    if lst:
        fn = lst[0]
        # callees of the function and of the closures it defines (a `for` loop or an iterator adapter with a closure)
        bodies = [fn] + [f for f in facts.fns.values() if f.kind == "Closure" and f.def_path.startswith(fn.def_path + "::{closure")]
        callees = [(t["f"].get("ext") or t["f"].get("inst") or "") for b_ in bodies for _bi, t in b_.body.calls()]
        ok = any("split_ascii_whitespace" in c for c in callees) and any("::push::<owlchess::moves::make::Uci<&str>>" in c for c in callees)
        r.check(ok, "push_uci_list", "push_uci_list does not split on ASCII whitespace and push make::Uci(token)", site=ctx.site(fn),
                what="push_uci_list = split_ascii_whitespace + push(Uci(token))")
    lst = facts.instances(CHAIN_R + "from_uci_list")
    if lst:
        fn = lst[0]
        callees = [(t["f"].get("inst") or "") for _bi, t in fn.body.calls()]
        ok = any(c.endswith("::new") and "BaseMoveChain" in c for c in callees) and any(c.endswith("::push_uci_list") for c in callees)
        r.check(ok, "from_uci_list", "from_uci_list is not new(b) + push_uci_list", site=ctx.site(fn), what="from_uci_list = new + push_uci_list")


# ---------------------------------------------------------------------------------------------- the styled move list

def _template(facts, e):
    """Text of a format_args! template (compact encoding: 0xC0 = next argument, n < 0x80 = n literal bytes, 0 = end)."""
    while isinstance(e, tuple) and e and e[0] == "ref":
        e = e[1]
    if not (isinstance(e, tuple) and e and e[0] == "alloc"):
        return None
    a = facts.allocs.get(str(e[1])) or facts.allocs.get(e[1])
    if not a or a.get("relocs"):
        return None
    b = bytes.fromhex(a["bytes"])
    out = ""
    i = 0
    while i < len(b):
        x = b[i]
        if x == 0:
            return out
        if x == 0xC0:
            out += "{}"
            i += 1
        elif x < 0x80:
            out += b[i + 1:i + 1 + x].decode("latin-1")
            i += 1 + x
        else:
            return None
    return out


def styled_list_rule(ctx, facts, rid):
    r = ctx.rule(rid, "StyledList::fmt prints, in walker order, every move as mv.styled(board before it, requested style); a number before the "
                      "first move ('N. ' for White, 'N... ' for Black) and before every later White move (board's number - first number + "
                      "start), none when omitted; the status token last, from the stored outcome")
    fns = [f for k, f in facts.fns.items() if "StyledList" in k and "core::fmt::Display" in k and k.endswith("::fmt")]
    if not fns:
        r.anchor_missing("<StyledList as Display>::fmt")
        return
    NEXT = "owlchess::chain::Walker::<'a>::next"
    STYLED = "owlchess::moves::base::Move::styled"
    for fn in fns:
        stop = {NEXT, STYLED, "owlchess::chain::BaseMoveChain::<R>::walk"} | {x.def_path for x in facts.fns.values() if "GameStatus" in x.def_path}
        fb = FxBuilder(facts, stop=stop)
        tree = fb.tree(fn)
        n_paths = 0
        kinds_seen = set()
        for events, choices in tree_paths(tree):
            last = events[-1]
            if last[0] not in ("ret", "backedge"):
                continue
            n_paths += 1
            pv = lambda e: unstamp(path_value(e, choices))
            # split into segments: [before first next] [first move] [loop iteration]...
            segs = [[]]
            for e in events:
                if e[0] == "call" and e[2] == NEXT:
                    segs.append([])
                segs[-1].append(e)
            nums_on = None
            for e in events:
                if e[0] == "branch" and "nums" in show(unstamp(e[1])) and show(unstamp(e[1])).startswith("discr("):
                    nums_on = e[2] != (0,) and e[2] != "else" or (e[2] == "else")
                    nums_on = (0 not in e[2]) if e[2] != "else" else True
            for si, seg in enumerate(segs):
                writes = []
                for j, e in enumerate(seg):
                    if e[0] == "call" and (e[2] or "").startswith("core::fmt::Arguments") and "::new" in (e[2] or e[1]):
                        tmpl = _template(facts, pv(e[3][0])) if e[3] else None
                        argv = pv(e[3][1]) if len(e[3]) > 1 else None
                        writes.append((tmpl, argv))
                    elif e[0] == "call" and (e[2] or "").startswith("core::fmt::Arguments") and (e[2] or "").endswith("::from_str") and e[3]:
                        a0 = pv(e[3][0])
                        lit = a0[1] if a0[0] in ("str", "const") and isinstance(a0[1], str) else None
                        writes.append((lit, None))
                    elif e[0] == "call" and (e[2] or "").endswith("Formatter::<'a>::write_str") and len(e[3]) > 1:
                        a1 = pv(e[3][1])
                        writes.append((a1[1] if a1[0] in ("str", "const") and isinstance(a1[1], str) else None, None))
                # white-to-move test inside this segment
                side_white = None
                for e in seg:
                    if e[0] == "branch":
                        t = show(pv(e[1]))
                        if t.endswith(".#0.r.side)") or t.endswith(".#0.r.side"):
                            if t.startswith("(0 Eq "):
                                side_white = (e[2] == "else") or (e[2] != "else" and 0 not in e[2])
                            elif t.startswith("discr("):
                                side_white = (e[2] != "else" and 0 in e[2])
                texts = []
                for tmpl, argv in writes:
                    a = show(argv) if argv is not None else ""
                    if argv is None:
                        texts.append(("lit", tmpl))
                        continue
                    if "styled(" in a and "self.style" in a and ".#1" in a and ".#0" in a:
                        kind = "move"
                    elif "GameStatus" in a and "outcome" in a:
                        kind = "status"
                    elif "move_number" in a or "start_num" in a or "self.nums" in a:
                        kind = "number"
                    else:
                        kind = "other:" + a[:80]
                    texts.append((kind, tmpl))
                    kinds_seen.add(kind.split(":")[0])
                key = "%s/segment%d" % ("first" if si == 1 else ("loop" if si >= 2 else "head"), si)
                tag = "fmt/" + key
                if si == 0:
                    # before the first next(): only the empty-list status
                    ok = "".join((t or "?") if k == "lit" else (t or "?").replace("{}", "{%s}" % k.split(":")[0]) for k, t in texts) in ("", "{status}")
                    r.check(ok, tag, "StyledList::fmt writes %s before walking the list" % (texts,), site=ctx.site(fn), what="empty list: status only")
                    continue
                stream = "".join((t or "?") if k == "lit" else (t or "?").replace("{}", "{%s}" % k.split(":")[0]) for k, t in texts)
                moves = [x for x in texts if x[0] == "move"]
                numbers = [x for x in texts if x[0] == "number"]
                others = [x for x in texts if x[0].startswith("other")]
                status = [x for x in texts if x[0] == "status"]
                if others:
                    r.fail(tag + "/foreign", "StyledList::fmt prints something that is neither a walker move in the requested style, a move number "
                                              "nor the status: %s" % (others[0][0],), site=ctx.site(fn))
                    continue
                item_present = any(e[0] == "branch" and show(pv(e[1])).startswith("discr(next(") and e[2] != "else" and 1 in e[2] for e in seg) or si == 1
                rv_ = unstamp(path_value(last[1], choices)) if last[0] == "ret" else None
                err_path = rv_ is not None and rv_[0] == "agg" and rv_[2] == "Err"
                if not item_present:
                    ok = not moves and not numbers and (stream in ("", " {status}") or (err_path and " {status}".startswith(stream)))
                    r.check(ok, tag + "/end", "after the last move StyledList::fmt writes %s" % (texts,), site=ctx.site(fn), what="end: status ' {}' only")
                    continue
                if len(moves) != 1:
                    if seg and seg[-1][0] == "ret" and not moves:
                        continue        # write error propagated
                    r.fail(tag + "/moves", "one walker step prints %d moves" % len(moves), site=ctx.site(fn))
                    continue
                if si == 1:
                    ok = stream == "{move}"
                    if numbers:
                        ok = stream == ("{number}. {move}" if side_white else "{number}... {move}")
                    r.check(ok, tag + "/" + ("white" if side_white else "black" if side_white is not None else "nonum"),
                            "first move is written as %s (side to move white=%s)" % (texts, side_white), site=ctx.site(fn),
                            what="first move: %s" % ([t for _k, t in texts],))
                else:
                    ok = stream == " {move}"
                    if side_white and nums_on is not False and numbers:
                        ok = stream == " {number}. {move}"
                    if side_white is False:
                        ok = ok and not numbers
                    if side_white and not numbers:
                        # numbers omitted on this path (nums == Omit)
                        ok = ok and any(e[0] == "branch" and "start_num" in show(unstamp(e[1])) for e in seg + segs[1])
                    r.check(ok, tag + "/" + ("white" if side_white else "black" if side_white is not None else "nonum"),
                            "a later move is written as %s (side to move white=%s)" % (texts, side_white), site=ctx.site(fn),
                            what="later move: %s" % ([t for _k, t in texts],))
        r.floor(n_paths, 6, "paths of StyledList::fmt")
        r.check({"move", "number", "status"} <= kinds_seen, "fmt/kinds", "StyledList::fmt does not print all of move, number, status: %s" % sorted(kinds_seen),
                site=ctx.site(fn), what="prints moves, numbers and the status")
        # the number expression of later moves
        txt = repr(tree)
        r.check("SubWithOverflow" in txt and "move_number" in txt, "fmt/number-expr", "later move numbers are not board.move_number - first + start",
                site=ctx.site(fn), what="number = board's move number - first board's number + start")
