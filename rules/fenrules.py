"""C08 - FEN writer and reader as automata.

`format_cells` and `parse_cells` are read as transition systems (rules/machine.py) and explored together with a reference
writer / reader of the piece-placement field: every reachable state, every input at every step. The reference writer and
reader are shown inverse to each other on all 256 occupancy patterns of a rank (ranks are independent; cells are letters).
The remaining fields are tabulated end to end: Display for RawBoard is evaluated for every (side, castling rights,
en-passant file) and the text it writes is fed, field by field, to the model of FromStr."""
from .fx import FxBuilder, unstamp
from .expr import show
from .teval import Unsupported, Panic
from .machine import Machine, NeedInput, Stuck, run_function

LETTERS = ".PKNBRQpknbrq"


# ------------------------------------------------------------------ exploration driver

def explore(m, init_ref, step_ref, final_ref, limit=20000):
    """Product exploration. step_ref(ref, machine, outcome) -> (new_ref | None, error text | None).
    Returns (n_states, n_transitions, error)."""
    seen = set()
    todo = [(None, m.snapshot(), init_ref)]
    n_tr = 0
    while todo:
        loc, snap, ref = todo.pop()
        key = (loc, snap, ref)
        if key in seen:
            continue
        seen.add(key)
        if len(seen) > limit:
            return len(seen), n_tr, "state space larger than %d" % limit
        stack = [{}]
        while stack:
            choice = stack.pop()
            m.restore(snap)
            m.inputs = dict(choice)
            m.requested = []
            try:
                r = m.start() if loc is None else m.resume(loc)
            except NeedInput as ni:
                for v in ni.domain:
                    c = dict(choice)
                    c[ni.key] = v
                    stack.append(c)
                continue
            except (Stuck, Unsupported) as ex:
                return len(seen), n_tr, "model not evaluable at %s: %s" % (loc, str(ex)[:160])
            except Panic as ex:
                r = ("panic", str(ex))
            n_tr += 1
            new_ref, err = step_ref(ref, m, r)
            if err:
                return len(seen), n_tr, err
            if r[0] == "at":
                todo.append((r[1], m.snapshot(), new_ref))
            elif r[0] == "ret":
                err = final_ref(new_ref, m, r)
                if err:
                    return len(seen), n_tr, err
    return len(seen), n_tr, None


def _lead(lead, impl_out, ref_out):
    """lead = (who is ahead, text). Returns new lead or None on a mismatch."""
    a = (lead[1] if lead[0] == "impl" else "") + impl_out
    b = (lead[1] if lead[0] == "ref" else "") + ref_out
    n = min(len(a), len(b))
    if a[:n] != b[:n]:
        return None
    if len(a) > n:
        return ("impl", a[n:])
    return ("ref", b[n:])


# ------------------------------------------------------------------ reference writer / reader

def ref_write_cell(n, run, c):
    """Reference piece-placement writer, one square (index n, a8 first): returns (text, new run)."""
    out = ""
    if n > 0 and n % 8 == 0:
        out += "/"
    if c == 0:
        run += 1
    else:
        if run:
            out += str(run)
            run = 0
        out += LETTERS[c]
    if n % 8 == 7 and run:
        out += str(run)
        run = 0
    return out, run


def ref_read_byte(file, rank, b):
    """Reference reader, one byte: returns ('err',) or ('ok', file', rank', store or None)."""
    ch = chr(b)
    if "1" <= ch <= "8":
        d = b - 48
        if file + d > 8:
            return ("err",)
        return ("ok", file + d, rank, None)
    if ch == "/":
        if file != 8 or rank >= 7:
            return ("err",)
        return ("ok", 0, rank + 1, None)
    if ch in LETTERS:
        if file >= 8:
            return ("err",)
        return ("ok", file + 1, rank, (8 * rank + file, LETTERS.index(ch)))
    return ("err",)


def self_check_reference():
    """reader(writer(rank)) = rank for all 256 occupancy patterns of a rank, in first, middle and last position."""
    n = 0
    for rank in (0, 3, 7):
        for pat in range(256):
            cells = [((pat >> i) & 1) * (1 + (i % 12)) for i in range(8)]
            run, text = 0, ""
            for i, c in enumerate(cells):
                t, run = ref_write_cell(8 * rank + i, run, c)
                text += t
            if rank > 0:
                if not text.startswith("/"):
                    return n, "reference writer: no separator before rank %d" % rank
                text = text[1:]
            f, got = 0, {}
            for ch in text:
                r = ref_read_byte(f, rank, ord(ch))
                if r[0] != "ok":
                    return n, "reference reader rejects %r" % text
                f = r[1]
                if r[3]:
                    got[r[3][0] - 8 * rank] = r[3][1]
            if f != 8 or [got.get(i, 0) for i in range(8)] != cells:
                return n, "reference reader(writer(%r)) differs" % (cells,)
            n += 1
    return n, None


# ------------------------------------------------------------------ rules

def _tree(facts, fn, stop=()):
    return FxBuilder(facts, ai_mode=True, max_depth=12, max_blocks=400, stop=stop, array_stores=True).tree(fn)


def writer_rule(ctx, facts, rid):
    r = ctx.rule(rid, "format_cells is, as a transition system, the reference piece-placement writer: squares read in order a8..h1 each once, "
                      "empty runs as digits 1-8 flushed before a piece and at the end of a rank, '/' between ranks, piece letters by Cell's "
                      "Display - explored over all reachable states and all 13 cell values at every step")
    fn = facts.fns.get("owlchess::board::format_cells")
    if fn is None:
        r.anchor_missing("owlchess::board::format_cells")
        return
    n_ok, err = self_check_reference()
    r.check(err is None, "reference", "the reference writer/reader pair is not an inverse pair: %s" % err,
            what="reference reader(reference writer(rank)) = rank on %d rank patterns" % n_ok)
    tree = _tree(facts, fn)

    def mem(place, m):
        if place[0] in ("index", "tbl"):
            base = place[1]
            while base[0] in ("deref", "ref"):
                base = base[1]
            if base[0] == "param":
                i = m.ev(place[2])
                m.requested.append(i)
                return m.need(("cell", i), tuple(range(13)))
        raise Unsupported("memory read " + show(place)[:60])

    m = Machine(facts, tree, mem=mem)
    m.requested = []

    def step(ref, mm, out):
        n, run, lead = ref
        ref_out = ""
        seen_here = []
        for i in mm.requested:
            if i in seen_here:
                continue
            seen_here.append(i)
            if i != n:
                return None, "format_cells reads square index %d when the next square in FEN order is %d" % (i, n)
            t, run = ref_write_cell(n, run, mm.inputs[("cell", i)])
            ref_out += t
            n += 1
        if out[0] == "panic":
            return None, "format_cells can panic (%s) after %d squares" % (out[1], n)
        impl_out = "".join(mm.out)
        new = _lead(lead, impl_out, ref_out)
        if new is None or len(new[1]) > 4:
            return None, "after %d squares format_cells has written %r where the FEN piece placement continues with %r" % (
                n, (lead[1] if lead[0] == "impl" else "") + impl_out, (lead[1] if lead[0] == "ref" else "") + ref_out)
        return (n, run, new), None

    def final(ref, mm, out):
        n, run, lead = ref
        v = out[1]
        if not (isinstance(v, tuple) and v[0] == "agg" and v[1] == "Ok"):
            return None     # an error of the formatter is passed on: nothing to compare
        if n != 64:
            return "format_cells returns after %d squares" % n
        if lead[1]:
            return "format_cells ends with %r %s" % (lead[1], "too much" if lead[0] == "impl" else "missing")
        return None

    n_st, n_tr, err = explore(m, (0, 0, ("ref", "")), step, final)
    r.check(err is None, "format_cells", err or "", site=ctx.site(fn),
            what="format_cells: %d states x inputs = %d transitions agree with the reference writer" % (n_st, n_tr))
    if err is None:
        r.floor(n_tr, 500, "transitions of the format_cells model")


def reader_rule(ctx, facts, rid):
    r = ctx.rule(rid, "parse_cells is, as a transition system, the reference piece-placement reader: digit d skips d squares (never past the "
                      "rank), '/' only after exactly 8 squares and at most 7 times, a letter stores Cell::from_char at 8*rank+file, the end "
                      "is accepted exactly after 8 ranks of 8 - explored over all reachable states and all 256 byte values at every step")
    fn = facts.fns.get("owlchess::board::parse_cells")
    if fn is None:
        r.anchor_missing("owlchess::board::parse_cells")
        return
    tree = _tree(facts, fn)

    def store(place, val, mm):
        p = place
        if p[0] in ("index", "tbl"):
            root = p[1]
            while root[0] in ("deref", "ref"):
                root = root[1]
            if root[0] == "local":
                mm.out.append(("store", mm.ev(p[2]), val))
                return True
        return False

    m = Machine(facts, tree, store=store)
    m.requested = []
    m.syms[1] = ("sym", "s")

    def step(ref, mm, out):
        file, rank = ref
        keys = [k for k in mm.inputs if k[0] == "input"]
        if not keys and out[0] == "at" and not mm.out:
            return ref, None        # from the entry to the loop head
        if len(keys) != 1:
            return None, "parse_cells consumes %d bytes in one loop step" % len(keys)
        b = mm.inputs[keys[0]]
        stores = [x for x in mm.out if isinstance(x, tuple) and x[0] == "store"]
        if out[0] == "panic":
            return None, "parse_cells can panic (%s) at file %d, rank %d on byte %r" % (out[1], file, rank, b)
        if b is None:
            acc = (file == 8 and rank == 7)
            if out[0] != "ret":
                return None, "parse_cells does not return at the end of the text"
            ok = isinstance(out[1], tuple) and out[1][0] == "agg" and out[1][1] == "Ok"
            if ok != acc:
                return None, "at the end of the text after %d ranks and %d squares parse_cells %s" % (rank, file, "accepts" if ok else "rejects")
            return ref, None
        want = ref_read_byte(file, rank, b)
        if want[0] == "err":
            if out[0] != "ret" or not (isinstance(out[1], tuple) and out[1][0] == "agg" and out[1][1] == "Err"):
                return None, "byte %r at file %d of rank index %d must be refused, parse_cells goes on" % (chr(b), file, rank)
            if stores:
                return None, "byte %r is refused after a store" % chr(b)
            return ref, None
        if out[0] != "at":
            return None, "byte %r at file %d of rank index %d must be accepted, parse_cells returns %s" % (chr(b), file, rank, show_val(out[1]))
        exp = [("store",) + want[3]] if want[3] else []
        if stores != exp:
            return None, "byte %r at file %d of rank index %d: parse_cells stores %s, the reader must store %s" % (
                chr(b), file, rank, [s[1:] for s in stores], [s[1:] for s in exp])
        return (want[1], want[2]), None

    def final(ref, mm, out):
        return None

    n_st, n_tr, err = explore(m, (0, 0), step, final)
    r.check(err is None, "parse_cells", err or "", site=ctx.site(fn),
            what="parse_cells: %d states x inputs = %d transitions agree with the reference reader" % (n_st, n_tr))
    if err is None:
        r.floor(n_tr, 5000, "transitions of the parse_cells model")
    # the array the stores go to starts as 64 empty cells and is the one returned
    from .fx import walk_tree
    init_ok, ret_ok, arr = False, False, None
    for n, _c, _i in walk_tree(tree):
        if n[0] == "store" and n[1][0] in ("index", "tbl") and n[1][1][0] == "local":
            arr = n[1][1][2]
    for n, _c, _i in walk_tree(tree):
        if n[0] == "loophead" and arr in n[2]:
            u = unstamp(n[2][arr][0])
            if u[0] == "repeat" and u[1][0] == "const" and u[1][1] == 0 and u[2] == 64:
                init_ok = True
            if u[0] == "agg" and len(u[3]) == 64 and all(x[0] == "const" and x[1] == 0 for x in u[3]):
                init_ok = True
            break
    rets = [n for n, _c, inl in walk_tree(tree) if n[0] == "ret" and not inl and n[1][0] == "agg" and n[1][2] == "Ok"]
    ret_ok = bool(rets) and all(x[1][3][0][0] == "var" and x[1][3][0][1] == arr for x in rets)
    r.check(arr is not None and init_ok, "initial-array", "the array parse_cells fills does not start as 64 x Cell::EMPTY (squares skipped by a digit keep their initial value)",
            site=ctx.site(fn), what="the filled array starts as [Cell::EMPTY; 64]")
    r.check(ret_ok, "returned-array", "parse_cells does not return the array it fills", site=ctx.site(fn), what="Ok(the filled array) on every accepting return")


def show_val(v):
    if isinstance(v, tuple) and v and v[0] == "agg":
        return v[1]
    return repr(v)[:40]


# ------------------------------------------------------------------ the other five fields, end to end

CELLS_TOKEN = "\x01CELLS\x01"


def fields_rule(ctx, facts, rid, thorough=False):
    r = ctx.rule(rid, "for every side to move, every castling-rights value and every en-passant mark on the rank appropriate to that side (and "
                      "none): Display for RawBoard writes `<placement> <w|b> <KQkq subset|-> <square|-> <halfmove> <fullmove>` with the letters "
                      "the rules give them, and FromStr, fed that text, rebuilds the same side, rights, mark and counters (placement by F3/F4)")
    from .machine import _last
    disp = facts.fns.get("<owlchess::board::RawBoard as core::fmt::Display>::fmt")
    frm = facts.fns.get("<owlchess::board::RawBoard as core::str::traits::FromStr>::from_str")
    has = facts.fns.get("owlchess_base::types::CastlingRights::has")
    for nm, fn in (("<RawBoard as Display>::fmt", disp), ("<RawBoard as FromStr>::from_str", frm), ("CastlingRights::has", has)):
        if fn is None:
            r.anchor_missing(nm)
    if disp is None or frm is None or has is None:
        return
    adt = facts.adts.get("owlchess::board::RawBoard")
    names = [x.get("name") for x in adt["variants"][0]["fields"]] if adt else []
    want_names = ["cells", "side", "castling", "ep_source", "move_counter", "move_number"]
    if sorted(names) != sorted(want_names):
        r.fail("fields", "RawBoard has fields %s; this rule knows %s" % (names, want_names))
        return
    tw = FxBuilder(facts, ai_mode=True, max_depth=12, max_blocks=400, stop={"owlchess::board::format_cells"}).tree(disp)
    tr = FxBuilder(facts, ai_mode=True, max_depth=12, max_blocks=400, stop={"owlchess::board::parse_cells"}).tree(frm)
    # the meaning of a rights value: has(value, colour, side)
    letters = {}
    try:
        for cr in range(16):
            txt = ""
            for c, s, ch in ((0, 1, "K"), (0, 0, "Q"), (1, 1, "k"), (1, 0, "q")):
                v, _o = run_function(facts, has, {1: cr, 2: c, 3: s}, deref_self=True)
                if v:
                    txt += ch
            letters[cr] = txt or "-"
    except (Stuck, Unsupported, Panic) as ex:
        r.fail("has", "CastlingRights::has not evaluable: %s" % str(ex)[:120], site=ctx.site(has))
        return
    if len(set(letters.values())) != 16:
        r.fail("has", "CastlingRights::has does not distinguish the 16 values: %s" % sorted(letters.values()), site=ctx.site(has))
        return
    bad = None
    n = 0
    combos = []
    for side in (0, 1):
        src_rank = 3 if side == 0 else 4          # rank index of a pawn that has just made a double step, seen by the side to move
        for cr in range(16):
            for ep in [None] + [8 * src_rank + f for f in range(8)]:
                combos.append((side, cr, ep, 7, 42))
    # the two counters: extreme and boundary values on a few field combinations
    pairs = [(0, 0), (0, 1), (1, 0), (99, 1), (100, 65535), (65535, 65535), (150, 2)]
    if thorough:
        vals = list(range(0, 12)) + [98, 99, 100, 101, 149, 150, 151, 255, 256, 999, 1000, 9999, 10000, 65534, 65535]
        pairs = [(a, b) for a in vals for b in vals]
    for mc, mn in pairs:
        for side, cr, ep in ((0, 0, None), (1, 15, 34), (0, 9, 24)):
            combos.append((side, cr, ep, mc, mn))
    if True:
        if True:
            for side, cr, ep, mc, mn in combos:
                dst_digit = "6" if side == 0 else "3"
                fields = {"side": side, "castling": cr, "ep_source": ("agg", "Some", (ep,)) if ep is not None else ("agg", "None", ()),
                          "move_counter": mc, "move_number": mn}

                def mem(place, m, fields=fields):
                    p = place
                    nms = []
                    while p[0] == "field":
                        nms.append(p[2])
                        p = p[1]
                    if p[0] == "deref" and p[1][0] == "param":
                        for nm in nms:
                            if nm in fields:
                                return fields[nm]
                    raise Unsupported("memory read " + show(place)[:60])

                def on_call(name, args, m):
                    if _last(name) == "format_cells":
                        m.out.append(CELLS_TOKEN)
                        return True
                    return False

                def ora_w(name, args, m):
                    if _last(name) == "format_cells":
                        return ("agg", "Ok", (0,))
                    return None

                def ora_r(name, args, m):
                    l = _last(name)
                    if l == "parse_cells":
                        s = m.ev(args[0])
                        if s == ("str", CELLS_TOKEN):
                            return ("agg", "Ok", (("sym", "CELLS"),))
                        raise Stuck("parse_cells is handed %r, not the first field" % (s,))
                    if l == "from_str" and "u16" in name:
                        s = m.ev(args[0])
                        # std's contract for u16::from_str: optional '+', decimal digits, value <= 65535
                        t = s[1][1:] if s[0] == "str" and s[1][:1] == "+" else (s[1] if s[0] == "str" else None)
                        if t is not None and t.isdigit() and t.isascii() and int(t) <= 65535:
                            return ("agg", "Ok", (int(t),))
                        if t is not None:
                            return ("agg", "Err", (("sym", "ParseIntError"),))
                        raise Stuck("a counter is parsed from %r" % (s,))
                    return None
                what = "side %s, rights %s, mark %s, counters %d/%d" % ("wb"[side], letters[cr], ep, mc, mn)
                try:
                    mw = Machine(facts, tw, mem=mem, oracle=ora_w, on_call=on_call)
                    res = mw.start()
                    steps = 0
                    text = "".join(mw.out)
                    while res[0] == "at" and steps < 200:
                        res = mw.resume(res[1])
                        text += "".join(mw.out)
                        mw.out = []
                        steps += 1
                    if res[0] != "ret" or not (isinstance(res[1], tuple) and res[1][1] == "Ok"):
                        bad = "%s: Display does not return Ok (%s)" % (what, res[0])
                        break
                    want = " ".join([CELLS_TOKEN, "wb"[side], letters[cr], ("abcdefgh"[ep & 7] + dst_digit) if ep is not None else "-",
                                     str(mc), str(mn)])
                    if text != want:
                        bad = "%s: Display writes %r, the FEN record is %r" % (what, _vis(text), _vis(want))
                        break
                    mr = Machine(facts, tr, oracle=ora_r)
                    mr.syms[1] = ("str", text)
                    res = mr.start()
                    steps = 0
                    while res[0] == "at" and steps < 500:
                        res = mr.resume(res[1])
                        steps += 1
                    if res[0] != "ret":
                        bad = "%s: FromStr on %r ends with %s" % (what, _vis(text), res[0])
                        break
                    v = res[1]
                    if not (isinstance(v, tuple) and v[0] == "agg" and v[1] == "Ok"):
                        bad = "%s: FromStr refuses %r (%s)" % (what, _vis(text), _vis(repr(v))[:80])
                        break
                    got = dict(zip(names, v[2][0][2]))
                    exp = dict(fields, cells=("sym", "CELLS"))
                    diff = [k for k in want_names if got.get(k) != exp[k]]
                    if diff:
                        bad = "%s: text %r is read back with %s" % (what, _vis(text), ", ".join("%s = %r" % (k, got.get(k)) for k in diff))
                        break
                    n += 1
                except (Stuck, Unsupported, Panic) as ex:
                    bad = "%s: model not evaluable: %s" % (what, str(ex)[:160])
                    break
    r.check(bad is None, "fields", bad or "", site=ctx.site(disp), what="%d (side, rights, mark, counters) combinations written and read back" % n)
    r.floor(n if bad is None else 288, 288, "field combinations")


def _vis(s):
    return s.replace(CELLS_TOKEN, "<placement>").replace("\x00mc\x00", "<halfmove>").replace("\x00mn\x00", "<fullmove>")


def wrapper_rule(ctx, facts, rid):
    r = ctx.rule(rid, "Board's FEN text is its raw board's: Display for Board writes exactly what Display for RawBoard writes for `self.r`; "
                      "Board::from_str hands the whole text to RawBoard::from_str and returns the validated result (validation: C11)")
    from .machine import _last
    disp = facts.fns.get("<owlchess::board::Board as core::fmt::Display>::fmt")
    frm = facts.fns.get("<owlchess::board::Board as core::str::traits::FromStr>::from_str")
    RD = "<owlchess::board::RawBoard as core::fmt::Display>::fmt"
    RF = "<owlchess::board::RawBoard as core::str::traits::FromStr>::from_str"
    keep = lambda fn: fn.id not in (RD, RF) and fn.krate in ("owlchess", "owlchess_base") and "TryFrom" not in fn.id and len(fn.body.blocks) <= 400
    if disp is None:
        r.anchor_missing("<Board as Display>::fmt")
    else:
        tree = FxBuilder(facts, ai_mode=True, max_depth=12, max_blocks=400, inline=keep).tree(disp)

        def mem(place, m):
            p = place
            if p[0] == "field" and p[2] == "r" and p[1][0] == "deref" and p[1][1][0] == "param":
                return ("sym", "RAW")
            raise Unsupported("memory read " + show(place)[:60])

        def on_call(name, args, m):
            if name == RD:
                if m.ev(args[0]) != ("sym", "RAW"):
                    raise Stuck("RawBoard's Display is applied to something other than self.r")
                m.out.append("\x02RAW\x02")
                return True
            return False

        def ora(name, args, m):
            if name == RD:
                return ("agg", "Ok", (0,))
            return None
        bad = None
        try:
            mw = Machine(facts, tree, mem=mem, oracle=ora, on_call=on_call)
            res = mw.start()
            if res[0] != "ret" or "".join(mw.out) != "\x02RAW\x02":
                bad = "it writes %r" % "".join(mw.out).replace("\x02RAW\x02", "<raw board>")
        except (Stuck, Unsupported, Panic) as ex:
            bad = "model not evaluable: %s" % str(ex)[:120]
        r.check(bad is None, "display", "Display for Board does not write exactly RawBoard's Display of self.r: %s" % bad,
                site=ctx.site(disp), what="Display for Board = Display for self.r")
    if frm is None:
        r.anchor_missing("<Board as FromStr>::from_str")
    else:
        tree = FxBuilder(facts, ai_mode=True, max_depth=12, max_blocks=400, inline=keep).tree(frm)

        def ora(name, args, m):
            if name == RF:
                if m.ev(args[0]) != ("sym", "S"):
                    raise Stuck("RawBoard::from_str is handed something other than the whole text")
                return ("agg", "Ok", (("sym", "RAWB"),))
            l = _last(name)
            if l in ("try_into", "try_from") and len(args) == 1:
                return ("agg", "Ok", (("valid", m.ev(args[0])),))
            return None
        bad = None
        try:
            mr = Machine(facts, tree, oracle=ora)
            mr.syms[1] = ("sym", "S")
            res = mr.start()
            if res[0] != "ret" or res[1] != ("agg", "Ok", (("valid", ("sym", "RAWB")),)):
                bad = "it returns %r" % (res[1],)
        except (Stuck, Unsupported, Panic) as ex:
            bad = "model not evaluable: %s" % str(ex)[:120]
        r.check(bad is None, "from_str", "Board::from_str is not `validate(RawBoard::from_str(s)?)`: %s" % bad,
                site=ctx.site(frm), what="Board::from_str = RawBoard::from_str(s)?.try_into()")
