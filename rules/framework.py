"""Check framework: rule bookkeeping, violations, known findings, evidence files."""
import json
import os
import sys
import time
import traceback

from . import facts as factsmod
from .mir import Facts

VERIF = factsmod.VERIF
EVIDENCE = os.path.join(VERIF, "evidence")
VIOL_DIR = os.path.join(EVIDENCE, "violations")
KNOWN = os.path.join(VERIF, "known_findings.json")

TRUSTED_BASE = [
    "rustc 1.97.0-nightly front end, MIR construction and const evaluator (analysis toolchain)",
    "owlscan driver: serialisation of instantiated MIR, evaluated constants and ADT facts",
    "python rule engine /verif/rules (CFG, dominators, expression reconstruction, abstract interpreter)",
    "reviewed tables under /verif/tables (std models, reviewed discharges, anchors)",
]


class Violation:
    def __init__(self, rule, key, msg, site=None, detail=None):
        self.rule = rule
        self.key = key
        self.msg = msg
        self.site = site
        self.detail = detail or {}


class Rule:
    def __init__(self, ctx, rid, desc):
        self.ctx = ctx
        self.id = rid
        self.desc = desc
        self.examined = 0
        self.passed = 0
        self.auto = 0
        self.reviewed = 0
        self.samples = []
        self.violations = []
        self.notes = []

    def ok(self, what, detail=None, reviewed=False):
        """Record one rule instance that was examined and holds."""
        self.examined += 1
        self.passed += 1
        if reviewed:
            self.reviewed += 1
        else:
            self.auto += 1
        if len(self.samples) < 6:
            s = {"instance": what}
            if detail is not None:
                s["detail"] = detail
            self.samples.append(s)

    def fail(self, key, msg, site=None, detail=None):
        """Record one rule instance that was examined and is violated. `key` has no line numbers."""
        self.examined += 1
        self.violations.append(Violation(self.id, key, msg, site, detail))

    def check(self, cond, key, msg_fail, site=None, detail=None, what=None):
        if cond:
            self.ok(what or key, detail)
        else:
            self.fail(key, msg_fail, site, detail)
        return cond

    def anchor_missing(self, what):
        self.fail("ANCHOR-MISSING " + what, "ANCHOR-MISSING %s: the item this rule is anchored in was not found "
                  "in the analysed program (renamed or removed) - the rule can certify nothing" % what)

    def floor(self, n, minimum, what):
        if n < minimum:
            self.fail("FLOOR " + what, "only %d instances of '%s' found, expected at least %d "
                      "(a rule matching fewer sites than counted by hand passes vacuously)" % (n, what, minimum))
            return False
        return True

    def note(self, text):
        self.notes.append(text)


class Ctx:
    def __init__(self, pid, tier):
        self.pid = pid
        self.tier = tier
        self.repo = factsmod.repo_path()
        self.rules = []
        self.assumptions = []
        self.not_decided = []
        self.decided = []
        self.extra = {}
        self._facts = {}
        self.t0 = time.time()
        self.configs_used = []

    def facts(self, cfg="dev"):
        if cfg not in self._facts:
            path = factsmod.get_facts(cfg, self.repo)
            self._facts[cfg] = Facts(path)
            self.configs_used.append(cfg)
        return self._facts[cfg]

    def rule(self, rid, desc):
        r = Rule(self, rid, desc)
        self.rules.append(r)
        return r

    def assume(self, text):
        if text not in self.assumptions:
            self.assumptions.append(text)

    def site(self, fn, bi=None, si=None):
        """file:line string for reports (never used in keys)."""
        if fn is None:
            return None
        rel = os.path.relpath(fn.file, self.repo) if fn.file.startswith("/") else fn.file
        if bi is None:
            return "%s:%d (%s)" % (rel, fn.line, fn.id)
        b = fn.body
        if si is None or si >= len(b.blocks[bi]["stmts"]):
            f, l = b.line_of_block(bi)
        else:
            f, l = b.line_of_stmt(bi, si)
        rel = os.path.relpath(f, self.repo) if f.startswith("/") else f
        return "%s:%d (%s bb%d)" % (rel, l, fn.id, bi)


def load_known():
    if not os.path.exists(KNOWN):
        return []
    with open(KNOWN) as f:
        return json.load(f).get("findings", [])


def run_check(pid, level, module_run, argv):
    """Common driver for bin/check: runs the rule module, writes evidence, prints verdict."""
    tier = os.environ.get("VERIF_TIER", "quick")
    if "--tier" in argv:
        tier = argv[argv.index("--tier") + 1]
    seed = int(os.environ.get("VERIF_SEED", "0") or 0)
    ctx = Ctx(pid, tier)
    global VIOL_DIR
    if os.path.realpath(ctx.repo) != "/repo":
        import hashlib
        VIOL_DIR = os.path.join(factsmod.CACHE, "scratch-evidence", hashlib.sha1(ctx.repo.encode()).hexdigest()[:10], "violations")
    os.makedirs(VIOL_DIR, exist_ok=True)
    # remove stale replay files of this property
    for f in os.listdir(VIOL_DIR):
        if f.startswith(pid + "-"):
            try:
                os.remove(os.path.join(VIOL_DIR, f))
            except OSError:
                pass
    # watchdog: an analysis that does not terminate in reasonable time certifies nothing (fail closed through the engine rule)
    import signal
    budget = int(os.environ.get("VERIF_BUDGET_S", "1500" if tier == "quick" else "5400"))

    def _alarm(_sig, _frm):
        raise TimeoutError("analysis did not finish within %d s" % budget)
    try:
        signal.signal(signal.SIGALRM, _alarm)
        signal.alarm(budget)
    except (ValueError, AttributeError):
        pass
    try:
        module_run(ctx)
        signal.alarm(0)
    except factsmod.AnalysisError as e:
        signal.alarm(0)
        print("ANALYSIS-ERROR property=%s: %s" % (pid, e))
        return 2
    except Exception as e:
        signal.alarm(0)
        # Fail closed: a construct the rule engine cannot read means the rules certify nothing about this tree. It is reported as a
        # violation of rule "engine" (with the exception as its text), not silently as an error of the checker.
        traceback.print_exc()
        tb = traceback.extract_tb(sys.exc_info()[2])
        where = "%s:%s" % (os.path.basename(tb[-1].filename), tb[-1].name) if tb else "?"
        r = ctx.rule("engine", "every construct the rules read is one they understand (fail closed)")
        r.fail("unreadable/" + where, "the analysed tree contains a construct the rule engine cannot read (%s: %s in %s): nothing is certified"
               % (type(e).__name__, str(e)[:160], where))

    known = [k for k in load_known() if k.get("property") == pid]
    known_keys = {k["key"]: k for k in known if k.get("status") == "known"}
    all_viol = [v for r in ctx.rules for v in r.violations]
    new_viol = []
    for v in all_viol:
        full = "%s/%s" % (v.rule, v.key)
        if full in known_keys:
            print("KNOWN-FINDING: property=%s %s: %s" % (pid, full, known_keys[full].get("what", v.msg)))
        else:
            new_viol.append(v)

    examined = sum(r.examined for r in ctx.rules)
    passed = sum(r.passed for r in ctx.rules)
    auto = sum(r.auto for r in ctx.rules)
    reviewed = sum(r.reviewed for r in ctx.rules)
    samples = []
    for r in ctx.rules:
        for s in r.samples[:3]:
            samples.append({"rule": r.id, **s})
    fx = ctx._facts.get("dev") or (list(ctx._facts.values())[0] if ctx._facts else None)
    coverage = {
        "explanation": "Static analysis of /repo's current source (type-checked, monomorphised MIR and "
                       "compile-time-evaluated constants; nothing is executed). DECIDED: "
                       + " | ".join(ctx.decided) + " NOT DECIDED: " + " | ".join(ctx.not_decided),
        "evaluations": examined,
        "distinct_nontrivial": len({(r.id, s["instance"]) for r in ctx.rules for s in r.samples}) if examined else 0,
        "rule": "one evaluation = one rule instance (call site, path, table entry, obligation) examined; "
                "distinct_nontrivial counts the distinct sampled instances written out under samples/rules",
        "samples": samples or [{"note": "no instances"}],
        "obligations": examined,
        "discharged": passed,
        "discharged_auto": auto,
        "discharged_reviewed": reviewed,
        "checker_cmd": "bin/check %s --tier %s" % (pid, tier),
        "trusted_base": TRUSTED_BASE,
        "rules": [
            {"id": r.id, "desc": r.desc, "examined": r.examined, "passed": r.passed,
             "violations": len(r.violations), "notes": r.notes, "samples": r.samples[:4]}
            for r in ctx.rules
        ],
        "configs": ctx.configs_used,
        "functions_analysed": len(fx.fns) if fx else 0,
        "fact_file_meta": fx.meta if fx else {},
        "exhaustive": bool(ctx.extra.get("exhaustive", False)),
    }
    # distinct_nontrivial must be a measured number >= 2 for the fallback; count distinct instance names
    names = set()
    for r in ctx.rules:
        for s in r.samples:
            names.add((r.id, json.dumps(s["instance"], sort_keys=True)))
    coverage["distinct_nontrivial"] = max(len(names), 0)
    coverage.update({k: v for k, v in ctx.extra.items() if k != "exhaustive"})
    ev = {
        "property_id": pid,
        "tier": tier,
        "seed": seed,
        "level": level,
        "coverage": coverage,
        "assumptions": ctx.assumptions,
        "wall_s": round(time.time() - ctx.t0, 2),
        "violations": len(new_viol),
    }
    # evidence of runs against a scratch tree (OWLCHESS_REPO) must not overwrite the evidence about /repo
    evdir = EVIDENCE if os.path.realpath(ctx.repo) == "/repo" else os.path.join(factsmod.CACHE, "scratch-evidence")
    os.makedirs(evdir, exist_ok=True)
    with open(os.path.join(evdir, pid + ".json"), "w") as f:
        json.dump(ev, f, indent=1, sort_keys=False)
        f.write("\n")

    for r in ctx.rules:
        print("  rule %-4s examined=%-5d passed=%-5d violations=%d  %s" % (r.id, r.examined, r.passed,
                                                                       len(r.violations), r.desc))
    if new_viol:
        for i, v in enumerate(new_viol):
            path = os.path.join(VIOL_DIR, "%s-%d.json" % (pid, i))
            with open(path, "w") as f:
                json.dump({"property": pid, "rule": v.rule, "key": "%s/%s" % (v.rule, v.key), "message": v.msg,
                           "site": v.site, "detail": v.detail, "repo": ctx.repo}, f, indent=1, default=str)
                f.write("\n")
            print("  %s: %s%s" % (v.rule, v.msg, " @ " + v.site if v.site else ""))
            print("VIOLATION property=%s replay=%s" % (pid, path))
        return 1
    print("OK property=%s tier=%s rules=%d instances=%d wall=%.1fs" % (pid, tier, len(ctx.rules), examined,
                                                                     time.time() - ctx.t0))
    return 0
