"""C03 - applying a move produces the position the rules prescribe."""
from . import makeunmake
from .common import sim_rules


def run(ctx):
    facts = ctx.facts("dev")
    ctx.decided += [
        "A0 for both colours x 10 move kinds x every case the rules distinguish (quiet/capture, pawn/piece, en-passant mark "
        "set or not) the effect tree of do_make_move, interpreted on an abstract board, ends with exactly the squares, side, "
        "en-passant mark, castling-rights update and counters the rules prescribe, and touches no other square",
        "A1 both counters are incremented with saturating arithmetic only (no overflow-capable increment reaches them)",
        "A2 castling rights are re-examined for source and destination in the simple (non-pawn) and promotion arms; "
        "update_castling covers all four (colour, side) pairs with castling::srcs and clears exactly the matching right",
        "A3 castling constants (srcs/pass/ALL_SRCS/offset and the six mask literals) decode to king/rook home squares and paths",
    ]
    ctx.not_decided += [
        "the statement for positions outside the abstract cases (none are known: the cases partition semilegal moves by "
        "kind, capture, pawn-ness and en-passant mark); that semilegal moves satisfy the pre-state assumptions of each "
        "case (source holds mv.src_cell etc.) is the reviewed semilegality invariant decided under C06/C02",
    ]
    ctx.assume("pre-state of each case: a semilegal move's source square holds mv.src_cell, castling squares hold king/rook/empty, "
               "the en-passant victim stands behind the destination (established by semilegality, C06)")
    sim_rules(ctx, facts, {
        "A0": ("make: squares, side, en-passant mark, clock, move number, castling rights (abstract board vs rules)",
               ("cells", "fields", "unmodelled"), "make/"),
        "A1": ("counters never wrap or panic", ("counter",), "make/"),
        "A2": ("castling rights re-examined for source and destination", ("castling",), "make/"),
    })
    from . import castlingrules
    castlingrules.update_castling_rule(ctx, facts, "A2u")
    castlingrules.constants_rule(ctx, facts, "A3")
    from .shared import hash_component
    hash_component(ctx, facts, "A5", "the position a move produces includes the stored hash and the occupancy sets (`color()`, `piece()`, `all`), "
                   "which the generators and the attack queries read instead of the squares")
