"""C06 - semilegal generation, semilegal validation and well-formedness agree."""
from . import genrules, witness, emitrules


def run(ctx):
    facts = ctx.facts("dev")
    ctx.decided += [
        'G7 the semilegal generator, read as set algebra over the iterated bitboards (rules/emitrules.py), emits the move S->D of each (kind, piece) exactly when the rules allow it: all 64x64 square pairs x abstract boards (destination, blockers, en-passant mark), both colours; sliding lookups taken as what C15/T2-T3 prove them to be; castling is rule G4/N5',
        "G5w E4 witnesses for the privacy of Move's fields and the unsafety of Move::new_unchecked",
        "G1/G2 each of the five generator families (both colours, every sink) reaches exactly the emitters its documented move class "
        "prescribes; the classes partition: all = capture + simple, simple = no_promote + promote; allowed_mask table",
        "G3 every add_move site passes a constant (kind, piece) accepted by matches_piece (tabulated 10x6); new_unchecked only from add_move",
        "G4 castling: generator and validator (fed the literal castling move) require exactly: the right, empty king/rook path, king "
        "square and transit square not attacked by the opponent - for both colours and sides",
        "G5 Move constructible safely only through new (gated), from_castling (well-formed, 4 cases), NULL; fields private",
        "G6 the validator do_is_move_semilegal, evaluated on abstract boards for every well-formed (kind, cell, source, destination) "
        "(all sources), accepts exactly under the chess conditions: "
        "mover's man on the source, destination not own, pawn pushes need empty squares, captures an occupied one, en passant the mark "
        "beside the pawn, sliders an empty path, castling the right + empty path + unattacked king squares",
        "WF Move::is_well_formed equals the geometric possibility predicate on all 10 x 13 x 64 x 64 tuples (exhaustive)",
    ]
    ctx.not_decided += ["generator <=> validator equivalence on all positions for non-castling moves, and that the generated set is exactly "
                        "the pseudo-legal moves of chess: the bitboard arithmetic of each emitter is not evaluated (see C19 for its bounds)"]
    ctx.extra["exhaustive"] = False
    genrules.partition_rule(ctx, facts, "G1")
    genrules.add_move_rule(ctx, facts, "G3")
    genrules.castling_rule(ctx, facts, "G4")
    genrules.constructors_rule(ctx, facts, "G5")
    genrules.wellformed_rule(ctx, facts, "WF")
    genrules.semilegal_rule(ctx, facts, "G6", thorough=True)
    witness.cf_rule(ctx, 'G5w', ('cf/C06/', 'cf/C19/unsafe-new'),
                    "a Move's fields cannot be changed from outside, and the unchecked constructor needs `unsafe` (compile-fail witnesses)")
    emitrules.emitter_rule(ctx, facts, 'G7')
    from . import shared
    shared.attack_component(ctx, facts, "G8", "castling is semilegal only if the king's square and the square it crosses are not attacked: generator and validator both ask do_is_cell_attacked")
