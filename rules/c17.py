"""C17 - walking and printing a chain reproduce the game."""
from . import shared
from . import chainrules, witness


def run(ctx):
    facts = ctx.facts("dev")
    ctx.decided += [
        "W5 StyledList::fmt, path by path: every move printed is mv.styled(board, self.style) of the pair the walker returned, in walker "
        "order; the first move carries 'N. ' (White) or 'N... ' (Black), later moves ' N.' exactly when White is to move on the walker's "
        "board, with N = that board's number - the first board's number + the start number; nothing else is printed except the final "
        "status token from the stored outcome (format templates decoded from the compiled constants)",
        'W3 the borrow checker rejects mutating a chain while a walker over it is alive (E4 witness), so a walker never observes a changed move list',
        "W1 Walker::set_board_pos has a backward and a forward *loop* guarded by board_pos > / < target (so it exits only with board_pos == "
        "target); backward = decrement then unmake(stack[board_pos]), forward = make(stack[board_pos]) then increment",
        "W2 next/prev pass set_board_pos exactly the index of the move they return, after updating pos, and return the walker's own board; "
        "None paths touch nothing; start/end only set pos; walk() clones the board and borrows the stack immutably",
        "W3 the chain cannot change under a walker: Walker holds &[..] and an owned Board (types; E0502 witness in the thorough tier)",
        "W4 GameStatus::from(Option<Outcome>) tabulated over all 23 inputs; UCI list separator is one space, split by ASCII whitespace; "
        "from_uci_list = new + push_uci_list",
    ]
    ctx.not_decided += ["the positions shown for arbitrary step sequences follow from W1/W2 with C03/C04 and are not evaluated; styled text "
                        "(move numbers, notation) is not decided"]
    chainrules.walker_sync_rule(ctx, facts, "W1")
    chainrules.walker_step_rule(ctx, facts, "W2")
    chainrules.status_rule(ctx, facts, "W4")
    witness.cf_rule(ctx, 'W3', ('cf/C17/',),
                    'a chain cannot be mutated while a Walker borrows it (compile-fail witness E0502 with compiling twin)')
    chainrules.styled_list_rule(ctx, facts, "W5")
    shared.undo_component(ctx, facts, "W6", "stepping backward unmakes moves on the walker's board")
    shared.uci_component(ctx, facts, "W7", "the chain's UCI text is replayed through make::Uci: every printed move must be read back as itself on its position", ctx.tier == "thorough")
