"""C17 - walking and printing a chain reproduce the game."""
from . import chainrules, witness


def run(ctx):
    facts = ctx.facts("dev")
    ctx.decided += [
        'W3 the borrow checker rejects mutating a chain while a walker over it is alive (E4 witness), so a walker never observes a changed move list',
        "W1 Walker::set_board_pos has a backward and a forward *loop* guarded by board_pos > / < target (so it exits only with board_pos == "
        "target); backward = decrement then unmake(stack[board_pos]), forward = make(stack[board_pos]) then increment",
        "W2 next/prev pass set_board_pos exactly the index of the move they return, after updating pos, and return the walker's own board; "
        "None paths touch nothing; start/end only set pos; walk() clones the board and borrows the stack immutably",
        "W3 the chain cannot change under a walker: Walker holds &[..] and an owned Board (types; E0502 witness in the thorough tier)",
        "W4 GameStatus::from(Option<Outcome>) tabulated over all 23 inputs; UCI list separator is one space, split by ASCII whitespace; "
        "from_uci_list = new + push_uci_list",
    ]
    ctx.not_decided += ["the positions shown for arbitrary step sequences follow from W1/W2 with C03/C04 and are not evaluated; styled text "
                        "(move numbers, notation) is not decided"]
    chainrules.walker_sync_rule(ctx, facts, "W1")
    chainrules.walker_step_rule(ctx, facts, "W2")
    chainrules.status_rule(ctx, facts, "W4")
    witness.cf_rule(ctx, 'W3', ('cf/C17/',),
                    'a chain cannot be mutated while a Walker borrows it (compile-fail witness E0502 with compiling twin)')
