"""C10 - UCI move text round-trips and is accepted exactly when such a move exists."""
from . import ucirules, apirules, genrules, attackrules, textrules


def run(ctx):
    facts = ctx.facts("dev")
    thorough = ctx.tier == "thorough"
    ctx.decided += [
        "X5/X6 the two gates every UCI reader relies on are exact: Move::new's well-formedness test (all 532,480 tuples, = C06/WF) and "
        "the semilegality validator on abstract boards (= C06/G6); so a string without a promotion letter cannot name a pawn move to the last rank",
        "X1 MoveKind/PromotePiece/Piece conversions tabulated and mutually inverse; uci::Move::from(Move) per kind; writer and reader use "
        "the letters n/b/r/q; null is written '0000'",
        "X2 from_uci_semilegal/from_uci_legal return Ok only for the conversion of the parsed text after semi_validate/validate on that board",
        "X3 MoveKind::Null is never semilegal (all paths, both colours); every safe make path passes semi_validate (C02/M1)",
        "X4 kind inference of uci::Move::into_move, folded per promotion value and evaluated over source cell x 64x64 squares x destination "
        "empty/occupied, equals the UCI semantics (double step, en passant = diagonal to an empty square, castling, promotion, simple); "
        "the move handed to Move::new carries the board's source cell and the text's squares",
    ]
    ctx.not_decided += ["'succeeds exactly when such a move exists' beyond the gates: needs the exactness of semilegal validation (C06/C01); "
                        "the text round trip is implied by X1+X4 for semilegal moves but not evaluated end to end"]
    ucirules.conversions_rule(ctx, facts, "X1")
    ucirules.readers_rule(ctx, facts, "X2")
    ucirules.null_rule(ctx, facts, "X3")
    ucirules.inference_rule(ctx, facts, "X4", thorough)
    genrules.wellformed_rule(ctx, facts, "X5")
    genrules.semilegal_rule(ctx, facts, "X6", thorough=True)
    ctx.decided += [
        "X7 the legal-checking reader's last gate: Checker::is_legal examines the king against the occupancy and the attacker set *after* the "
        "move - the moved man on its destination (also when it captures there), the captured man and the en-passant victim removed - and the "
        "pin shortcut is never taken by an en passant capture (= C01/N2, N4 re-run)",
    ]
    ctx.decided += [
        "X8 the text level: the model of Display for uci::Move, evaluated for every value (quick: every source x 10 destinations x 5 promotion "
        "values; thorough: all 20,481), writes exactly the coordinate notation, and the model of FromStr reads it back as the same value; "
        "26 near-miss texts (wrong length, bad file/rank/promotion letter, upper case, blanks, non-ASCII inside) are refused without a panic",
    ]
    textrules.uci_text_rule(ctx, facts, "X8", thorough)
    attackrules.prechecker_rule(ctx, facts, "X7p")
    attackrules.checker_rule(ctx, facts, "X7")
