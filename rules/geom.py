"""Reference chess-board geometry, written independently of chess/build.rs.

Square index = 8 * rank_index + file_index, rank_index 0 is rank 8 (top), file_index 0 is file a.
A bitboard is a Python int; bit i = square i.
"""
ROOK_DIRS = ((1, 0), (-1, 0), (0, 1), (0, -1))
BISHOP_DIRS = ((1, 1), (1, -1), (-1, 1), (-1, -1))
KING_DELTAS = tuple((df, dr) for df in (-1, 0, 1) for dr in (-1, 0, 1) if (df, dr) != (0, 0))
KNIGHT_DELTAS = ((1, 2), (2, 1), (-1, 2), (-2, 1), (1, -2), (2, -1), (-1, -2), (-2, -1))
FULL = (1 << 64) - 1


def fr(sq):
    return sq & 7, sq >> 3


def sq_of(f, r):
    return r * 8 + f


def on_board(f, r):
    return 0 <= f < 8 and 0 <= r < 8


def leaper(sq, deltas):
    f, r = fr(sq)
    bb = 0
    for df, dr in deltas:
        if on_board(f + df, r + dr):
            bb |= 1 << sq_of(f + df, r + dr)
    return bb


def white_pawn_attacks(sq):
    # a white pawn moves towards rank 8, i.e. towards smaller rank index
    return leaper(sq, ((-1, -1), (1, -1)))


def black_pawn_attacks(sq):
    return leaper(sq, ((-1, 1), (1, 1)))


def ray(sq, d):
    """Squares from sq (exclusive) to the board edge in direction d, in order."""
    f, r = fr(sq)
    out = []
    f += d[0]
    r += d[1]
    while on_board(f, r):
        out.append(sq_of(f, r))
        f += d[0]
        r += d[1]
    return out


def rays_mask(sq, dirs):
    bb = 0
    for d in dirs:
        for s in ray(sq, d):
            bb |= 1 << s
    return bb


def rays_mask_inner(sq, dirs):
    """Rays without the last square of each ray (the squares whose occupancy matters)."""
    bb = 0
    for d in dirs:
        for s in ray(sq, d)[:-1]:
            bb |= 1 << s
    return bb


def slide(sq, occ, dirs):
    """Squares reached by sliding from sq in each direction up to and including the first occupied one."""
    bb = 0
    for d in dirs:
        for s in ray(sq, d):
            bb |= 1 << s
            if (occ >> s) & 1:
                break
    return bb


def aligned(a, b, dirs):
    if a == b:
        return False
    for d in dirs:
        if b in ray(a, d):
            return True
    return False


def between(a, b, dirs):
    """Strictly between a and b if they are aligned along one of dirs, else None."""
    for d in dirs:
        r = ray(a, d)
        if b in r:
            bb = 0
            for s in r[:r.index(b)]:
                bb |= 1 << s
            return bb
    return None


def subsets(mask):
    """All subsets of a bit mask (Carry-Rippler)."""
    s = 0
    while True:
        yield s
        s = (s - mask) & mask
        if s == 0:
            break


def flip_rank(bb):
    out = 0
    for r in range(8):
        out |= ((bb >> (8 * r)) & 0xff) << (8 * (7 - r))
    return out


def flip_file(bb):
    out = 0
    for s in range(64):
        if (bb >> s) & 1:
            out |= 1 << (s ^ 7)
    return out


def bits(bb):
    return [i for i in range(64) if (bb >> i) & 1]


def name(sq):
    f, r = fr(sq)
    return "abcdefgh"[f] + str(8 - r)
