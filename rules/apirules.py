"""Path rules over effect trees for the API discipline (C02 M1-M4, C04 K4/K5, C13, C14, C10 X2, C01 N1)."""
from .fx import FxBuilder, tree_paths, resolve_phi, walk_tree, unstamp, path_value
from .expr import show

BASE = "owlchess::moves::base::"
MAKE_U = BASE + "make_move_unchecked"
UNMAKE_U = BASE + "unmake_move_unchecked"
KING_ATT = "owlchess::board::Board::is_opponent_king_attacked"
SEMI_VALIDATE = BASE + "Move::semi_validate"
VALIDATE = BASE + "Move::validate"
FROM_UCI_SEMI = BASE + "Move::from_uci_semilegal"
FROM_UCI_LEGAL = BASE + "Move::from_uci_legal"
FROM_SAN = BASE + "Move::from_san"
SAN_INTO = "owlchess::moves::san::Move::into_move"
SAN_DATA_INTO = "owlchess::moves::san::Data::into_move"
UCI_INTO = "owlchess::moves::uci::Move::into_move"

API_STOP = {
    BASE + "do_make_move", BASE + "do_unmake_move", MAKE_U, UNMAKE_U, KING_ATT, SEMI_VALIDATE, VALIDATE,
    FROM_UCI_SEMI, FROM_UCI_LEGAL, FROM_SAN, SAN_INTO, SAN_DATA_INTO, UCI_INTO,
    "owlchess::board::Board::calc_outcome", "owlchess::board::Board::has_legal_moves", "owlchess::board::Board::is_check",
    "owlchess::movegen::has_legal_moves", "owlchess::movegen::san_candidates", "owlchess::movegen::san_pawn_capture_candidates",
    BASE + "Move::is_semilegal", BASE + "Move::is_legal_unchecked", BASE + "Move::new", BASE + "Move::from_castling",
    BASE + "Move::is_well_formed",
}


def api_tree(facts, fn, extra_stop=()):
    fb = FxBuilder(facts, stop=API_STOP | set(extra_stop))
    return fb.tree(fn)


def try_test(e):
    """If e is discr(<.. as Try>::branch(X)) return X (value 0 = Continue/Ok/Some, 1 = Break/Err/None)."""
    u = e
    if u[0] == "discr" and u[1][0] == "call" and u[1][1].endswith("Try>::branch"):
        return u[1][2][0]
    return None


def payload(e):
    """Strip `(branch(X) as Continue).0`, `(X as Ok).0`, `(X as Some).0` wrappers: the success payload of X."""
    while True:
        if e[0] == "field" and e[2] in ("0", "#0") and e[1][0] == "downcast" and e[1][2] in ("Continue", "Ok", "Some"):
            e = e[1][1]
            if e[0] == "call" and e[1].endswith("Try>::branch"):
                e = e[2][0]
            return ("payload", e)
        if e[0] == "downcast" and e[2] in ("Continue", "Ok", "Some"):
            inner = e[1]
            if inner[0] == "call" and inner[1].endswith("Try>::branch"):
                inner = inner[2][0]
            return ("payload", inner)
        return e


def norm_val(e):
    """Normalise `&x` / `*x` noise and success payload wrappers for operand comparison."""
    e = unstamp(e)
    if e[0] == "ref":
        e = e[1]
    if e[0] == "deref":
        e = e[1]
    return _strip_payload(e)


def _strip_payload(e):
    if not isinstance(e, tuple) or not e:
        return e
    if e[0] == "downcast" and e[2] in ("Continue", "Ok", "Some"):
        inner = _strip_payload(e[1])
        if inner[0] == "call" and inner[1].endswith("Try>::branch"):
            inner = inner[2][0]
        return ("payload", inner)
    if e[0] == "field" and e[1][0] == "downcast" and e[1][2] in ("Continue", "Ok", "Some") and e[2] in ("0",):
        return _strip_payload(e[1])
    out = []
    for x in e:
        if isinstance(x, tuple):
            if x and isinstance(x[0], str):
                out.append(_strip_payload(x))
            else:
                out.append(tuple(_strip_payload(y) if isinstance(y, tuple) else y for y in x))
        else:
            out.append(x)
    return tuple(out)


class PathFacts:
    """What one path through a make-like function does to the board and what it has established."""

    def __init__(self, events, choices):
        self.muts = []         # ("make", board, mv, result_expr) / ("unmake", board, mv, undo)
        self.semilegal = []    # (mv, board)
        self.legal = []        # mv expressions certified legal on a board: (mv, board)
        self.kingsafe = []     # boards checked not to leave the king attacked, with position in muts
        self.ret = None
        self.end = None
        self.panic = None
        self.other_mut = []
        pending = {}           # test expressions -> meaning
        pv = lambda x: path_value(x, choices)
        for ev in events:
            k = ev[0]
            if k == "call":
                name, base, args = ev[1], ev[2], ev[3]
                if base == MAKE_U:
                    self.muts.append(("make", norm_val(pv(args[0])), norm_val(pv(args[1])), _strip_payload(unstamp(pv(ev[5]["ret"])))))
                elif base == UNMAKE_U:
                    self.muts.append(("unmake", norm_val(pv(args[0])), norm_val(pv(args[1])), _strip_payload(unstamp(pv(args[2])))))
                elif ev[5]["mutargs"] and base not in (KING_ATT,):
                    self.other_mut.append((name, [norm_val(args[i]) for i in ev[5]["mutargs"]]))
            elif k == "store":
                self.other_mut.append(("store", [unstamp(ev[1])]))
            elif k == "branch":
                d, lab = pv(ev[1]), ev[2]
                t = try_test(d)
                if t is not None:
                    ok = lab != "else" and 0 in lab
                    tt = unstamp(t)
                    if tt[0] == "call":
                        cb = tt[1]
                        a = [norm_val(x) for x in tt[2]]
                        if ok and cb == SEMI_VALIDATE:
                            self.semilegal.append((a[0], a[1]))
                        if ok and cb == VALIDATE:
                            self.legal.append((a[0], a[1]))
                            self.semilegal.append((a[0], a[1]))
                        if ok and cb == FROM_UCI_SEMI:
                            self.semilegal.append((("payload", _strip_payload(tt)), a[1]))
                        if ok and cb == FROM_UCI_LEGAL:
                            self.legal.append((("payload", _strip_payload(tt)), a[1]))
                        if ok and cb in (SAN_INTO, SAN_DATA_INTO, FROM_SAN):
                            self.legal.append((("payload", _strip_payload(tt)), a[1]))
                else:
                    u = unstamp(d)
                    if u[0] == "call" and u[1] == KING_ATT:
                        if lab != "else" and 0 in lab:
                            self.kingsafe.append((norm_val(u[2][0]), len(self.muts)))
            elif k == "ret":
                self.ret = path_value(ev[1], choices)
                self.end = "ret"
            elif k == "panic":
                self.end = "panic"
                self.panic = ev
            elif k in ("unreachable", "backedge"):
                self.end = k

    def result_variant(self):
        r = self.ret
        if r is None:
            return None
        r = unstamp(r)
        if r[0] == "agg" and r[1] == "core::result::Result":
            return r[2]
        return "?"


def is_legal_certified(pf, mv, board):
    return any(m == mv and b == board for m, b in pf.legal)


def is_semilegal_certified(pf, mv, board):
    return any(m == mv and b == board for m, b in pf.semilegal)


# contract of each Make implementation: what must have been established before the unchecked make is kept
MAKE_IMPLS = {
    "owlchess::moves::make::Unchecked": "unsafe-contract",
    "owlchess::moves::make::TryUnchecked": "unsafe-contract+kingsafe",
    "owlchess::moves::base::Move": "semilegal+kingsafe",
    "owlchess::moves::uci::Move": "semilegal+kingsafe",
    "owlchess::moves::make::Uci<&str>": "semilegal+kingsafe",
    "owlchess::moves::san::Move": "legal",
    "owlchess::moves::make::San<&str>": "legal",
}


def make_impl_rules(ctx, facts, rid_m1, rid_m4):
    r1 = ctx.rule(rid_m1, "every kept make_move_unchecked is on a certified move (semilegal+king test, or legal producer, or unsafe contract)")
    r4 = ctx.rule(rid_m4, "a refused move leaves the board untouched (rollback with the same move and undo record)")
    n_impl = 0
    for fn in facts.fns.values():
        if not (fn.id.startswith("<") and fn.id.endswith(" as owlchess::moves::make::Make>::make_raw")):
            continue
        ty = fn.id[1:-len(" as owlchess::moves::make::Make>::make_raw")]
        contract = MAKE_IMPLS.get(ty)
        n_impl += 1
        if contract is None:
            r1.fail("impl " + ty, "a Make implementation for %s is not in the reviewed contract table" % ty, site=ctx.site(fn))
            continue
        tree = api_tree(facts, fn)
        paths = tree_paths(tree)
        board = ("param", 2, fn.body.names.get(2, "_2"))
        for events, choices in paths:
            pf = PathFacts(events, choices)
            if pf.end == "panic":
                continue  # panic freedom is rule M5
            if pf.end != "ret":
                continue
            var = pf.result_variant()
            key = "%s/%s" % (ty, var)
            makes = [m for m in pf.muts if m[0] == "make"]
            unmakes = [m for m in pf.muts if m[0] == "unmake"]
            if pf.other_mut:
                r4.fail(key + "/other-mutation", "%s::make_raw mutates through %s on a path returning %s"
                        % (ty, pf.other_mut[0][0], var), site=ctx.site(fn))
                continue
            if var == "Err":
                if not makes and not unmakes:
                    r4.ok(key + " (no mutation before the error)")
                elif (len(makes) == 1 and len(unmakes) == 1 and pf.muts.index(makes[0]) < pf.muts.index(unmakes[0])
                      and makes[0][1] == unmakes[0][1] == board and makes[0][2] == unmakes[0][2]
                      and unmakes[0][3] == makes[0][3]):
                    r4.ok(key + " (make then unmake with the same move and its undo record)")
                else:
                    r4.fail(key + "/dirty-error", "%s::make_raw can return an error with the board modified: mutations %s"
                            % (ty, [(m[0], show(m[2])) for m in pf.muts]), site=ctx.site(fn))
            elif var == "Ok":
                if len(makes) != 1 or unmakes:
                    r4.fail(key + "/ok-mutations", "%s::make_raw returns Ok after %d make / %d unmake calls" % (ty, len(makes), len(unmakes)),
                            site=ctx.site(fn))
                    continue
                mk = makes[0]
                # returned pair must be (the move made, its undo record)
                ret = _strip_payload(unstamp(pf.ret))
                okret = False
                if ret[0] == "agg" and ret[3] and ret[3][0][0] == "agg" and len(ret[3][0][3]) == 2:
                    rm, ru = ret[3][0][3]
                    okret = norm_val(rm) == mk[2] and ru == mk[3]
                r4.check(okret, key + "/returned-pair", "%s::make_raw returns %s, not (the move made, its undo record)"
                         % (ty, show(pf.ret)), site=ctx.site(fn), what=key + " returns (mv, undo) of the make")
                mv = mk[2]
                ks = any(b == mk[1] and pos == 1 for b, pos in pf.kingsafe)
                if contract == "unsafe-contract":
                    good = True
                elif contract == "unsafe-contract+kingsafe":
                    good = ks
                elif contract == "semilegal+kingsafe":
                    good = (is_semilegal_certified(pf, mv, mk[1]) and ks) or is_legal_certified(pf, mv, mk[1])
                else:
                    good = is_legal_certified(pf, mv, mk[1])
                r1.check(good, key + "/certified",
                         "%s::make_raw keeps make_move_unchecked(%s) on a path where the move is not certified (%s required; "
                         "established: semilegal=%s legal=%s king-test=%s)"
                         % (ty, show(mv), contract, [show(m) for m, _b in pf.semilegal], [show(m) for m, _b in pf.legal], ks),
                         site=ctx.site(fn), what=key + " " + contract)
            else:
                r4.fail(key + "/unknown-result", "%s::make_raw: cannot determine the result variant of a path (%s)" % (ty, show(pf.ret)),
                        site=ctx.site(fn))
    r1.floor(n_impl, 7, "Make implementations")
    # unsafe contracts: the wrappers are constructible only through an unsafe fn and their field is private
    for ty in ("Unchecked", "TryUnchecked"):
        sig = facts.sigs.get("owlchess::moves::make::%s::new" % ty)
        adt = facts.adts.get("owlchess::moves::make::%s" % ty)
        ok = bool(sig and sig["safety"] == "Unsafe" and adt and all(f["vis"] != "pub" for f in adt["variants"][0]["fields"]))
        r1.check(ok, "unsafe-wrapper/" + ty, "make::%s is no longer constructible only through an unsafe fn with a private field" % ty,
                 what="make::%s::new is unsafe, field private" % ty)
    tr = facts.sigs.get("owlchess::moves::make::Make")
    r1.check(bool(tr and tr.get("safety") == "Unsafe"), "unsafe-trait/Make", "trait Make is no longer an unsafe trait",
             what="trait Make is unsafe")
    for name in (MAKE_U, UNMAKE_U, BASE + "Move::new_unchecked", BASE + "Move::is_legal_unchecked"):
        sig = facts.sigs.get(name)
        r1.check(bool(sig and sig["safety"] == "Unsafe"), "unsafe-fn/" + name.split("::")[-1], "%s is not an unsafe fn" % name,
                 what=name.split("::")[-1] + " is unsafe")


def dispatch_rule(ctx, facts, rid):
    r = ctx.rule(rid, "make dispatches on the side to move, unmake on its inverse")
    for name, callee, mapping in ((MAKE_U, BASE + "do_make_move", {0: "White", 1: "Black"}),
                                  (UNMAKE_U, BASE + "do_unmake_move", {0: "Black", 1: "White"})):
        fn = facts.fns.get(name)
        if fn is None:
            r.anchor_missing(name)
            continue
        tree = api_tree(facts, fn)
        found = {}
        for n, conds, _inl in walk_tree(tree):
            if n[0] == "call" and n[2] == callee:
                if len(conds) == 1 and show(unstamp(conds[0][0])) == "discr(*b.r.side)" and conds[0][1] != "else":
                    for v in conds[0][1]:
                        found[v] = n[1]
        for v, col in mapping.items():
            want = "%s::<owlchess::generic::%s>" % (callee, col)
            r.check(found.get(v) == want, "%s/side%d" % (name.split("::")[-1], v),
                    "%s with side=%s calls %s, expected %s" % (name, ["White", "Black"][v], found.get(v), want),
                    site=ctx.site(fn), what="%s: side %s -> %s" % (name.split("::")[-1], ["White", "Black"][v], col))
